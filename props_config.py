"""Per-property configuration of ./check: theorem modules, scenarios and budgets,
and the *slice* of the model/implementation comparison that belongs to the
property (DESIGN.md §4).

fields   regexes on the disagreeing field (`obs.<name>` / `out.<name>`), or
         (field regex, op-kind regex) pairs
outcome  regexes on "<op kind>:<direction>", direction = impl_laxer (the real code
         accepts a call the model rejects) or impl_stricter (the reverse)
"""

def sc(name, quick, thorough):
    return {"name": name, "quick": quick, "thorough": thorough}

CW20_ASSUME = [
    "addr_validate is an external call whose result is carried on the op line",
    "marketing/logo handlers are not modelled (frame-checked only)",
    "runtime rolls storage back on Err/panic (emulated by snapshot/restore in the harness)",
]

PROPS = {
    "C01": {
        "modules": ["C01"],
        "scenarios": [sc("cw20", (300, 40), (6000, 80))],
        "fields": [r"obs\.supply", r"obs\.bal"],
        "outcome": [],
        "assumptions": CW20_ASSUME,
    },
}
