#!/bin/sh
# Build the framework from files on disk only (offline).
set -e
cd "$(dirname "$0")"
export CARGO_NET_OFFLINE=true
[ -f harness/Cargo.lock ] || cp /repo/Cargo.lock harness/Cargo.lock
(cd lean/CwPlus && lake build)
(cd harness && cargo build --offline -q)
mkdir -p run evidence
echo setup done
