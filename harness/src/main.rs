//! Correspondence harness: drives the real cw-plus entry points with op lines
//! and prints outcomes and canonical observations (see DESIGN.md §2.4).
//!
//!   harness gen <scenario> --seed S --traces N --ops M     generate + execute
//!   harness replay                                         execute op lines from stdin
//!   harness enum <scenario> --depth D [--shard I --of N]   every op sequence of length D over the scenario's
//!                                                          small-scope alphabet(s) (pruned after an op that leaves the state unchanged)
//!   harness enum <scenario> --describe                     the variants and alphabets, as text
mod common;
mod registry;
include!("scen_mods.rs");

use common::{Rng, Scenario};
use std::io::{BufRead, Write};

use registry::make;

fn main() {
    // panics of the code under test are an outcome class, not noise on stderr
    if std::env::var("VERIF_PANIC").is_err() {
        std::panic::set_hook(Box::new(|_| {}));
    }
    let args: Vec<String> = std::env::args().collect();
    let out = std::io::stdout();
    let mut out = std::io::BufWriter::new(out.lock());
    match args.get(1).map(|s| s.as_str()) {
        Some("gen") => {
            let name = args.get(2).expect("scenario");
            let mut seed = 1u64;
            let mut traces = 10u64;
            let mut ops = 30usize;
            let mut first = 0u64;
            let mut i = 3;
            while i + 1 < args.len() {
                match args[i].as_str() {
                    "--seed" => seed = args[i + 1].parse().unwrap(),
                    "--traces" => traces = args[i + 1].parse().unwrap(),
                    "--ops" => ops = args[i + 1].parse().unwrap(),
                    "--first" => first = args[i + 1].parse().unwrap(),
                    _ => {}
                }
                i += 2;
            }
            let mut scen = make(name).unwrap_or_else(|| {
                eprintln!("unknown scenario {name}");
                std::process::exit(2)
            });
            for t in first..first + traces {
                let mut rng = Rng::new(seed.wrapping_mul(0x9E3779B97F4A7C15) ^ t.wrapping_mul(0xD1B54A32D192ED03));
                let header = scen.start(seed, t);
                writeln!(out, "{header}").unwrap();
                let n = 1 + rng.below(ops as u64) as usize + ops / 2;
                for step in 0..n {
                    // the generator reads the implementation's state; if that state is inconsistent
                    // (a defect in the code under test) the generator must not take the run down
                    let op = match common::catch(|| scen.gen_op(&mut rng, step)) {
                        Some(op) => op,
                        None => continue,
                    };
                    writeln!(out, "{op}").unwrap();
                    out.flush().unwrap();
                    match common::catch(|| scen.apply(&op)) {
                        Some(ls) => {
                            for l in ls {
                                writeln!(out, "{l}").unwrap();
                            }
                        }
                        None => writeln!(out, "> err harness_panic=1").unwrap(),
                    }
                    // keep the trace file complete up to the last op even if the process is killed
                    out.flush().unwrap();
                }
            }
        }
        Some("enum") => {
            let name = args.get(2).expect("scenario");
            let mut depth = 2usize;
            let mut shard = 0u64;
            let mut of = 1u64;
            let describe = args.iter().any(|a| a == "--describe");
            let mut i = 3;
            while i + 1 < args.len() {
                match args[i].as_str() {
                    "--depth" => depth = args[i + 1].parse().unwrap(),
                    "--shard" => shard = args[i + 1].parse().unwrap(),
                    "--of" => of = args[i + 1].parse().unwrap(),
                    _ => {}
                }
                i += 1;
            }
            let mut scen = make(name).unwrap_or_else(|| {
                eprintln!("unknown scenario {name}");
                std::process::exit(2)
            });
            let mut tid = 1_000_000u64;
            let mut variant = 0u64;
            loop {
                scen.start(0, tid);
                let ss = match scen.small_scope(variant) {
                    Some(ss) => ss,
                    None => break,
                };
                let n = ss.alphabet.len();
                if describe {
                    writeln!(out, "variant {variant}: prefix {} lines, alphabet {} ops", ss.prefix.len(), n).unwrap();
                    for l in &ss.prefix {
                        writeln!(out, "  prefix   {l}").unwrap();
                    }
                    for l in &ss.alphabet {
                        writeln!(out, "  alphabet {l}").unwrap();
                    }
                    variant += 1;
                    continue;
                }
                if n == 0 || depth == 0 {
                    variant += 1;
                    continue;
                }
                // odometer over alphabet indices; a sequence is cut after its first op that leaves the state unchanged
                // (a failed call, a query, an accepted call whose complete observation is the same as before: every
                // continuation is covered by a shorter sequence) and the odometer skips everything sharing that prefix
                let mut d = vec![0usize; depth];
                'seqs: loop {
                    let key = if depth >= 2 { (d[0] * n + d[1]) as u64 } else { d[0] as u64 };
                    let mut cut = depth - 1;
                    if key % of == shard {
                        tid += 1;
                        let header = scen.start(0, tid);
                        writeln!(out, "{header}").unwrap();
                        // returns true when the op left the state as it was: it failed, or it is a query (no observation),
                        // or its observation equals the previous one (observations are complete: §2.4)
                        let mut last_obs: Option<String> = None;
                        let mut run = |out: &mut dyn Write, scen: &mut Box<dyn Scenario>, op: &str| -> bool {
                            writeln!(out, "{op}").unwrap();
                            out.flush().unwrap();
                            let ls = common::catch(|| scen.apply(op)).unwrap_or_else(|| vec!["> err harness_panic=1".to_string()]);
                            let failed = ls.iter().any(|l| l.starts_with("> err"));
                            let obs = ls.iter().find(|l| l.starts_with("obs")).cloned();
                            for l in &ls {
                                writeln!(out, "{l}").unwrap();
                            }
                            out.flush().unwrap();
                            let is_env = op.starts_with("env ");
                            let same = match (&obs, &last_obs) {
                                (Some(a), Some(b)) => a == b,
                                (None, _) => !is_env,
                                _ => false,
                            };
                            if obs.is_some() {
                                last_obs = obs;
                            }
                            failed || same
                        };
                        for l in &ss.prefix {
                            run(&mut out, &mut scen, l);
                        }
                        // blocks never go back: an `env` line that does not move to a later block is not applied
                        let height_of = |l: &str| -> Option<u64> {
                            if !l.starts_with("env ") {
                                return None;
                            }
                            l.split_whitespace().find_map(|t| t.strip_prefix("height=")).and_then(|h| h.parse().ok())
                        };
                        let mut cur_h: u64 = ss.prefix.iter().filter_map(|l| height_of(l)).max().unwrap_or(0);
                        for (pos, &ix) in d.iter().enumerate() {
                            let op = &ss.alphabet[ix];
                            if let Some(h) = height_of(op) {
                                if h <= cur_h {
                                    cut = pos;
                                    break;
                                }
                                cur_h = h;
                            }
                            if run(&mut out, &mut scen, op) && pos < depth - 1 {
                                cut = pos;
                                break;
                            }
                        }
                    } else if depth >= 2 {
                        cut = 1; // not ours: skip the whole block that shares the first two symbols
                    }
                    // increment at `cut`, zero below
                    let mut pos = cut;
                    loop {
                        for z in d.iter_mut().skip(pos + 1) {
                            *z = 0;
                        }
                        d[pos] += 1;
                        if d[pos] < n {
                            break;
                        }
                        if pos == 0 {
                            break 'seqs;
                        }
                        pos -= 1;
                    }
                }
                variant += 1;
            }
        }
        Some("replay") => {
            let stdin = std::io::stdin();
            let mut scen: Option<Box<dyn Scenario>> = None;
            for line in stdin.lock().lines() {
                let line = line.unwrap();
                let line = line.trim();
                if line.is_empty() || line.starts_with('>') || line.starts_with("obs ") || line == "obs" || line.starts_with('#') {
                    continue;
                }
                if line.starts_with("scenario ") {
                    let name = line.split_whitespace().nth(1).unwrap_or("");
                    let mut s = make(name).unwrap_or_else(|| {
                        eprintln!("unknown scenario {name}");
                        std::process::exit(2)
                    });
                    s.reset(line);
                    scen = Some(s);
                    writeln!(out, "{line}").unwrap();
                    continue;
                }
                if let Some(s) = scen.as_mut() {
                    writeln!(out, "{line}").unwrap();
                    for l in s.apply(line) {
                        writeln!(out, "{l}").unwrap();
                    }
                }
            }
        }
        _ => {
            eprintln!("usage: harness gen <scenario> [--seed S --traces N --ops M --first K] | harness enum <scenario> --depth D [--shard I --of N | --describe] | harness replay < ops");
            std::process::exit(2);
        }
    }
    out.flush().unwrap();
}
