//! Scenario `cw20`: the real `cw20_base` entry points in direct mode.
// SCENARIO cw20 crate::scen_cw20::Cw20Scen::new()
// SCENARIO cw20wide crate::scen_cw20::Cw20Scen::new_wide()
use crate::common::*;
use cosmwasm_std::testing::{mock_env, MockApi, MockQuerier};
use cosmwasm_std::{
    from_json, Addr, Binary, CosmosMsg, Env, MessageInfo, OwnedDeps, Response, Timestamp, Uint128, WasmMsg,
};
use cw20::{
    AllAccountsResponse, AllAllowancesResponse, AllSpenderAllowancesResponse, AllowanceResponse, BalanceResponse,
    Cw20Coin, Cw20ReceiveMsg, DownloadLogoResponse, EmbeddedLogo, Logo, LogoInfo, MarketingInfoResponse,
    MinterResponse, TokenInfoResponse,
};
use cw20_base::contract::{execute, instantiate, migrate, query};
use cw20_base::msg::{ExecuteMsg, InstantiateMarketingInfo, InstantiateMsg, MigrateMsg, QueryMsg};
use cw20_base::state::{MinterData, TokenInfo, ALLOWANCES, BALANCES, TOKEN_INFO};
use std::marker::PhantomData;

type Deps = OwnedDeps<MemStore, MockApi, MockQuerier>;

pub struct Cw20Scen {
    deps: Deps,
    env: Env,
    pool: Vec<Addr>,
    inited: bool,
    legacy: bool,
    seed: u64,
    /// `cw20wide`: 36 actors, so listings exceed the maximum page size (C20)
    wide: bool,
}

fn new_deps() -> Deps {
    OwnedDeps {
        storage: MemStore::default(),
        api: MockApi::default(),
        querier: MockQuerier::default(),
        custom_query_type: PhantomData,
    }
}

const U128MAX: u128 = u128::MAX;

/// `url:<text>` | `svg:<payload>` | `png:<payload>` (inst) — or the `url=`/`svg=`/`png=` keys of a `logo` op.
fn parse_logo(kind: &str, val: &str) -> Option<Logo> {
    match kind {
        "url" => Some(Logo::Url(text_dec(val))),
        "svg" => Some(Logo::Embedded(EmbeddedLogo::Svg(Binary::from(parse_payload(val))))),
        "png" => Some(Logo::Embedded(EmbeddedLogo::Png(Binary::from(parse_payload(val))))),
        _ => None,
    }
}

/// The shape of `<proj>;<desc>;<addr>;<logoinfo>` shared by `obs minfo=` and `query marketing_info`.
fn render_minfo(m: &MarketingInfoResponse) -> String {
    format!(
        "{};{};{};{}",
        opt_text_enc(&m.project),
        opt_text_enc(&m.description),
        opt_text_enc(&m.marketing.as_ref().map(|a| a.to_string())),
        match &m.logo {
            None => "-".to_string(),
            Some(LogoInfo::Embedded) => "embedded".to_string(),
            Some(LogoInfo::Url(u)) => format!("url:{}", text_enc(u)),
        }
    )
}

fn render_download(d: &DownloadLogoResponse) -> String {
    let mime = match d.mime_type.as_str() {
        "image/svg+xml" => "svg".to_string(),
        "image/png" => "png".to_string(),
        other => text_enc(other),
    };
    format!("{}:{}", mime, render_data(d.data.as_slice()))
}

const XML_OK: &str = "3c3f786d6c2076657273696f6e3d22312e30223f3e3c7376672f3e"; // <?xml version="1.0"?><svg/>
const PNG_HDR: &str = "89504e470d0a1a0a";

/// payload attached to Send / SendFrom: arbitrary bytes, also none at all, a literal `{}` and JSON text
fn gen_payload(rng: &mut Rng) -> String {
    match rng.below(9) {
        0 => String::new(),
        1 => "{}".to_string(),
        2 => "{\"k\":1}".to_string(),
        3 => "null".to_string(),
        n => format!("p{}", n % 4),
    }
}

impl Cw20Scen {
    pub fn new() -> Self {
        Cw20Scen { deps: new_deps(), env: mock_env(), pool: vec![], inited: false, legacy: false, seed: 0, wide: false }
    }

    pub fn new_wide() -> Self {
        let mut s = Self::new();
        s.wide = true;
        s
    }

    fn q<T: serde::de::DeserializeOwned>(&self, msg: QueryMsg) -> Option<T> {
        let r = catch(|| query(self.deps.as_ref(), self.env.clone(), msg));
        match r {
            Some(Ok(b)) => from_json(&b).ok(),
            _ => None,
        }
    }

    fn bal(&self, a: &Addr) -> u128 {
        self.q::<BalanceResponse>(QueryMsg::Balance { address: a.to_string() }).map(|b| b.balance.u128()).unwrap_or(0)
    }

    fn allowance(&self, o: &Addr, s: &Addr) -> Option<AllowanceResponse> {
        self.q::<AllowanceResponse>(QueryMsg::Allowance { owner: o.to_string(), spender: s.to_string() })
    }

    fn supply(&self) -> u128 {
        self.q::<TokenInfoResponse>(QueryMsg::TokenInfo {}).map(|t| t.total_supply.u128()).unwrap_or(0)
    }

    /// Page through a listing with `limit`; the cursor is the last returned key.
    fn page_all(&self, limit: Option<u32>, f: &dyn Fn(Option<String>, Option<u32>) -> Option<Vec<String>>) -> Vec<String> {
        let mut out: Vec<String> = vec![];
        let mut cursor: Option<String> = None;
        let mut guard = WalkGuard::default();
        for _ in 0..MAX_WALK_PAGES {
            match f(cursor.clone(), limit) {
                Some(p) if !p.is_empty() => {
                    // the cursor is the key part (up to the first ':')
                    let last = p.last().unwrap().clone();
                    let next = Some(last.split(':').next().unwrap().to_string());
                    out.extend(p);
                    if next == cursor || !guard.fresh(&next) {
                        break; // no progress (a defect in the code under test): do not walk forever
                    }
                    cursor = next;
                }
                _ => break,
            }
        }
        out
    }

    fn observe(&self, salt: &str) -> String {
        if !self.inited {
            return "obs uninit=1".to_string();
        }
        let mut rng = Rng::new(hash_str(salt) ^ self.seed);
        let mut lim = || -> Option<u32> {
            match rng.below(9) {
                0 => None,
                1 => Some(1),
                2 => Some(2),
                3 => Some(3),
                4 => Some(30),
                5 => Some(29),
                6 => Some(31),
                7 => Some(1000),
                _ => Some(7),
            }
        };
        let ti: Option<TokenInfoResponse> = self.q(QueryMsg::TokenInfo {});
        let supply = ti.map(|t| t.total_supply.to_string()).unwrap_or("?".into());
        let minter: Option<Option<MinterResponse>> = self.q(QueryMsg::Minter {});
        let (mn, cap) = match minter {
            Some(Some(m)) => (m.minter, opt_str(&m.cap)),
            _ => ("-".to_string(), "-".to_string()),
        };
        // accounts by paging
        let l = lim();
        let accounts = self.page_all(l, &|c, l| {
            self.q::<AllAccountsResponse>(QueryMsg::AllAccounts { start_after: c, limit: l }).map(|r| r.accounts)
        });
        let bal: Vec<String> =
            accounts.iter().map(|a| format!("{}:{}", a, self.bal(&Addr::unchecked(a.clone())))).collect();
        let mut allow: Vec<String> = vec![];
        let mut allowsp: Vec<String> = vec![];
        let mut pallow: Vec<String> = vec![];
        for o in &self.pool {
            let l = lim();
            let items = self.page_all(l, &|c, l| {
                self.q::<AllAllowancesResponse>(QueryMsg::AllAllowances { owner: o.to_string(), start_after: c, limit: l })
                    .map(|r| {
                        r.allowances
                            .iter()
                            .map(|a| format!("{}:{}:{}", a.spender, a.allowance, render_exp(&a.expires)))
                            .collect()
                    })
            });
            for it in items {
                allow.push(format!("{}>{}", o, it));
            }
            let l = lim();
            let items = self.page_all(l, &|c, l| {
                self.q::<AllSpenderAllowancesResponse>(QueryMsg::AllSpenderAllowances {
                    spender: o.to_string(),
                    start_after: c,
                    limit: l,
                })
                .map(|r| {
                    r.allowances
                        .iter()
                        .map(|a| format!("{}:{}:{}", a.owner, a.allowance, render_exp(&a.expires)))
                        .collect()
                })
            });
            for it in items {
                // spender view: rendered as owner>spender like the others
                let mut parts = it.splitn(2, ':');
                let owner = parts.next().unwrap();
                let rest = parts.next().unwrap_or("");
                allowsp.push(format!("{}>{}:{}", owner, o, rest));
            }
            if !self.wide {
                for s in &self.pool {
                    if let Some(a) = self.allowance(o, s) {
                        if !a.allowance.is_zero() || a.expires != (cw_utils::Expiration::Never {}) {
                            pallow.push(format!("{}>{}:{}:{}", o, s, a.allowance, render_exp(&a.expires)));
                        }
                    }
                }
            }
        }
        if self.wide {
            // point queries for every pair that occurs in either listing view
            let mut keys: Vec<String> =
                allow.iter().chain(allowsp.iter()).map(|e| e.split(':').next().unwrap().to_string()).collect();
            keys.sort();
            keys.dedup();
            for k in keys {
                let (o, s) = k.split_once('>').unwrap();
                if let Some(a) = self.allowance(&Addr::unchecked(o), &Addr::unchecked(s)) {
                    if !a.allowance.is_zero() || a.expires != (cw_utils::Expiration::Never {}) {
                        pallow.push(format!("{}>{}:{}:{}", o, s, a.allowance, render_exp(&a.expires)));
                    }
                }
            }
        }
        allow.sort();
        allowsp.sort();
        pallow.sort();
        // C20 self-check of the three listings (for a few owners/spenders)
        let mut pagediff: Vec<String> = vec![];
        if let Some(d) = paging_audit("all_accounts", &|c, l| {
            self.q::<AllAccountsResponse>(QueryMsg::AllAccounts { start_after: c, limit: l }).map(|r| r.accounts)
        }) {
            pagediff.push(d);
        }
        for o in self.pool.iter().take(3) {
            if let Some(d) = paging_audit("all_allowances", &|c, l| {
                self.q::<AllAllowancesResponse>(QueryMsg::AllAllowances { owner: o.to_string(), start_after: c, limit: l })
                    .map(|r| r.allowances.iter().map(|a| format!("{}:{}", a.spender, a.allowance)).collect())
            }) {
                pagediff.push(d);
            }
            if let Some(d) = paging_audit("all_spender_allowances", &|c, l| {
                self.q::<AllSpenderAllowancesResponse>(QueryMsg::AllSpenderAllowances { spender: o.to_string(), start_after: c, limit: l })
                    .map(|r| r.allowances.iter().map(|a| format!("{}:{}", a.owner, a.allowance)).collect())
            }) {
                pagediff.push(d);
            }
        }
        pagediff.dedup();
        let minfo = match self.q::<MarketingInfoResponse>(QueryMsg::MarketingInfo {}) {
            Some(m) => render_minfo(&m),
            None => "err".to_string(),
        };
        let logo = match self.q::<DownloadLogoResponse>(QueryMsg::DownloadLogo {}) {
            Some(d) => render_download(&d),
            None => "err".to_string(),
        };
        // the cw2 item (not query-visible; `migrate` reads and writes it)
        let ver = match cw2::get_contract_version(&self.deps.storage) {
            Ok(v) => format!("{}@{}", v.contract, v.version),
            Err(_) => "-".to_string(),
        };
        format!(
            "obs pagediff={} supply={} minter={} cap={} bal={} allow={} allowsp={} pallow={} minfo={} logo={} ver={}",
            pagediff.join(","),
            supply,
            mn,
            cap,
            bal.join(","),
            allow.join(","),
            allowsp.join(","),
            pallow.join(","),
            minfo,
            logo,
            ver
        )
    }

    fn render_msgs(res: &Response) -> String {
        let mut v = vec![];
        for m in &res.messages {
            match &m.msg {
                CosmosMsg::Wasm(WasmMsg::Execute { contract_addr, msg, funds }) => {
                    // `Cw20ReceiveMsg::into_json_binary` wraps it as {"receive": {...}}
                    #[derive(serde::Deserialize)]
                    #[serde(rename_all = "snake_case")]
                    enum Wrap {
                        Receive(Cw20ReceiveMsg),
                    }
                    match from_json::<Wrap>(msg) {
                        Ok(Wrap::Receive(r)) => v.push(format!(
                            "recv/{}/{}/{}/{}{}",
                            contract_addr,
                            r.sender,
                            r.amount,
                            String::from_utf8_lossy(r.msg.as_slice()),
                            if funds.is_empty() { "" } else { "/funds" }
                        )),
                        Err(_) => v.push("wasm?".to_string()),
                    }
                }
                _ => v.push("other".to_string()),
            }
        }
        v.join(";")
    }

    /// The bytes of `WasmMsg::Execute.msg` of every emitted message, hex, `;`-separated (`-`: not a wasm execute):
    /// compared byte for byte with the model's `MsgWire.encodeReceive`.
    fn render_raw(res: &Response) -> String {
        let v: Vec<String> = res
            .messages
            .iter()
            .map(|m| match &m.msg {
                CosmosMsg::Wasm(WasmMsg::Execute { msg, .. }) => hex(msg.as_slice()),
                _ => "-".to_string(),
            })
            .collect();
        v.join(";")
    }

    fn tx(&mut self, f: impl FnOnce(&mut Deps, Env) -> Result<Response, cw20_base::ContractError>) -> String {
        let snap = self.deps.storage.clone();
        let env = self.env.clone();
        let deps = &mut self.deps;
        let r = catch(move || f(deps, env));
        match r {
            Some(Ok(res)) => format!("> ok msgs={} raw={}", Self::render_msgs(&res), Self::render_raw(&res)),
            Some(Err(_)) => {
                self.deps.storage = snap;
                "> err".to_string()
            }
            None => {
                self.deps.storage = snap;
                "> err panic=1".to_string()
            }
        }
    }

    fn amount_near(&self, rng: &mut Rng, base: u128) -> u128 {
        match rng.below(10) {
            0 => 0,
            1 => 1,
            2 => base.saturating_sub(1),
            3 | 4 => base,
            5 => base.saturating_add(1),
            6 => base / 2,
            7 => rng.below(1000) as u128,
            8 => *rng.pick(&[U128MAX, U128MAX - 1, 1u128 << 127, 1u128 << 64, (1u128 << 64) - 1]),
            _ => {
                if base > 0 {
                    rng.u128() % base.saturating_add(1).max(1)
                } else {
                    rng.below(50) as u128
                }
            }
        }
    }

    fn gen_exp(&self, rng: &mut Rng) -> String {
        let h = self.env.block.height;
        let t = self.env.block.time.nanos();
        match rng.below(12) {
            0 | 1 | 2 | 3 => "-".to_string(),
            4 => "never".to_string(),
            5 => format!("h{}", h.saturating_sub(1)),
            6 => format!("h{h}"),
            7 => format!("h{}", h + 1),
            8 => format!("h{}", h + 1 + rng.below(5)),
            9 => format!("t{}", t),
            10 => format!("t{}", t + 1),
            _ => format!("t{}", t + 1 + rng.below(20) * 1_000_000_000),
        }
    }

    fn gen_addr(&self, rng: &mut Rng) -> String {
        if rng.chance(1, 25) {
            format!("-{}", invalid_addr(rng, &self.pool))
        } else {
            format!("+{}", rng.pick(&self.pool))
        }
    }

    /// A free-text field of the marketing info: `-` (absent), `empty`, blank strings (ASCII and Unicode
    /// white space), a zero-width space (not white space), ordinary text.
    fn gen_text(&self, rng: &mut Rng, stem: &str) -> String {
        match rng.below(14) {
            0 | 1 | 2 => "-".to_string(),
            3 => "empty".to_string(),
            4 => "%20".to_string(),
            5 => "%09%0A%20%0D".to_string(),
            6 => "%C2%A0%E2%80%83".to_string(),  // NBSP + EM SPACE: blank for `trim`
            7 => "%E2%80%8B".to_string(),        // ZERO WIDTH SPACE: not white space
            8 => format!("%20{stem}%20"),
            9 => "%65mpty".to_string(),
            10 => format!("{stem}%2Dwith%3Dodd%2Cchars%3B"),
            _ => format!("{stem}{}", rng.below(3)),
        }
    }

    /// `(kind, value)` of a logo: URLs, valid / invalid / boundary-size embedded images.
    fn gen_logo(&self, rng: &mut Rng) -> (String, String) {
        let (k, v): (&str, String) = match rng.below(24) {
            0 | 1 | 2 => ("url", format!("u{}", rng.below(3))),
            3 => ("url", "empty".to_string()),
            4 => ("url", "https%3A%2F%2Fexample.com%2Flogo.svg".to_string()),
            5 | 6 | 7 => ("svg", XML_OK.to_string()),
            8 => ("svg", "3c3f786d6c203f3e".to_string()),                 // <?xml ?>  (shortest valid)
            9 => ("svg", "".to_string()),                                  // empty
            10 => ("svg", "3c7376672f3e".to_string()),                     // <svg/>
            11 => ("svg", "3c3f786d6c20613e203f3e".to_string()),           // <?xml a> ?>  first '>' not after '?'
            12 => ("svg", "3c3f786d6c2076657273696f6e".to_string()),       // <?xml version  (no '>')
            13 => ("svg", "203c3f786d6c203f3e".to_string()),               // leading blank
            14 => ("svg", "3c3f786d6c3f3e".to_string()),                   // <?xml?>  (no blank after xml)
            15 => ("svg", format!("{XML_OK}.20x{}", 5120 - 27 + rng.below(2))),   // exactly at / one above the cap
            16 => ("svg", format!("3c7376672f3e.20x{}", 5120 - 6 + rng.below(2))), // bad preamble at the cap
            17 | 18 | 19 => ("png", format!("{PNG_HDR}{}", if rng.chance(1, 2) { "0000000d49484452" } else { "" })),
            20 => ("png", PNG_HDR[..14].to_string()),                      // truncated header
            21 => ("png", "89504e470d0a1a0b00".to_string()),               // wrong last header byte
            22 => ("png", format!("{PNG_HDR}.00x{}", 5120 - 8 + rng.below(2))),    // at / above the cap
            _ => ("png", format!("{}.ffx{}", if rng.chance(1, 2) { "" } else { "3c3f786d6c203f3e" }, 5113 + rng.below(9))),
        };
        (k.to_string(), v)
    }

    fn marketing_addr(&self) -> Option<String> {
        self.q::<MarketingInfoResponse>(QueryMsg::MarketingInfo {}).and_then(|m| m.marketing).map(|a| a.to_string())
    }

    fn gen_marketing_op(&self, rng: &mut Rng) -> String {
        let owner = self.marketing_addr();
        let snd = match &owner {
            Some(o) if rng.chance(4, 5) => o.clone(),
            _ => rng.pick(&self.pool).to_string(),
        };
        if rng.chance(1, 2) {
            let maddr = match rng.below(16) {
                0 => "empty".to_string(),
                1 => "-%20".to_string(),
                2 => format!("-{}", invalid_addr(rng, &self.pool)),
                3 | 4 => format!("+{}", rng.pick(&self.pool)),
                5 => format!("+{snd}"),
                6 => format!("-%20{}", rng.pick(&self.pool)),
                _ => "-".to_string(),
            };
            format!(
                "exec {snd} marketing project={} description={} marketing={maddr}",
                self.gen_text(rng, "proj"),
                self.gen_text(rng, "desc")
            )
        } else {
            let (k, v) = self.gen_logo(rng);
            format!("exec {snd} logo {k}={v}")
        }
    }

    fn gen_inst(&self, rng: &mut Rng) -> String {
        let legacy = rng.chance(1, 6);
        let n = if self.wide { rng.below(self.pool.len() as u64 + 1) as usize } else { rng.below(6) as usize };
        let mut bal = vec![];
        let mut total: u128 = 0;
        for i in 0..n {
            let a = if rng.chance(1, 15) && !legacy { self.gen_addr(rng) } else { format!("+{}", self.pool[i % self.pool.len()]) };
            let amt: u128 = match rng.below(8) {
                0 => 0,
                1 if !legacy => rng.u128() >> rng.below(128),
                2 if !legacy => (U128MAX - total.min(U128MAX)).saturating_add(rng.below(2) as u128),
                _ => rng.below(2000) as u128,
            };
            total = total.saturating_add(amt);
            bal.push(format!("{a}:{amt}"));
        }
        let (mint, cap) = match rng.below(4) {
            0 => ("-".to_string(), "-".to_string()),
            1 => (self.gen_addr(rng), "-".to_string()),
            _ => {
                let c = match rng.below(5) {
                    0 => total,
                    1 => total.saturating_sub(1),
                    2 => total.saturating_add(1),
                    3 => U128MAX,
                    _ => total.saturating_add(rng.below(5000) as u128),
                };
                (self.gen_addr(rng), c.to_string())
            }
        };
        if legacy {
            // a reachable old state respects its cap
            let cap = match cap.parse::<u128>() { Ok(c) if c < total => total.to_string(), _ => cap };
            // pre-0.14 state: allowances only in ALLOWANCES
            let mut al = vec![];
            // wide: old tables with far more entries than any batch or page size, a few owners with many spenders
            // each (a migration that rebuilds the spender index in chunks must not lose rows at chunk boundaries)
            let big = self.wide && rng.chance(1, 2);
            let na = if big { 30 + rng.below(70) } else { rng.below(6) };
            let owners = if big { 2 + rng.below(4) as usize } else { self.pool.len() };
            let mut seen = std::collections::BTreeSet::new();
            for _ in 0..na {
                let o = self.pool[rng.below(owners.min(self.pool.len()) as u64) as usize].clone();
                let s = rng.pick(&self.pool).clone();
                if o == s || !seen.insert((o.clone(), s.clone())) {
                    continue;
                }
                let e = match rng.below(3) {
                    0 => "never".to_string(),
                    1 => format!("h{}", self.env.block.height + rng.below(6)),
                    _ => format!("t{}", self.env.block.time.nanos() + rng.below(20) * 1_000_000_000),
                };
                let amt = if rng.chance(1, 4) { 0 } else { rng.below(500) };
                al.push(format!("{}>{}:{}:{}", o, s, amt, e));
            }
            // pre-0.14 versions (the state really lacks the spender map); newer-than-current ones must be refused
            // pre-release tags sort below their release: `0.14.0-beta` still lacks the spender map, `2.0.1-alpha` is newer
            // than the code (versions from 0.14.0 up to the code's would need a state that has the spender map)
            let ver = *rng.pick(&[
                "0.13.4", "0.9.0", "0.1.0", "0.13.99", "0.13.4", "2.0.1", "3.1.0", "0.13.0-rc.1", "0.10.0-soon4", "0.14.0-beta",
                "0.8.0-rc1", "2.0.1-alpha",
            ]);
            let name = if rng.chance(1, 10) { "crates.io:other" } else { "crates.io:cw20-base" };
            let mint = if mint.starts_with('-') && mint != "-" { "-".to_string() } else { mint };
            format!("inst_legacy name={} ver={} bal={} mint={} cap={} allow={}", name, ver, bal.join(","), mint, cap, al.join(","))
        } else {
            let name = *rng.pick(&["Token", "Tk", "ThisNameIsWayTooLongForATokenNameBecauseItHasMoreThan50Bytes", "Tok"]);
            let name = if rng.chance(9, 10) { "Token" } else { name };
            let sym = if rng.chance(9, 10) { "TOK" } else { *rng.pick(&["TK", "TOK1", "TOK-EN", "abcdefghijklm", "T_K"]) };
            let dec = if rng.chance(9, 10) { 6 } else { *rng.pick(&[0u8, 18, 19, 255]) };
            let mkt = if rng.chance(1, 6) {
                "mkt=-".to_string()
            } else {
                let maddr = match rng.below(24) {
                    0 | 1 => "-".to_string(),
                    2 => format!("-{}", invalid_addr(rng, &self.pool)),
                    3 => "-%20".to_string(),
                    _ => format!("+{}", rng.pick(&self.pool)),
                };
                let mlogo = if rng.chance(1, 2) {
                    "-".to_string()
                } else {
                    let (k, v) = self.gen_logo(rng);
                    format!("{k}:{v}")
                };
                format!(
                    "mkt=1 mproject={} mdesc={} maddr={} mlogo={}",
                    self.gen_text(rng, "proj"),
                    self.gen_text(rng, "desc"),
                    maddr,
                    mlogo
                )
            };
            format!("inst name={} sym={} dec={} bal={} mint={} cap={} {}", name, sym, dec, bal.join(","), mint, cap, mkt)
        }
    }
}

impl Scenario for Cw20Scen {
    fn start(&mut self, seed: u64, trace: u64) -> String {
        let api = MockApi::default();
        let p = pool(&api, if self.wide { 36 } else { 5 });
        let header = format!(
            "scenario {} seed={} trace={} pool={}",
            if self.wide { "cw20wide" } else { "cw20" },
            seed,
            trace,
            p.iter().map(|a| a.to_string()).collect::<Vec<_>>().join(",")
        );
        self.reset(&header);
        header
    }

    fn reset(&mut self, header: &str) {
        let a = Args::parse(header);
        self.deps = new_deps();
        self.env = mock_env();
        self.pool = a.list("pool").into_iter().map(Addr::unchecked).collect();
        // the token contract's own address is a valid address like any other and takes part as holder, recipient,
        // owner and spender: it is the last address of the pool
        if let Some(me) = self.pool.last() {
            self.env.contract.address = me.clone();
        }
        // the chain knows a (migration) admin of the token contract — the second pool address — and a creator: facts of
        // the environment that give nobody any right inside the token (the token's roles are its own)
        if self.pool.len() >= 3 {
            let admin = self.pool[1].clone();
            let creator = self.pool[2].clone();
            self.deps.querier.update_wasm(move |q| match q {
                cosmwasm_std::WasmQuery::ContractInfo { .. } => {
                    let r = cosmwasm_std::ContractInfoResponse::new(1, creator.clone(), Some(admin.clone()), false, None);
                    cosmwasm_std::SystemResult::Ok(cosmwasm_std::ContractResult::Ok(cosmwasm_std::to_json_binary(&r).unwrap()))
                }
                _ => cosmwasm_std::SystemResult::Err(cosmwasm_std::SystemError::UnsupportedRequest { kind: "wasm".to_string() }),
            });
        }
        self.inited = false;
        self.legacy = false;
        self.seed = a.u64("seed");
    }

    fn gen_op(&mut self, rng: &mut Rng, _step: usize) -> String {
        if !self.inited {
            return self.gen_inst(rng);
        }
        let r = rng.below(100);
        if r < 8 {
            // advance the block: same height never goes back
            let dh = *rng.pick(&[0u64, 1, 1, 2, 5]);
            let dt = *rng.pick(&[0u64, 1, 5_000_000_000, 20_000_000_000]);
            return format!("env height={} time={}", self.env.block.height + dh, self.env.block.time.nanos() + dt);
        }
        if r < 16 {
            let lim = match rng.below(10) {
                0 => "-".to_string(),
                1 => "0".to_string(),
                2 => "31".to_string(),
                3 => "4000000000".to_string(),
                4 => "30".to_string(),
                5 => "29".to_string(),
                6 => "10".to_string(),
                7 => "11".to_string(),
                _ => rng.below(5).to_string(),
            };
            let after = match rng.below(4) {
                0 => "-".to_string(),
                1 => rng.pick(&self.pool).to_string(),
                2 => "cosmwasm1m".to_string(),
                _ => "-".to_string(),
            };
            return match rng.below(4) {
                0 => format!("query all_accounts after={after} limit={lim}"),
                1 => format!("query all_allowances owner={} after={after} limit={lim}", self.gen_addr(rng)),
                2 => format!("query all_spender_allowances spender={} after={after} limit={lim}", self.gen_addr(rng)),
                _ => format!("query balance address={}", self.gen_addr(rng)),
            };
        }
        // without a marketing address nobody can change anything: probe that only now and then
        if r < 24 && (self.marketing_addr().is_some() || rng.chance(1, 4)) {
            return if rng.chance(1, 8) {
                (*rng.pick(&["query marketing_info", "query download_logo"])).to_string()
            } else {
                self.gen_marketing_op(rng)
            };
        }
        if r < 27 || (self.legacy && r < 34) {
            self.legacy = false;
            return "migrate".to_string();
        }
        if self.wide && rng.chance(3, 5) {
            // grow the listings: many accounts, many spenders of few owners, many owners of few spenders
            let few = &self.pool[..3];
            return match rng.below(4) {
                0 => {
                    let holders: Vec<Addr> = self.pool.iter().filter(|a| self.bal(a) > 0).cloned().collect();
                    let snd = if holders.is_empty() { rng.pick(&self.pool).clone() } else { rng.pick(&holders).clone() };
                    format!("exec {snd} transfer to=+{} amt={}", rng.pick(&self.pool), rng.below(3))
                }
                1 => format!("exec {} increase_allowance spender=+{} amt={} expires=-", rng.pick(few), rng.pick(&self.pool), 1 + rng.below(50)),
                2 => format!("exec {} increase_allowance spender=+{} amt={} expires=-", rng.pick(&self.pool), rng.pick(few), 1 + rng.below(50)),
                _ => {
                    let lim = *rng.pick(&["-", "0", "1", "9", "10", "11", "29", "30", "31", "32", "100"]);
                    let after = if rng.chance(1, 3) { "-".to_string() } else { rng.pick(&self.pool).to_string() };
                    match rng.below(3) {
                        0 => format!("query all_accounts after={after} limit={lim}"),
                        1 => format!("query all_allowances owner=+{} after={after} limit={lim}", rng.pick(few)),
                        _ => format!("query all_spender_allowances spender=+{} after={after} limit={lim}", rng.pick(few)),
                    }
                }
            };
        }
        let snd = rng.pick(&self.pool).clone();
        let minter: Option<Option<MinterResponse>> = self.q(QueryMsg::Minter {});
        let minter = minter.flatten();
        let k = rng.below(100);
        if k < 16 {
            let to = self.gen_addr(rng);
            let amt = self.amount_near(rng, self.bal(&snd));
            format!("exec {snd} transfer to={to} amt={amt}")
        } else if k < 24 {
            let amt = self.amount_near(rng, self.bal(&snd));
            format!("exec {snd} burn amt={amt}")
        } else if k < 32 {
            let to = self.gen_addr(rng);
            let amt = self.amount_near(rng, self.bal(&snd));
            format!("exec {snd} send contract={to} amt={amt} payload={}", gen_payload(rng))
        } else if k < 44 {
            // mostly by the minter
            let snd = match &minter {
                Some(m) if rng.chance(4, 5) => Addr::unchecked(m.minter.clone()),
                _ => snd,
            };
            let room = match &minter {
                Some(MinterResponse { cap: Some(c), .. }) => c.u128().saturating_sub(self.supply()),
                _ => U128MAX - self.supply(),
            };
            let amt = if rng.chance(1, 2) { rng.below(300) as u128 } else { self.amount_near(rng, room) };
            let to = self.gen_addr(rng);
            format!("exec {snd} mint to={to} amt={amt}")
        } else if k < 49 {
            let snd = match &minter {
                Some(m) if rng.chance(3, 4) => Addr::unchecked(m.minter.clone()),
                _ => snd,
            };
            let new = if rng.chance(1, 5) { "-".to_string() } else { self.gen_addr(rng) };
            format!("exec {snd} update_minter new={new}")
        } else if k < 62 {
            let sp = self.gen_addr(rng);
            let amt = if rng.chance(1, 8) { self.amount_near(rng, U128MAX) } else { rng.below(400) as u128 };
            let e = self.gen_exp(rng);
            format!("exec {snd} increase_allowance spender={sp} amt={amt} expires={e}")
        } else if k < 70 {
            let sp = self.gen_addr(rng);
            let cur = self.allowance(&snd, &Addr::unchecked(addr_text(&sp))).map(|a| a.allowance.u128()).unwrap_or(0);
            let amt = self.amount_near(rng, cur);
            let e = self.gen_exp(rng);
            format!("exec {snd} decrease_allowance spender={sp} amt={amt} expires={e}")
        } else {
            // draws: pick an (owner, spender) pair that has an allowance when possible
            let mut pairs = vec![];
            let owners: Vec<Addr> = if self.wide { (0..4).map(|_| rng.pick(&self.pool).clone()).collect() } else { self.pool.clone() };
            for o in &owners {
                for s in &self.pool {
                    if let Some(a) = self.allowance(o, s) {
                        if !a.allowance.is_zero() {
                            pairs.push((o.clone(), s.clone(), a.allowance.u128()));
                        }
                    }
                }
            }
            let (owner, spender, al) = if !pairs.is_empty() && rng.chance(5, 6) {
                rng.pick(&pairs).clone()
            } else {
                (rng.pick(&self.pool).clone(), snd.clone(), 0)
            };
            let base = al.min(self.bal(&owner));
            let amt = if rng.chance(1, 3) { self.amount_near(rng, al) } else { self.amount_near(rng, base) };
            let owner_s = if rng.chance(1, 30) { format!("-{}", invalid_addr(rng, &self.pool)) } else { format!("+{owner}") };
            match rng.below(3) {
                0 => format!("exec {spender} transfer_from owner={owner_s} to={} amt={amt}", self.gen_addr(rng)),
                1 => format!("exec {spender} burn_from owner={owner_s} amt={amt}"),
                _ => format!(
                    "exec {spender} send_from owner={owner_s} contract={} amt={amt} payload={}",
                    self.gen_addr(rng),
                    gen_payload(rng)
                ),
            }
        }
    }

    /// Small scope: three actors (p0 rich, p1 poor, p2 empty / receiving contract), amounts 0/1/2, self-targets,
    /// expiries at the current and the next block.  Variant 0: p0 is minter under a cap of 4; variant 1: no minter.
    fn small_scope(&mut self, variant: u64) -> Option<SmallScope> {
        if self.wide || variant > 1 {
            return None;
        }
        let (p0, p1, p2) = (self.pool[0].clone(), self.pool[1].clone(), self.pool[2].clone());
        let h = self.env.block.height;
        let t = self.env.block.time.nanos();
        let inst = if variant == 0 {
            format!("inst name=Token sym=TOK dec=6 bal=+{p0}:2,+{p1}:1 mint=+{p0} cap=4 mkt=-")
        } else {
            format!("inst name=Token sym=TOK dec=6 bal=+{p0}:2,+{p1}:0 mint=- cap=- mkt=-")
        };
        let mut al = vec![
            format!("exec {p0} transfer to=+{p1} amt=1"),
            format!("exec {p0} transfer to=+{p0} amt=1"),
            format!("exec {p1} transfer to=+{p0} amt=2"),
            format!("exec {p0} transfer to=+{p2} amt=0"),
            format!("exec {p0} burn amt=1"),
            format!("exec {p0} send contract=+{p2} amt=1 payload=00"),
            format!("exec {p0} increase_allowance spender=+{p1} amt=1 expires=-"),
            format!("exec {p0} increase_allowance spender=+{p1} amt=2 expires=h{}", h + 1),
            format!("exec {p0} increase_allowance spender=+{p1} amt=0 expires=h{}", h + 1),
            format!("exec {p0} decrease_allowance spender=+{p1} amt=1 expires=-"),
            format!("exec {p0} decrease_allowance spender=+{p1} amt=1 expires=h{h}"),
            format!("exec {p1} increase_allowance spender=+{p0} amt=1 expires=never"),
            format!("exec {p1} transfer_from owner=+{p0} to=+{p2} amt=1"),
            format!("exec {p1} transfer_from owner=+{p0} to=+{p1} amt=2"),
            format!("exec {p0} transfer_from owner=+{p1} to=+{p0} amt=1"),
            format!("exec {p1} burn_from owner=+{p0} amt=1"),
            format!("exec {p1} send_from owner=+{p0} contract=+{p2} amt=1 payload=01"),
            format!("env height={} time={}", h + 1, t + 5_000_000_000),
        ];
        if variant == 0 {
            al.push(format!("exec {p0} mint to=+{p1} amt=1"));
            al.push(format!("exec {p0} mint to=+{p0} amt=2"));
            al.push(format!("exec {p1} mint to=+{p1} amt=0"));
            al.push(format!("exec {p0} update_minter new=+{p1}"));
            al.push(format!("exec {p1} mint to=+{p1} amt=1"));
            al.push(format!("exec {p0} update_minter new=-"));
        } else {
            al.push(format!("exec {p0} mint to=+{p0} amt=1"));
            al.push(format!("exec {p0} update_minter new=+{p0}"));
        }
        Some(SmallScope { prefix: vec![inst], alphabet: al })
    }

    fn apply(&mut self, op: &str) -> Vec<String> {
        let a = Args::parse(op);
        let kind = a.pos.first().map(|s| s.as_str()).unwrap_or("");
        match kind {
            "env" => {
                self.env.block.height = a.u64("height");
                self.env.block.time = Timestamp::from_nanos(a.u64("time"));
                vec![]
            }
            "inst" => {
                let initial: Vec<Cw20Coin> = a
                    .list("bal")
                    .iter()
                    .map(|e| {
                        let mut p = e.rsplitn(2, ':');
                        let amt: u128 = p.next().unwrap().parse().unwrap_or(0);
                        let addr = addr_text(p.next().unwrap_or(""));
                        Cw20Coin { address: addr, amount: Uint128::new(amt) }
                    })
                    .collect();
                let mint = a.opt("mint").map(|m| MinterResponse { minter: addr_text(&m), cap: a.opt_u128("cap").map(Uint128::new) });
                let msg = InstantiateMsg {
                    name: a.str("name"),
                    symbol: a.str("sym"),
                    decimals: a.u64("dec") as u8,
                    initial_balances: initial,
                    mint,
                    marketing: a.opt("mkt").map(|_| InstantiateMarketingInfo {
                        project: a.opt("mproject").map(|t| text_dec(&t)),
                        description: a.opt("mdesc").map(|t| text_dec(&t)),
                        marketing: a.opt("maddr").map(|t| text_dec(&addr_text(&t))),
                        logo: a.opt("mlogo").and_then(|l| l.split_once(':').and_then(|(k, v)| parse_logo(k, v))),
                    }),
                };
                let info = MessageInfo { sender: self.pool[0].clone(), funds: vec![] };
                let r = self.tx(|d, e| instantiate(d.as_mut(), e, info, msg));
                if r.starts_with("> ok") {
                    self.inited = true;
                }
                vec![r.split(" msgs=").next().unwrap().to_string(), self.observe(op)]
            }
            "inst_legacy" => {
                // write a pre-0.14 layout directly (what an old code version left behind)
                let st = &mut self.deps.storage;
                cw2::set_contract_version(st, a.str("name"), a.str("ver")).unwrap();
                let mut total = 0u128;
                for e in a.list("bal") {
                    let mut p = e.rsplitn(2, ':');
                    let amt: u128 = p.next().unwrap().parse().unwrap_or(0);
                    let addr = Addr::unchecked(addr_text(p.next().unwrap_or("")));
                    BALANCES.save(st, &addr, &Uint128::new(amt)).unwrap();
                    total += amt;
                }
                let mint = a.opt("mint").map(|m| MinterData { minter: Addr::unchecked(addr_text(&m)), cap: a.opt_u128("cap").map(Uint128::new) });
                TOKEN_INFO
                    .save(
                        st,
                        &TokenInfo { name: "Legacy".into(), symbol: "LEG".into(), decimals: 6, total_supply: Uint128::new(total), mint },
                    )
                    .unwrap();
                for e in a.list("allow") {
                    // owner>spender:amt:exp
                    let (os, rest) = e.split_once(':').unwrap();
                    let (o, s) = os.split_once('>').unwrap();
                    let (amt, exp) = rest.split_once(':').unwrap();
                    ALLOWANCES
                        .save(
                            st,
                            (&Addr::unchecked(o), &Addr::unchecked(s)),
                            &AllowanceResponse { allowance: Uint128::new(amt.parse().unwrap()), expires: parse_exp(exp).unwrap() },
                        )
                        .unwrap();
                }
                self.inited = true;
                self.legacy = true;
                vec!["> ok".to_string(), self.observe(op)]
            }
            "migrate" => {
                let r = self.tx(|d, e| migrate(d.as_mut(), e, MigrateMsg {}));
                vec![r.split(" msgs=").next().unwrap().to_string(), self.observe(op)]
            }
            "exec" => {
                let snd = Addr::unchecked(a.pos.get(1).cloned().unwrap_or_default());
                let k = a.pos.get(2).map(|s| s.as_str()).unwrap_or("");
                let amt = Uint128::new(a.u128("amt"));
                let payload = Binary::from(a.str("payload").as_bytes());
                let exp = a.opt("expires").and_then(|e| parse_exp(&e));
                let msg = match k {
                    "transfer" => ExecuteMsg::Transfer { recipient: addr_text(&a.str("to")), amount: amt },
                    "burn" => ExecuteMsg::Burn { amount: amt },
                    "send" => ExecuteMsg::Send { contract: addr_text(&a.str("contract")), amount: amt, msg: payload },
                    "mint" => ExecuteMsg::Mint { recipient: addr_text(&a.str("to")), amount: amt },
                    "update_minter" => ExecuteMsg::UpdateMinter { new_minter: a.opt("new").map(|s| addr_text(&s)) },
                    "increase_allowance" => {
                        ExecuteMsg::IncreaseAllowance { spender: addr_text(&a.str("spender")), amount: amt, expires: exp }
                    }
                    "decrease_allowance" => {
                        ExecuteMsg::DecreaseAllowance { spender: addr_text(&a.str("spender")), amount: amt, expires: exp }
                    }
                    "transfer_from" => ExecuteMsg::TransferFrom {
                        owner: addr_text(&a.str("owner")),
                        recipient: addr_text(&a.str("to")),
                        amount: amt,
                    },
                    "burn_from" => ExecuteMsg::BurnFrom { owner: addr_text(&a.str("owner")), amount: amt },
                    "send_from" => ExecuteMsg::SendFrom {
                        owner: addr_text(&a.str("owner")),
                        contract: addr_text(&a.str("contract")),
                        amount: amt,
                        msg: payload,
                    },
                    "marketing" => ExecuteMsg::UpdateMarketing {
                        project: a.opt("project").map(|t| text_dec(&t)),
                        description: a.opt("description").map(|t| text_dec(&t)),
                        // `-` none, `empty` the empty string, else `+addr` / `-text`
                        marketing: a.opt("marketing").map(|t| if t == "empty" { String::new() } else { text_dec(&addr_text(&t)) }),
                    },
                    "logo" => {
                        let l = ["url", "svg", "png"].iter().find_map(|k| a.get(k).and_then(|v| parse_logo(k, v)));
                        match l {
                            Some(l) => ExecuteMsg::UploadLogo(l),
                            None => return vec!["> err badop=1".to_string(), self.observe(op)],
                        }
                    }
                    _ => return vec!["> err badop=1".to_string(), self.observe(op)],
                };
                let info = MessageInfo { sender: snd, funds: vec![] };
                let r = self.tx(|d, e| execute(d.as_mut(), e, info, msg));
                vec![r, self.observe(op)]
            }
            "query" => {
                let k = a.pos.get(1).map(|s| s.as_str()).unwrap_or("");
                let after = a.opt("after");
                let limit = a.opt_u32("limit");
                let res: Option<String> = match k {
                    "all_accounts" => self
                        .q::<AllAccountsResponse>(QueryMsg::AllAccounts { start_after: after, limit })
                        .map(|r| r.accounts.join(",")),
                    "all_allowances" => self
                        .q::<AllAllowancesResponse>(QueryMsg::AllAllowances {
                            owner: addr_text(&a.str("owner")),
                            start_after: after,
                            limit,
                        })
                        .map(|r| {
                            r.allowances
                                .iter()
                                .map(|x| format!("{}:{}:{}", x.spender, x.allowance, render_exp(&x.expires)))
                                .collect::<Vec<_>>()
                                .join(",")
                        }),
                    "all_spender_allowances" => self
                        .q::<AllSpenderAllowancesResponse>(QueryMsg::AllSpenderAllowances {
                            spender: addr_text(&a.str("spender")),
                            start_after: after,
                            limit,
                        })
                        .map(|r| {
                            r.allowances
                                .iter()
                                .map(|x| format!("{}:{}:{}", x.owner, x.allowance, render_exp(&x.expires)))
                                .collect::<Vec<_>>()
                                .join(",")
                        }),
                    "balance" => self
                        .q::<BalanceResponse>(QueryMsg::Balance { address: addr_text(&a.str("address")) })
                        .map(|r| r.balance.to_string()),
                    "marketing_info" => self.q::<MarketingInfoResponse>(QueryMsg::MarketingInfo {}).map(|m| render_minfo(&m)),
                    "download_logo" => self.q::<DownloadLogoResponse>(QueryMsg::DownloadLogo {}).map(|d| render_download(&d)),
                    _ => None,
                };
                match res {
                    Some(r) => vec![format!("> ok result={r}")],
                    None => vec!["> err".to_string()],
                }
            }
            _ => vec![],
        }
    }
}
