//! Scenario `cw4stake`: the real `cw4_stake` entry points in app mode (cw-multi-test 2.0.0) with a real
//! bank, a real cw20-base stake token, a foreign cw20 token and accepting / refusing hook contracts.
//!
//! The stake contract's `execute` is registered through a *recording wrapper*: it calls the real entry
//! point, pushes the canonical text of the handler's `Response.messages` into a thread-local log and
//! returns the result unchanged (a panic of the handler is turned into an `Err`, both abort the tx).
// SCENARIO cw4stake crate::scen_cw4stake::StakeScen::new()
// SCENARIO cw4stakewide crate::scen_cw4stake::StakeScen::new_wide()
//
// `cw4stakewide` (C20): 36 actors with ordinary balances, small `min_bond` / `tokens_per_weight`, a generator that
// makes not-yet-members bond above `min_bond` and requests pages explicitly, so ListMembers exceeds the default
// and the maximum page size.  Header field `wide=1`: the at-height probes (`hist`) use only the 3 most recent
// recorded heights (plus start-1, current, current+1) — the Lean driver does the same.
use crate::common::*;
use cosmwasm_schema::cw_serde;
use cosmwasm_std::{
    coin, from_json, to_json_binary, Addr, BankMsg, Binary, BlockInfo, Coin, CosmosMsg, Deps, DepsMut, Empty, Env,
    MessageInfo, ReplyOn, Response, StdError, StdResult, Timestamp, Uint128, WasmMsg,
};
use cw20::{BalanceResponse, Cw20Coin, Cw20ExecuteMsg, Cw20ReceiveMsg, Denom};
use cw4::{MemberChangedHookMsg, MemberListResponse, MemberResponse, TotalWeightResponse};
use cw4_stake::msg::{ExecuteMsg, InstantiateMsg, QueryMsg, StakedResponse};
use cw4_stake::ContractError;
use cw_controllers::{AdminResponse, ClaimsResponse, HooksResponse};
use cw_multi_test::{App, AppBuilder, ContractWrapper, Executor};
use std::cell::RefCell;

pub const STAKE_DENOM: &str = "ustake";
// a different bank denom that differs from the stake denom only by case
pub const OTHER_DENOM: &str = "USTAKE";
const START_HEIGHT: u64 = 12345;
const START_TIME: u64 = 1571797419879305533;
const TWO64: u128 = 1u128 << 64;

thread_local! {
    /// canonical message text of every successful run of the stake handler inside the current tx
    static LOG: RefCell<Vec<String>> = RefCell::new(vec![]);
    /// raw `WasmMsg::Execute.msg` bytes (hex) of the hook messages / cw20 transfers of the handler calls of one tx
    static HOOKRAW: RefCell<Vec<String>> = RefCell::new(vec![]);
    static XFERRAW: RefCell<Vec<String>> = RefCell::new(vec![]);
}

#[cw_serde]
enum HookExec {
    MemberChangedHook(MemberChangedHookMsg),
}

fn hook_ok_exec(_d: DepsMut, _e: Env, _i: MessageInfo, _m: HookExec) -> StdResult<Response> {
    Ok(Response::new())
}
fn hook_bad_exec(_d: DepsMut, _e: Env, _i: MessageInfo, _m: HookExec) -> StdResult<Response> {
    Err(StdError::generic_err("hook refuses"))
}
fn hook_inst(_d: DepsMut, _e: Env, _i: MessageInfo, _m: Empty) -> StdResult<Response> {
    Ok(Response::new())
}
fn hook_query(_d: Deps, _e: Env, _m: Empty) -> StdResult<Binary> {
    to_json_binary(&Empty {})
}

fn opt_u64(o: &Option<u64>) -> String {
    match o {
        Some(w) => w.to_string(),
        None => "-".to_string(),
    }
}

/// Canonical text of the messages of a handler response.
fn render_msgs(res: &Response) -> String {
    let mut v = vec![];
    for m in &res.messages {
        let mut s = match &m.msg {
            CosmosMsg::Bank(BankMsg::Send { to_address, amount }) => format!(
                "bank/{}/{}",
                to_address,
                amount.iter().map(|c| format!("{}{}", c.amount, c.denom)).collect::<Vec<_>>().join("+")
            ),
            CosmosMsg::Wasm(WasmMsg::Execute { contract_addr, msg, funds }) => {
                let f = if funds.is_empty() { "" } else { "/funds" };
                if let Ok(Cw20ExecuteMsg::Transfer { recipient, amount }) = from_json::<Cw20ExecuteMsg>(msg) {
                    format!("cw20/{contract_addr}/transfer/{recipient}/{amount}{f}")
                } else if let Ok(HookExec::MemberChangedHook(h)) = from_json::<HookExec>(msg) {
                    let d: Vec<String> =
                        h.diffs.iter().map(|d| format!("{}:{}:{}", d.key, opt_u64(&d.old), opt_u64(&d.new))).collect();
                    format!("hook/{contract_addr}/{}{f}", d.join("+"))
                } else {
                    "wasm?".to_string()
                }
            }
            _ => "other".to_string(),
        };
        if m.reply_on != ReplyOn::Never || m.gas_limit.is_some() {
            s.push_str("/reply");
        }
        v.push(s);
    }
    v.join(";")
}

/// Records the raw bytes of every `WasmMsg::Execute.msg` of a handler response: member-changed hooks in `HOOKRAW`,
/// everything else (the cw20 `Transfer` of a claim) in `XFERRAW`; compared byte for byte with the model's
/// `MsgWire.encodeHook` / `MsgWire.encodeTransfer`.
fn record_raw(res: &Response) {
    for m in &res.messages {
        if let CosmosMsg::Wasm(WasmMsg::Execute { msg, .. }) = &m.msg {
            if from_json::<HookExec>(msg).is_ok() {
                HOOKRAW.with(|l| l.borrow_mut().push(hex(msg.as_slice())));
            } else {
                XFERRAW.with(|l| l.borrow_mut().push(hex(msg.as_slice())));
            }
        }
    }
}

/// The recording wrapper around the real `execute`.
fn rec_execute(deps: DepsMut, env: Env, info: MessageInfo, msg: ExecuteMsg) -> Result<Response, ContractError> {
    let r = std::panic::catch_unwind(std::panic::AssertUnwindSafe(|| cw4_stake::contract::execute(deps, env, info, msg)));
    match r {
        Ok(Ok(res)) => {
            LOG.with(|l| l.borrow_mut().push(render_msgs(&res)));
            record_raw(&res);
            Ok(res)
        }
        Ok(Err(e)) => Err(e),
        Err(_) => Err(ContractError::Std(StdError::generic_err("panic in handler"))),
    }
}

#[derive(Clone)]
struct Cfg {
    native: bool,
    tpw: u128,
    min_bond: u128,
    period: cw_utils::Duration,
}

pub struct StakeScen {
    app: App,
    pool: Vec<Addr>,
    init_bal: Vec<u128>,
    token: Addr,
    ftoken: Addr,
    hooks_ok: Vec<Addr>,
    hook_bad: Addr,
    stake_code: u64,
    stake: Option<Addr>,
    cfg: Option<Cfg>,
    /// heights at which a transaction succeeded (probe heights of the at-height queries)
    heights: Vec<u64>,
    seed: u64,
    /// trace number of the header (generation stories are chosen by it)
    trace: u64,
    /// `cw4stakewide`: 36 actors (C20)
    wide: bool,
    /// set by `small_scope`: the balances every following `start` uses instead of drawing them per trace (the
    /// enumeration prunes all continuations of a failed op, which is only sound when every trace runs in the same world)
    small_bal: Option<Vec<u128>>,
}

impl StakeScen {
    pub fn new() -> Self {
        StakeScen {
            app: App::default(),
            pool: vec![],
            init_bal: vec![],
            token: Addr::unchecked(""),
            ftoken: Addr::unchecked(""),
            hooks_ok: vec![],
            hook_bad: Addr::unchecked(""),
            stake_code: 0,
            stake: None,
            cfg: None,
            heights: vec![],
            seed: 0,
            trace: 0,
            wide: false,
            small_bal: None,
        }
    }

    pub fn new_wide() -> Self {
        let mut s = Self::new();
        s.wide = true;
        s
    }

    /// Build the chain: bank balances, token contracts, hook contracts; the stake contract itself is
    /// instantiated by the `inst` op.  Contract addresses are deterministic (instantiation order).
    fn setup(&mut self, pool: Vec<Addr>, bal: Vec<u128>) {
        let p2 = pool.clone();
        let b2 = bal.clone();
        let mut app = AppBuilder::new().build(|router, _api, storage| {
            for (a, b) in p2.iter().zip(b2.iter()) {
                let mut c: Vec<Coin> = vec![coin(1000, OTHER_DENOM)];
                if *b > 0 {
                    c.push(coin(*b, STAKE_DENOM));
                }
                router.bank.init_balance(storage, a, c).unwrap();
            }
        });
        app.set_block(BlockInfo {
            height: START_HEIGHT,
            time: Timestamp::from_nanos(START_TIME),
            chain_id: "cosmos-testnet-14002".to_string(),
        });
        let creator = pool[0].clone();
        let cw20_code = app.store_code(Box::new(ContractWrapper::new(
            cw20_base::contract::execute,
            cw20_base::contract::instantiate,
            cw20_base::contract::query,
        )));
        let ok_code = app.store_code(Box::new(ContractWrapper::new(hook_ok_exec, hook_inst, hook_query)));
        let bad_code = app.store_code(Box::new(ContractWrapper::new(hook_bad_exec, hook_inst, hook_query)));
        self.stake_code =
            app.store_code(Box::new(ContractWrapper::new(rec_execute, cw4_stake::contract::instantiate, cw4_stake::contract::query)));
        let mk_token = |app: &mut App, name: &str, bals: Vec<Cw20Coin>| -> Addr {
            app.instantiate_contract(
                cw20_code,
                creator.clone(),
                &cw20_base::msg::InstantiateMsg {
                    name: name.to_string(),
                    symbol: "STK".to_string(),
                    decimals: 6,
                    initial_balances: bals,
                    mint: None,
                    marketing: None,
                },
                &[],
                name,
                None,
            )
            .unwrap()
        };
        self.token = mk_token(
            &mut app,
            "StakeToken",
            pool.iter().zip(bal.iter()).map(|(a, b)| Cw20Coin { address: a.to_string(), amount: Uint128::new(*b) }).collect(),
        );
        self.ftoken = mk_token(
            &mut app,
            "ForeignToken",
            pool.iter().map(|a| Cw20Coin { address: a.to_string(), amount: Uint128::new(1000) }).collect(),
        );
        self.hooks_ok = (0..2)
            .map(|i| app.instantiate_contract(ok_code, creator.clone(), &Empty {}, &[], format!("hook{i}"), None).unwrap())
            .collect();
        self.hook_bad = app.instantiate_contract(bad_code, creator.clone(), &Empty {}, &[], "hookbad", None).unwrap();
        // native coins whose denomination is spelled like the stake token's contract address (seeded change C10-20):
        // a cw20-denominated contract must not take them for the token
        for a in pool.iter() {
            app.sudo(cw_multi_test::SudoMsg::Bank(cw_multi_test::BankSudo::Mint {
                to_address: a.to_string(),
                amount: vec![coin(60, self.token.as_str())],
            }))
            .unwrap();
        }
        self.app = app;
        self.pool = pool;
        self.init_bal = bal;
        self.stake = None;
        self.cfg = None;
        self.heights = vec![];
    }

    fn header(&self, seed: u64, trace: u64) -> String {
        format!(
            "scenario {} seed={} trace={} height={} time={} sdenom={} pool={} bal={} token={} ftoken={} hooks_ok={} hook_bad={}",
            if self.wide { "cw4stakewide wide=1" } else { "cw4stake" },
            seed,
            trace,
            START_HEIGHT,
            START_TIME,
            STAKE_DENOM,
            self.pool.iter().map(|a| a.to_string()).collect::<Vec<_>>().join(","),
            self.pool.iter().zip(self.init_bal.iter()).map(|(a, b)| format!("{a}:{b}")).collect::<Vec<_>>().join(","),
            self.token,
            self.ftoken,
            self.hooks_ok.iter().map(|a| a.to_string()).collect::<Vec<_>>().join(","),
            self.hook_bad
        )
    }

    // ---------------------------------------------------------------- queries

    fn q<T: serde::de::DeserializeOwned>(&self, msg: &QueryMsg) -> Option<T> {
        let st = self.stake.as_ref()?;
        catch(|| self.app.wrap().query_wasm_smart::<T>(st.clone(), msg)).and_then(|r| r.ok())
    }
    fn staked(&self, a: &Addr) -> u128 {
        self.q::<StakedResponse>(&QueryMsg::Staked { address: a.to_string() }).map(|r| r.stake.u128()).unwrap_or(0)
    }
    fn claims(&self, a: &Addr) -> Vec<(u128, cw_utils::Expiration)> {
        self.q::<ClaimsResponse>(&QueryMsg::Claims { address: a.to_string() })
            .map(|r| r.claims.iter().map(|c| (c.amount.u128(), c.release_at)).collect())
            .unwrap_or_default()
    }
    fn member(&self, a: &Addr, at: Option<u64>) -> Option<u64> {
        self.q::<MemberResponse>(&QueryMsg::Member { addr: a.to_string(), at_height: at }).and_then(|r| r.weight)
    }
    fn admin(&self) -> Option<String> {
        self.q::<AdminResponse>(&QueryMsg::Admin {}).and_then(|r| r.admin)
    }
    fn hooks(&self) -> Vec<String> {
        self.q::<HooksResponse>(&QueryMsg::Hooks {}).map(|r| r.hooks).unwrap_or_default()
    }
    fn native(&self) -> bool {
        self.cfg.as_ref().map(|c| c.native).unwrap_or(true)
    }
    /// real balance of `a` in the configured stake token
    fn bal(&self, a: &Addr) -> u128 {
        if self.native() {
            self.app.wrap().query_balance(a.to_string(), STAKE_DENOM).map(|c| c.amount.u128()).unwrap_or(0)
        } else {
            self.cw20_bal(&self.token, a)
        }
    }
    fn cw20_bal(&self, token: &Addr, a: &Addr) -> u128 {
        self.app
            .wrap()
            .query_wasm_smart::<BalanceResponse>(token.clone(), &cw20::Cw20QueryMsg::Balance { address: a.to_string() })
            .map(|b| b.balance.u128())
            .unwrap_or(0)
    }

    fn list_members(&self, after: Option<String>, limit: Option<u32>) -> Option<Vec<String>> {
        self.q::<MemberListResponse>(&QueryMsg::ListMembers { start_after: after, limit })
            .map(|r| r.members.iter().map(|m| format!("{}:{}", m.addr, m.weight)).collect())
    }

    fn probe_heights(&self) -> Vec<u64> {
        let cur = self.app.block_info().height;
        // wide: only the 3 most recent recorded heights
        let mut hs = if self.wide { self.heights[self.heights.len().saturating_sub(3)..].to_vec() } else { self.heights.clone() };
        hs.push(START_HEIGHT - 1);
        hs.push(0); // height 0 is a height like any other, not a synonym of "latest"
        hs.push(cur);
        hs.push(cur + 1);
        hs.sort();
        hs.dedup();
        hs
    }

    fn observe(&self, salt: &str) -> String {
        let st = match &self.stake {
            Some(s) => s.clone(),
            None => return "obs uninit=1".to_string(),
        };
        let mut rng = Rng::new(hash_str(salt) ^ self.seed);
        let limit = match rng.below(8) {
            0 => None,
            1 => Some(1),
            2 => Some(2),
            3 => Some(3),
            4 => Some(30),
            5 => Some(31),
            6 => Some(1000),
            _ => Some(4),
        };
        let denom = match self.q::<StakedResponse>(&QueryMsg::Staked { address: self.pool[0].to_string() }).map(|r| r.denom) {
            Some(Denom::Native(d)) => format!("native:{d}"),
            Some(Denom::Cw20(a)) => format!("cw20:{a}"),
            None => "?".to_string(),
        };
        let mut stake = vec![];
        let mut claims = vec![];
        let mut member = vec![];
        let mut hist = vec![];
        let mut rawmember = vec![];
        let mut bal = vec![];
        let hs = self.probe_heights();
        for a in &self.pool {
            stake.push(format!("{}:{}", a, self.staked(a)));
            let cl = self.claims(a);
            if !cl.is_empty() {
                claims.push(format!(
                    "{}:{}",
                    a,
                    cl.iter().map(|(amt, e)| format!("{}@{}", amt, render_exp(e))).collect::<Vec<_>>().join("+")
                ));
            }
            member.push(format!("{}:{}", a, opt_u64(&self.member(a, None))));
            for h in &hs {
                hist.push(format!("{}@{}:{}", a, h, opt_u64(&self.member(a, Some(*h)))));
            }
            let raw = self.app.wrap().query_wasm_raw(st.clone(), cw4::member_key(a.as_str())).ok().flatten();
            let raw: Option<u64> = match raw {
                Some(b) if !b.is_empty() => from_json::<u64>(&b).ok(),
                _ => None,
            };
            rawmember.push(format!("{}:{}", a, opt_u64(&raw)));
            bal.push(format!("{}:{}", a, self.bal(a)));
        }
        // complete member listing by paging with the last key as cursor
        let mut members: Vec<String> = vec![];
        let mut cursor: Option<String> = None;
        for _ in 0..1000 {
            match self.list_members(cursor.clone(), limit) {
                Some(p) if !p.is_empty() => {
                    let next = Some(p.last().unwrap().split(':').next().unwrap().to_string());
                    members.extend(p);
                    if next == cursor {
                        break; // no progress (a defect in the code under test): do not walk forever
                    }
                    cursor = next;
                }
                _ => break,
            }
        }
        let total = self.q::<TotalWeightResponse>(&QueryMsg::TotalWeight {}).map(|t| t.weight.to_string()).unwrap_or("?".into());
        let rawtotal = match self.app.wrap().query_wasm_raw(st.clone(), cw4::TOTAL_KEY.as_bytes().to_vec()).ok().flatten() {
            Some(b) if !b.is_empty() => from_json::<u64>(&b).map(|t| t.to_string()).unwrap_or("?".into()),
            _ => "-".to_string(),
        };
        // foreign assets held by the contract (never accepted as stake)
        let fheld = self.app.wrap().query_balance(st.to_string(), OTHER_DENOM).map(|c| c.amount.u128()).unwrap_or(0)
            + self.cw20_bal(&self.ftoken, &st)
            + if self.native() {
                self.cw20_bal(&self.token, &st)
            } else {
                self.app.wrap().query_balance(st.to_string(), STAKE_DENOM).map(|c| c.amount.u128()).unwrap_or(0)
            };
        // what no query shows, read from a raw dump of the contract's storage: the stored configuration,
        // the MEMBERS changelog (by address, then height); plus the recorded heights.  With them the
        // observation determines the whole state (the Lean driver can rebuild its model after a disagreement).
        let mut raw = MemStore::default();
        for (k, v) in self.app.dump_wasm_raw(&st) {
            raw.data.insert(k, v);
        }
        let cfg = match cw4_stake::state::CONFIG.may_load(&raw) {
            Ok(Some(c)) => format!(
                "{}/{}/{}",
                c.tokens_per_weight,
                c.min_bond,
                match c.unbonding_period {
                    cw_utils::Duration::Height(h) => format!("h{h}"),
                    cw_utils::Duration::Time(t) => format!("t{t}"),
                }
            ),
            _ => "?".to_string(),
        };
        let mut mlog: Vec<(String, u64, Option<u64>)> = cw4_stake::state::MEMBERS
            .changelog()
            .range(&raw, None, None, cosmwasm_std::Order::Ascending)
            .filter_map(|r| r.ok())
            .map(|((a, h), cs)| (a.to_string(), h, cs.old))
            .collect();
        mlog.sort();
        let mlog: Vec<String> = mlog.iter().map(|(a, h, o)| format!("{}@{}:{}", a, h, opt_u64(o))).collect();
        let mut hrec = self.heights.clone();
        hrec.sort();
        let hrec: Vec<String> = hrec.iter().map(|h| h.to_string()).collect();
        // C20 self-check of the listing
        let pool_s: Vec<String> = self.pool.iter().map(|a| a.to_string()).collect();
        let pagediff = paging_audit_cursors("list_members", &|c, l| self.list_members(c, l), &pool_s).unwrap_or_default();
        // the byte layout itself (see `scen_cw4group::render_raw_keys`): published keys, the keys cw-storage-plus
        // uses, and a dump of the contract's storage (`App::dump_wasm_raw`)
        let probes: Vec<&Addr> = self.pool.iter().take(2).collect();
        let member_keys: Vec<Vec<u8>> = probes.iter().map(|a| cw4::member_key(a.as_str())).collect();
        let primary_keys: Vec<Vec<u8>> = probes.iter().map(|a| cw4_stake::state::MEMBERS.key(*a).to_vec()).collect();
        let (rawkeys, rawextra) = crate::scen_cw4group::render_raw_keys(&raw.data, &member_keys, &primary_keys);
        format!(
            "obs pagediff={} denom={} stake={} claims={} member={} hist={} members={} total={} admin={} hooks={} rawmember={} rawtotal={} held={} bal={} fheld={} cfg={} hs={} mlog={} rawkeys={} rawextra={}",
            pagediff,
            denom,
            stake.join(","),
            claims.join(","),
            member.join(","),
            hist.join(","),
            members.join(","),
            total,
            opt_str(&self.admin()),
            self.hooks().join(","),
            rawmember.join(","),
            rawtotal,
            self.bal(&st),
            bal.join(","),
            fheld,
            cfg,
            hrec.join(","),
            mlog.join(","),
            rawkeys,
            rawextra
        )
    }

    // ---------------------------------------------------------------- transactions

    /// One atomic transaction (cw-multi-test rolls everything back on error).
    fn tx(&mut self, sender: &Addr, msg: CosmosMsg) -> String {
        LOG.with(|l| l.borrow_mut().clear());
        HOOKRAW.with(|l| l.borrow_mut().clear());
        XFERRAW.with(|l| l.borrow_mut().clear());
        let h = self.app.block_info().height;
        let app = &mut self.app;
        let r = catch(|| app.execute(sender.clone(), msg));
        match r {
            Some(Ok(_)) => {
                if !self.heights.contains(&h) {
                    self.heights.push(h);
                }
                let msgs = LOG.with(|l| l.borrow().join("||"));
                let hookraw = HOOKRAW.with(|l| l.borrow().join("+"));
                let xferraw = XFERRAW.with(|l| l.borrow().join("+"));
                format!("> ok msgs={msgs} hookraw={hookraw} xferraw={xferraw}")
            }
            Some(Err(_)) => "> err".to_string(),
            None => "> err panic=1".to_string(),
        }
    }

    fn stake_msg(&self, msg: &ExecuteMsg, funds: Vec<Coin>) -> CosmosMsg {
        CosmosMsg::Wasm(WasmMsg::Execute {
            contract_addr: self.stake.as_ref().map(|s| s.to_string()).unwrap_or_default(),
            msg: to_json_binary(msg).unwrap(),
            funds,
        })
    }

    // ---------------------------------------------------------------- generators

    fn gen_addr(&self, rng: &mut Rng) -> String {
        if rng.chance(1, 25) {
            format!("-{}", invalid_addr(rng, &self.pool))
        } else {
            format!("+{}", rng.pick(&self.pool))
        }
    }

    fn gen_inst(&self, rng: &mut Rng) -> String {
        if self.wide {
            let denom = if rng.chance(3, 5) { "native" } else { "cw20" };
            let tpw = *rng.pick(&[1u128, 1, 2, 5, 10]);
            let min_bond = *rng.pick(&[0u128, 1, 10, 100, 100]);
            let unbond = *rng.pick(&["h1", "h2", "h3", "t5", "t20"]);
            let admin = if rng.chance(1, 10) { "-".to_string() } else { format!("+{}", rng.pick(&self.pool)) };
            return format!("inst denom={denom} tpw={tpw} min_bond={min_bond} unbond={unbond} admin={admin}");
        }
        let denom = if rng.chance(3, 5) { "native".to_string() } else { "cw20".to_string() };
        let tpw: u128 = match rng.below(20) {
            0..=6 => 1,
            7..=9 => 2 + rng.below(9) as u128,
            10..=12 => 1000,
            13 => 1_000_000_000_000_000_000,
            14 => TWO64,
            15 => 0,
            16 => 0,
            _ => 1 + rng.below(50) as u128,
        };
        let min_bond: u128 = match rng.below(10) {
            0 | 1 => 0,
            2 => 1,
            3 | 4 => 1 + rng.below(100) as u128,
            5 | 6 => 5000,
            7 => TWO64 << 6,
            _ => tpw.saturating_mul(1 + rng.below(5) as u128),
        };
        let unbond = match rng.below(12) {
            0 => "h0".to_string(),
            1 | 2 => "h1".to_string(),
            3 | 4 => format!("h{}", 2 + rng.below(4)),
            5 => "t0".to_string(),
            6 | 7 => format!("t{}", 1 + rng.below(10)),
            8 | 9 => "t20".to_string(),
            10 if rng.chance(1, 3) => if rng.chance(1, 2) { format!("h{}", u64::MAX) } else { format!("t{}", u64::MAX / 1_000_000_000) },
            _ => "h3".to_string(),
        };
        let admin = match rng.below(20) {
            0 | 1 => "-".to_string(),
            2 => format!("-{}", invalid_addr(rng, &self.pool)),
            _ => format!("+{}", rng.pick(&self.pool)),
        };
        format!("inst denom={denom} tpw={tpw} min_bond={min_bond} unbond={unbond} admin={admin}")
    }

    fn gen_bond_amount(&self, rng: &mut Rng, snd: &Addr) -> u128 {
        let cfg = self.cfg.clone().unwrap();
        let b = self.bal(snd);
        let s = self.staked(snd);
        let t = cfg.tpw;
        let m = cfg.min_bond.max(1);
        let cand: u128 = match rng.below(16) {
            0 => 0,
            1 => 1,
            2 => m.saturating_sub(s),
            3 => m.saturating_sub(s).saturating_sub(1),
            4 => t,
            5 => t.saturating_mul(1 + rng.below(6) as u128),
            6 => b,
            7 => b.saturating_add(1),
            8 => b / 2,
            9 => TWO64 + 5,
            10 => t.saturating_mul(TWO64).saturating_sub(s),
            11 => t.saturating_mul(TWO64).saturating_sub(s).saturating_sub(1),
            12 => rng.below(20000) as u128,
            13 => m.saturating_add(rng.below(50) as u128),
            _ => {
                if b > 0 {
                    rng.u128() % b
                } else {
                    rng.below(10) as u128
                }
            }
        };
        // mostly affordable amounts whose weight still fits u64
        let room = if t == 0 { u128::MAX } else { t.saturating_mul(TWO64).saturating_sub(1).saturating_sub(s) };
        let cap = b.min(room);
        if cand > cap && rng.chance(5, 6) && cap > 0 {
            match rng.below(4) {
                0 => cap,
                1 => 1 + rng.u128() % cap,
                2 => m.saturating_add(rng.below(500) as u128).min(cap),
                _ => (rng.below(5000) as u128).min(cap),
            }
        } else {
            cand
        }
    }

    fn gen_unbond_amount(&self, rng: &mut Rng, snd: &Addr) -> u128 {
        let cfg = self.cfg.clone().unwrap();
        let s = self.staked(snd);
        let m = cfg.min_bond.max(1);
        match rng.below(12) {
            0 if rng.chance(1, 2) => 0,
            1 => 1.min(s),
            2 => s,
            3 => s.saturating_add(1),
            4 => s.saturating_sub(1),
            5 => s / 2,
            6 => s.saturating_sub(m),
            7 => s.saturating_sub(m).saturating_add(1),
            8 => cfg.tpw.min(s),
            9 => rng.below(1000) as u128,
            _ => {
                if s > 0 {
                    rng.u128() % s.saturating_add(1).max(1)
                } else {
                    rng.below(3) as u128
                }
            }
        }
    }

    /// `cw4stakewide`: make a not-yet-member bond at or above `min_bond`, or request a page explicitly.
    fn gen_wide_op(&self, rng: &mut Rng) -> Option<String> {
        let cfg = self.cfg.clone()?;
        if rng.chance(3, 10) {
            let lim = *rng.pick(&["-", "0", "1", "9", "10", "11", "29", "30", "31", "32", "100"]);
            let members: Vec<String> = self.pool.iter().filter(|a| self.member(a, None).is_some()).map(|a| a.to_string()).collect();
            let after = match rng.below(8) {
                0 | 1 => "-".to_string(),
                2 => format!("+{}", rng.pick(&self.pool)),
                3 => "-cosmwasm1m".to_string(),
                4 if rng.chance(1, 2) => format!("-{}", invalid_addr(rng, &self.pool)),
                _ if !members.is_empty() => format!("+{}", rng.pick(&members)),
                _ => "-".to_string(),
            };
            return Some(format!("query list_members after={after} limit={lim}"));
        }
        let need = cfg.min_bond.max(cfg.tpw).max(1);
        let cands: Vec<Addr> =
            self.pool.iter().filter(|a| self.member(a, None).is_none() && self.bal(a) >= need).cloned().collect();
        if cands.is_empty() {
            return None;
        }
        let snd = rng.pick(&cands).clone();
        let already = self.staked(&snd);
        let amt = (need.saturating_sub(already) + rng.below(400) as u128).min(self.bal(&snd)).max(1);
        Some(if cfg.native {
            format!("exec {snd} bond funds={STAKE_DENOM}:{amt}")
        } else {
            format!("send {snd} token={} amt={amt} msg=bond", self.token)
        })
    }

    fn gen_env(&self, rng: &mut Rng) -> String {
        let b = self.app.block_info();
        let (ph, pt) = match self.cfg.as_ref().map(|c| c.period) {
            Some(cw_utils::Duration::Height(h)) => (h.min(1000), 5 * h.min(1000)),
            Some(cw_utils::Duration::Time(t)) => ((t.min(5000) / 5).max(1), t.min(5000)),
            None => (1, 5),
        };
        let (dh, dt): (u64, u64) = match rng.below(8) {
            0 | 1 | 2 => (1, 5),
            3 => (1, 0),
            4 => (2, 11),
            5 => (ph, pt),
            6 => (ph + 1, pt + 1),
            _ => (ph.saturating_sub(1).max(1), pt.saturating_sub(1)),
        };
        format!("env height={} time={}", b.height + dh, b.time.nanos() + dt * 1_000_000_000)
    }
}

impl Scenario for StakeScen {
    fn start(&mut self, seed: u64, trace: u64) -> String {
        let api = cosmwasm_std::testing::MockApi::default();
        let p = pool(&api, if self.wide { 36 } else { 5 });
        // balances derived from (seed, trace): huge, around 2^64, ordinary, tiny, zero; total < 2^128
        let mut rng = Rng::new(seed ^ trace.wrapping_mul(0xA24BAED4963EE407) ^ 0x5bd1e995);
        let wide = self.wide;
        let bal: Vec<u128> = (0..p.len())
            .map(|_| match if wide && rng.chance(5, 6) { 3 + rng.below(3) } else { rng.below(8) } {
                0 => (1u128 << 100) + rng.below(1_000_000) as u128,
                1 => TWO64 + 5 + rng.below(100) as u128,
                2 => (TWO64 << 8) + rng.below(1000) as u128,
                3 => 1_000_000,
                4 => 20_000 + rng.below(10_000) as u128,
                5 => 100 + rng.below(5000) as u128,
                6 => rng.u128() >> 4,
                _ => if rng.chance(1, 2) { 0 } else { 50_000 },
            })
            .collect();
        let bal = match &self.small_bal {
            Some(b) => (0..p.len()).map(|i| b.get(i).cloned().unwrap_or(0)).collect(),
            None => bal,
        };
        self.setup(p, bal);
        self.seed = seed;
        self.trace = trace;
        self.header(seed, trace)
    }

    fn reset(&mut self, header: &str) {
        let a = Args::parse(header);
        let pool: Vec<Addr> = a.list("pool").into_iter().map(Addr::unchecked).collect();
        let bal: Vec<u128> = pool
            .iter()
            .map(|p| {
                a.list("bal")
                    .iter()
                    .find_map(|e| e.rsplit_once(':').filter(|(k, _)| *k == p.as_str()).and_then(|(_, v)| v.parse().ok()))
                    .unwrap_or(0)
            })
            .collect();
        self.setup(pool, bal);
        self.seed = a.u64("seed");
        self.trace = a.opt("trace").and_then(|t| t.parse().ok()).unwrap_or(0);
        self.wide = a.get("wide") == Some("1");
    }

    fn gen_op(&mut self, rng: &mut Rng, _step: usize) -> String {
        if self.stake.is_none() {
            return self.gen_inst(rng);
        }
        let cfg = self.cfg.clone().unwrap();
        if self.wide && rng.chance(7, 10) {
            if let Some(op) = self.gen_wide_op(rng) {
                return op;
            }
        }
        // "drip" traces (one in six, by seed): one staker piles up many small open claims (more than any cap or page
        // a claims vector might have), then unbonds a lot and claims as soon as the OLDEST small claims have matured
        if self.trace % 6 == 1 {
            let hoarder = self.pool[0].clone();
            let open = self.claims(&hoarder).len();
            let st = self.staked(&hoarder);
            let r = rng.below(10);
            if st <= 40 && r < 8 && self.bal(&hoarder) >= 500 {
                // first a comfortable stake
                return if cfg.native {
                    format!("exec {hoarder} bond funds={STAKE_DENOM}:500")
                } else {
                    format!("send {hoarder} token={} amt=500 msg=bond", self.token)
                };
            }
            if st > 40 && open < 14 && r < 7 {
                return format!("exec {hoarder} unbond amt={}", 1 + rng.below(3));
            }
            if st > 40 && open >= 11 && r < 9 {
                return match rng.below(3) {
                    0 => format!("exec {hoarder} unbond amt={}", st / 2),
                    1 => self.gen_env(rng),
                    _ => format!("exec {hoarder} claim"),
                };
            }
        }
        let r = rng.below(100);
        if r < 14 {
            return self.gen_env(rng);
        }
        if r < 20 {
            let lim = match rng.below(8) {
                0 => "-".to_string(),
                1 => "0".to_string(),
                2 => "31".to_string(),
                3 => "30".to_string(),
                4 => "4000000000".to_string(),
                _ => rng.below(4).to_string(),
            };
            return match rng.below(3) {
                0 => {
                    let after = match rng.below(5) {
                        0 | 1 => "-".to_string(),
                        2 => format!("-{}", invalid_addr(rng, &self.pool)),
                        _ => format!("+{}", rng.pick(&self.pool)),
                    };
                    format!("query list_members after={after} limit={lim}")
                }
                _ => {
                    let hs = self.probe_heights();
                    let at = if rng.chance(1, 4) { "-".to_string() } else { rng.pick(&hs).to_string() };
                    format!("query member addr={} at={at}", self.gen_addr(rng))
                }
            };
        }
        let snd = rng.pick(&self.pool).clone();
        if r < 46 {
            // bond through the configured path (mostly), mostly by actors who own tokens
            let rich: Vec<Addr> = self.pool.iter().filter(|a| self.bal(a) > 0).cloned().collect();
            let snd = if !rich.is_empty() && rng.chance(5, 6) { rng.pick(&rich).clone() } else { snd };
            let amt = self.gen_bond_amount(rng, &snd);
            let right_path = rng.chance(9, 10);
            return if cfg.native == right_path {
                match rng.below(14) {
                    0 => format!("exec {snd} bond funds=-"),
                    1 => format!("exec {snd} bond funds={OTHER_DENOM}:{}", 1 + rng.below(1000)),
                    2 => format!("exec {snd} bond funds={STAKE_DENOM}:{amt},{OTHER_DENOM}:{}", 1 + rng.below(5)),
                    _ => format!("exec {snd} bond funds={STAKE_DENOM}:{amt}"),
                }
            } else {
                let token = if rng.chance(7, 8) { &self.token } else { &self.ftoken };
                let amt = if *token == self.ftoken { rng.below(1100) as u128 } else { amt };
                let msg = if rng.chance(9, 10) { "bond" } else { "junk" };
                format!("send {snd} token={token} amt={amt} msg={msg}")
            };
        }
        if r < 50 {
            // attempts with foreign assets / forged receive
            return match rng.below(3) {
                0 => format!("send {snd} token={} amt={} msg=bond", self.ftoken, rng.below(1100)),
                1 => format!("exec {snd} receive sender={} amt={} msg=bond", self.gen_addr(rng), 1 + rng.below(100000)),
                _ if rng.chance(1, 3) => format!("exec {snd} bond funds={}:{}", self.token, 1 + rng.below(20)),
                _ => format!("exec {snd} bond funds={OTHER_DENOM}:{}", rng.below(1100)),
            };
        }
        if r < 68 {
            // unbond: prefer actors with a stake
            let stakers: Vec<Addr> = self.pool.iter().filter(|a| self.staked(a) > 0).cloned().collect();
            let snd = if !stakers.is_empty() && rng.chance(5, 6) { rng.pick(&stakers).clone() } else { snd };
            let amt = self.gen_unbond_amount(rng, &snd);
            return format!("exec {snd} unbond amt={amt}");
        }
        if r < 80 {
            let holders: Vec<Addr> = self.pool.iter().filter(|a| !self.claims(a).is_empty()).cloned().collect();
            let blk = self.app.block_info();
            let mature: Vec<Addr> =
                holders.iter().filter(|a| self.claims(a).iter().any(|(amt, e)| *amt > 0 && e.is_expired(&blk))).cloned().collect();
            if mature.is_empty() && !holders.is_empty() && rng.chance(1, 2) {
                // nothing can be claimed yet: let time pass instead
                return self.gen_env(rng);
            }
            let snd = if !mature.is_empty() && rng.chance(3, 4) {
                rng.pick(&mature).clone()
            } else if !holders.is_empty() && rng.chance(5, 6) {
                rng.pick(&holders).clone()
            } else {
                snd
            };
            return format!("exec {snd} claim");
        }
        if r < 84 {
            let amt = match rng.below(4) {
                0 => 0,
                1 => 1,
                2 => rng.below(1000) as u128,
                _ => self.bal(&snd) / 3,
            };
            return format!("donate {snd} amt={amt}");
        }
        // admin / hook operations
        let admin = self.admin();
        let snd = match &admin {
            Some(a) if rng.chance(3, 4) => Addr::unchecked(a.clone()),
            _ => snd,
        };
        let hooks = self.hooks();
        let refusing: Vec<String> = hooks.iter().filter(|h| !self.hooks_ok.iter().any(|o| o.as_str() == h.as_str())).cloned().collect();
        if !refusing.is_empty() && rng.chance(1, 2) {
            return format!("exec {snd} remove_hook addr=+{}", rng.pick(&refusing));
        }
        match rng.below(10) {
            0 => {
                let new = match rng.below(6) {
                    0 => "-".to_string(),
                    _ => self.gen_addr(rng),
                };
                format!("exec {snd} update_admin admin={new}")
            }
            1 | 2 | 3 => {
                let h = match rng.below(8) {
                    0 => format!("+{}", self.hook_bad),
                    1 => self.gen_addr(rng),
                    _ => format!("+{}", rng.pick(&self.hooks_ok)),
                };
                format!("exec {snd} add_hook addr={h}")
            }
            4 | 5 | 6 if hooks.is_empty() => format!("exec {snd} add_hook addr=+{}", rng.pick(&self.hooks_ok)),
            _ => {
                let h = if !hooks.is_empty() && rng.chance(4, 5) {
                    format!("+{}", rng.pick(&hooks))
                } else {
                    format!("+{}", rng.pick(&self.hooks_ok))
                };
                format!("exec {snd} remove_hook addr={h}")
            }
        }
    }

    /// Small scope: `tokens_per_weight` 2, `min_bond` 2 (stake 1 = no member, 2 and 3 = weight 1, 4 = weight 2),
    /// admin p0, stakers p0 and p1, amounts 1/2/3.
    /// Variant 0: native denom, unbonding period 2 blocks, fresh contract; the `env` line jumps 2 blocks, exactly to
    /// the release point of a claim created in the first block (claims created after the jump never mature).
    /// Variant 1: native denom, unbonding period 10 s, an accepting hook registered, and a world in mid-life: p0 has
    /// bonded 3 and unbonded 1 in the first block, the sequences start in the next block (+5 s); the `env` line goes
    /// to the block after (+10 s): the pending claim is exactly at its release point, a claim created in the
    /// starting block is 5 s short of it.
    /// Variant 2: cw20 denom (bonding through the token's `Send`), unbonding period 2 blocks, fresh contract; the
    /// `env` line jumps 3 blocks (strictly past the period).
    /// One `env` line per variant: two different ones could be applied in descending order, and a block height
    /// that goes backwards is outside the model (and outside what the snapshot maps of the contract support).
    /// The world is the same in every trace: p0 owns 5 stake tokens (8 in variant 1, 5 after the prefix has bonded
    /// 3), p1 owns 3, nobody else owns any (`small_bal`), so running out of tokens is within reach of the sequences.
    fn small_scope(&mut self, variant: u64) -> Option<SmallScope> {
        if self.wide || variant > 2 {
            return None;
        }
        self.small_bal = Some(vec![if variant == 1 { 8 } else { 5 }, 3]);
        let (p0, p1) = (self.pool[0].clone(), self.pool[1].clone());
        let b = self.app.block_info();
        let (h, t) = (b.height, b.time.nanos());
        let env = |dh: u64| format!("env height={} time={}", h + dh, t + dh * 5_000_000_000);
        let (hk, hbad) = (self.hooks_ok[0].clone(), self.hook_bad.clone());
        let (token, ftoken) = (self.token.clone(), self.ftoken.clone());
        let inst = |denom: &str, unbond: &str| format!("inst denom={denom} tpw=2 min_bond=2 unbond={unbond} admin=+{p0}");
        let mut al: Vec<String> = vec![];
        let prefix = match variant {
            0 => vec![inst("native", "h2")],
            1 => vec![
                inst("native", "t10"),
                format!("exec {p0} add_hook addr=+{hk}"),
                format!("exec {p0} bond funds={STAKE_DENOM}:3"),
                format!("exec {p0} unbond amt=1"),
                env(1),
            ],
            _ => vec![inst("cw20", "h2")],
        };
        if variant < 2 {
            al.push(format!("exec {p0} bond funds={STAKE_DENOM}:1"));
            al.push(format!("exec {p0} bond funds={STAKE_DENOM}:2"));
            al.push(format!("exec {p0} bond funds={STAKE_DENOM}:3"));
            al.push(format!("exec {p1} bond funds={STAKE_DENOM}:2"));
            al.push(format!("exec {p0} bond funds={OTHER_DENOM}:2"));
            al.push(format!("exec {p0} bond funds={STAKE_DENOM}:2,{OTHER_DENOM}:1"));
            if variant == 0 {
                al.push(format!("exec {p0} bond funds=-"));
                al.push(format!("send {p0} token={token} amt=2 msg=bond"));
            }
        } else {
            al.push(format!("send {p0} token={token} amt=1 msg=bond"));
            al.push(format!("send {p0} token={token} amt=2 msg=bond"));
            al.push(format!("send {p0} token={token} amt=3 msg=bond"));
            al.push(format!("send {p1} token={token} amt=2 msg=bond"));
            al.push(format!("send {p0} token={ftoken} amt=2 msg=bond"));
            al.push(format!("send {p0} token={token} amt=2 msg=junk"));
            al.push(format!("exec {p0} receive sender=+{p0} amt=2 msg=bond"));
            al.push(format!("exec {p0} bond funds={STAKE_DENOM}:2"));
        }
        al.push(format!("exec {p0} unbond amt=1"));
        al.push(format!("exec {p0} unbond amt=2"));
        al.push(format!("exec {p0} unbond amt=3"));
        al.push(format!("exec {p1} unbond amt=2"));
        al.push(format!("exec {p0} claim"));
        al.push(format!("exec {p1} claim"));
        al.push(format!("donate {p1} amt=1"));
        match variant {
            0 => {
                al.push(format!("exec {p0} add_hook addr=+{hk}"));
                al.push(format!("exec {p0} add_hook addr=+{hbad}"));
                al.push(format!("exec {p0} remove_hook addr=+{hk}"));
                al.push(format!("exec {p1} add_hook addr=+{hk}"));
                al.push(format!("exec {p0} update_admin admin=+{p1}"));
            }
            1 => {
                al.push(format!("exec {p0} add_hook addr=+{hk}"));
                al.push(format!("exec {p0} add_hook addr=+{hbad}"));
                al.push(format!("exec {p0} remove_hook addr=+{hk}"));
                al.push(format!("exec {p0} remove_hook addr=+{hbad}"));
                al.push(format!("exec {p0} update_admin admin=-"));
            }
            _ => {
                al.push(format!("exec {p0} add_hook addr=+{hk}"));
                al.push(format!("exec {p0} remove_hook addr=+{hk}"));
                al.push(format!("exec {p0} update_admin admin=+{p1}"));
            }
        }
        al.push(match variant {
            0 => env(2),
            1 => env(2),
            _ => env(3),
        });
        al.push("query list_members after=- limit=1".to_string());
        // a height between the two blocks of variants 0 and 2; the current block of variant 1
        al.push(format!("query member addr=+{p0} at={}", h + 1));
        Some(SmallScope { prefix, alphabet: al })
    }

    fn apply(&mut self, op: &str) -> Vec<String> {
        let a = Args::parse(op);
        let kind = a.pos.first().map(|s| s.as_str()).unwrap_or("");
        match kind {
            "env" => {
                let mut b = self.app.block_info();
                b.height = a.u64("height");
                b.time = Timestamp::from_nanos(a.u64("time"));
                self.app.set_block(b);
                vec![]
            }
            "inst" => {
                if self.stake.is_some() {
                    return vec!["> err twice=1".to_string(), self.observe(op)];
                }
                let native = a.str("denom") == "native";
                let denom = if native { Denom::Native(STAKE_DENOM.to_string()) } else { Denom::Cw20(self.token.clone()) };
                let period = parse_dur(&a.str("unbond")).unwrap_or(cw_utils::Duration::Height(1));
                let msg = InstantiateMsg {
                    denom,
                    tokens_per_weight: Uint128::new(a.u128("tpw")),
                    min_bond: Uint128::new(a.u128("min_bond")),
                    unbonding_period: period,
                    admin: a.opt("admin").map(|s| addr_text(&s)),
                };
                let code = self.stake_code;
                let creator = self.pool[0].clone();
                let app = &mut self.app;
                let r = catch(|| app.instantiate_contract(code, creator, &msg, &[], "stake", None));
                match r {
                    Some(Ok(addr)) => {
                        self.stake = Some(addr);
                        self.cfg = Some(Cfg { native, tpw: a.u128("tpw"), min_bond: a.u128("min_bond"), period });
                        vec!["> ok".to_string(), self.observe(op)]
                    }
                    _ => vec!["> err".to_string(), self.observe(op)],
                }
            }
            "exec" => {
                if self.stake.is_none() {
                    return vec!["> err uninit=1".to_string(), self.observe(op)];
                }
                let snd = Addr::unchecked(a.pos.get(1).cloned().unwrap_or_default());
                let k = a.pos.get(2).map(|s| s.as_str()).unwrap_or("");
                let mut funds: Vec<Coin> = vec![];
                let msg = match k {
                    "bond" => {
                        if let Some(f) = a.opt("funds") {
                            for e in f.split(',') {
                                if let Some((d, amt)) = e.split_once(':') {
                                    funds.push(coin(amt.parse().unwrap_or(0), d));
                                }
                            }
                        }
                        ExecuteMsg::Bond {}
                    }
                    "unbond" => ExecuteMsg::Unbond { tokens: Uint128::new(a.u128("amt")) },
                    "claim" => ExecuteMsg::Claim {},
                    "update_admin" => ExecuteMsg::UpdateAdmin { admin: a.opt("admin").map(|s| addr_text(&s)) },
                    "add_hook" => ExecuteMsg::AddHook { addr: addr_text(&a.str("addr")) },
                    "remove_hook" => ExecuteMsg::RemoveHook { addr: addr_text(&a.str("addr")) },
                    "receive" => ExecuteMsg::Receive(Cw20ReceiveMsg {
                        sender: addr_text(&a.str("sender")),
                        amount: Uint128::new(a.u128("amt")),
                        msg: payload(&a.str("msg")),
                    }),
                    _ => return vec!["> err badop=1".to_string(), self.observe(op)],
                };
                let m = self.stake_msg(&msg, funds);
                let r = self.tx(&snd, m);
                vec![r, self.observe(op)]
            }
            "send" => {
                // cw20 Send on a token contract towards the stake contract
                if self.stake.is_none() {
                    return vec!["> err uninit=1".to_string(), self.observe(op)];
                }
                let snd = Addr::unchecked(a.pos.get(1).cloned().unwrap_or_default());
                let m = CosmosMsg::Wasm(WasmMsg::Execute {
                    contract_addr: a.str("token"),
                    msg: to_json_binary(&Cw20ExecuteMsg::Send {
                        contract: self.stake.as_ref().unwrap().to_string(),
                        amount: Uint128::new(a.u128("amt")),
                        msg: payload(&a.str("msg")),
                    })
                    .unwrap(),
                    funds: vec![],
                });
                let r = self.tx(&snd, m);
                vec![r, self.observe(op)]
            }
            "donate" => {
                // plain transfer of the stake token to the contract, no bonding
                if self.stake.is_none() {
                    return vec!["> err uninit=1".to_string(), self.observe(op)];
                }
                let snd = Addr::unchecked(a.pos.get(1).cloned().unwrap_or_default());
                let to = self.stake.as_ref().unwrap().to_string();
                let amt = a.u128("amt");
                let m = if self.native() {
                    CosmosMsg::Bank(BankMsg::Send { to_address: to, amount: vec![coin(amt, STAKE_DENOM)] })
                } else {
                    CosmosMsg::Wasm(WasmMsg::Execute {
                        contract_addr: self.token.to_string(),
                        msg: to_json_binary(&Cw20ExecuteMsg::Transfer { recipient: to, amount: Uint128::new(amt) }).unwrap(),
                        funds: vec![],
                    })
                };
                let r = self.tx(&snd, m);
                vec![r, self.observe(op)]
            }
            "query" => {
                let k = a.pos.get(1).map(|s| s.as_str()).unwrap_or("");
                let res: Option<String> = match k {
                    "list_members" => {
                        self.list_members(a.opt("after").map(|s| addr_text(&s)), a.opt_u32("limit")).map(|v| v.join(","))
                    }
                    "member" => self
                        .q::<MemberResponse>(&QueryMsg::Member { addr: addr_text(&a.str("addr")), at_height: a.opt_u64("at") })
                        .map(|r| opt_u64(&r.weight)),
                    _ => None,
                };
                match res {
                    Some(r) => vec![format!("> ok result={r}")],
                    None => vec!["> err".to_string()],
                }
            }
            _ => vec![],
        }
    }
}

fn payload(kind: &str) -> Binary {
    match kind {
        "bond" => Binary::from(br#"{"bond":{}}"#.to_vec()),
        "junk" => Binary::from(br#"{"unbond":{}}"#.to_vec()),
        _ => Binary::from(b"not json".to_vec()),
    }
}
