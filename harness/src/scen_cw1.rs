//! Scenarios `cw1wl` (cw1-whitelist) and `cw1sk` (cw1-subkeys): the real entry points in direct mode.
// SCENARIO cw1wl crate::scen_cw1::WlScen::new()
// SCENARIO cw1sk crate::scen_cw1::SkScen::new()
// SCENARIO cw1skwide crate::scen_cw1::SkScen::new_wide()
//
// `cw1skwide` (C20): a pool of 40 (1–2 admins, the rest subkeys); the generator grows AllAllowances / AllPermissions beyond the maximum page size,
// gives a run of neighbouring subkeys (positions 8..13 of the sorted pool) short-lived allowances so that several
// EXPIRED entries in a row precede live ones (AllAllowances filters before `take`), and issues explicit page requests.
#![allow(deprecated)]
use crate::common::*;
use cosmwasm_std::testing::{mock_env, MockApi, MockQuerier};
use cosmwasm_std::{
    from_json, Addr, AnyMsg, BankMsg, Binary, Coin, CosmosMsg, DistributionMsg, Empty, Env, GovMsg, IbcMsg,
    IbcTimeout, MessageInfo, Order, OwnedDeps, ReplyOn, Response, StakingMsg, Timestamp, Uint128, VoteOption,
    WasmMsg,
};
use cw1::CanExecuteResponse;
use cw1_subkeys::msg::{AllAllowancesResponse, AllPermissionsResponse};
use cw1_subkeys::state::{Allowance, Permissions, ALLOWANCES};
use cw1_whitelist::msg::{AdminListResponse, InstantiateMsg};
use cw_utils::Expiration;
use std::marker::PhantomData;

type Deps = OwnedDeps<MemStore, MockApi, MockQuerier>;
type WlExec = cw1_whitelist::msg::ExecuteMsg;
type WlQuery = cw1_whitelist::msg::QueryMsg;
type SkExec = cw1_subkeys::msg::ExecuteMsg;
type SkQuery = cw1_subkeys::msg::QueryMsg;

const U128MAX: u128 = u128::MAX;
// `UA`: differs from `ua` only in letter case (bank denoms are case sensitive)
const DENOMS: [&str; 4] = ["ua", "ub", "uc", "UA"];
const VALIDATORS: [&str; 2] = ["val1", "val2"];

/// `M.m.p[-pre]` re-rendered from its parts, `?` for anything else (mirrors `parseSemVer` of the Lean driver).
fn canon_semver(s: &str) -> String {
    let (main, pre) = match s.split_once('-') {
        Some((m, p)) => (m, Some(p)),
        None => (s, None),
    };
    let parts: Vec<&str> = main.split('.').collect();
    if parts.len() != 3 {
        return "?".to_string();
    }
    let nums: Vec<Option<u64>> = parts.iter().map(|p| if p.chars().all(|c| c.is_ascii_digit()) { p.parse().ok() } else { None }).collect();
    match (nums[0], nums[1], nums[2]) {
        (Some(a), Some(b), Some(c)) => format!("{a}.{b}.{c}{}", pre.map(|p| format!("-{p}")).unwrap_or_default()),
        _ => "?".to_string(),
    }
}

fn new_deps() -> Deps {
    OwnedDeps {
        storage: MemStore::default(),
        api: MockApi::default(),
        querier: MockQuerier::default(),
        custom_query_type: PhantomData,
    }
}

// ---------- canonical text form of coins and messages

fn parse_coin(s: &str) -> Coin {
    let i = s.find(|c: char| !c.is_ascii_digit()).unwrap_or(s.len());
    Coin { denom: s[i..].to_string(), amount: Uint128::new(s[..i].parse().unwrap_or(0)) }
}

fn parse_coins(s: &str) -> Vec<Coin> {
    if s.is_empty() {
        vec![]
    } else {
        s.split('+').map(parse_coin).collect()
    }
}

fn render_coin(c: &Coin) -> String {
    format!("{}{}", c.amount, c.denom)
}

fn render_coins(v: &[Coin]) -> String {
    v.iter().map(render_coin).collect::<Vec<_>>().join("+")
}

fn bin_text(b: &Binary) -> String {
    String::from_utf8_lossy(b.as_slice()).to_string()
}

fn vote_text(o: &VoteOption) -> &'static str {
    match o {
        VoteOption::Yes => "yes",
        VoteOption::No => "no",
        VoteOption::Abstain => "abstain",
        VoteOption::NoWithVeto => "veto",
    }
}

/// `bank/<to>/<coins>`, `burn/<coins>`, `stake/<kind>/…`, `distr/<kind>/…`, `wasm/…`, `ibc/…`, `gov/…`, `other/…`
pub fn render_msg(m: &CosmosMsg) -> String {
    match m {
        CosmosMsg::Bank(BankMsg::Send { to_address, amount }) => format!("bank/{}/{}", to_address, render_coins(amount)),
        CosmosMsg::Bank(BankMsg::Burn { amount }) => format!("burn/{}", render_coins(amount)),
        CosmosMsg::Staking(StakingMsg::Delegate { validator, amount }) => {
            format!("stake/delegate/{}/{}", validator, render_coin(amount))
        }
        CosmosMsg::Staking(StakingMsg::Undelegate { validator, amount }) => {
            format!("stake/undelegate/{}/{}", validator, render_coin(amount))
        }
        CosmosMsg::Staking(StakingMsg::Redelegate { src_validator, dst_validator, amount }) => {
            format!("stake/redelegate/{}/{}/{}", src_validator, dst_validator, render_coin(amount))
        }
        CosmosMsg::Distribution(DistributionMsg::SetWithdrawAddress { address }) => format!("distr/setaddr/{}", address),
        CosmosMsg::Distribution(DistributionMsg::WithdrawDelegatorReward { validator }) => {
            format!("distr/withdraw/{}", validator)
        }
        CosmosMsg::Distribution(DistributionMsg::FundCommunityPool { amount }) => {
            format!("distr/other/{}", render_coins(amount))
        }
        CosmosMsg::Wasm(WasmMsg::Execute { contract_addr, msg, funds }) => {
            format!("wasm/exec/{}/{}/{}", contract_addr, bin_text(msg), render_coins(funds))
        }
        CosmosMsg::Wasm(WasmMsg::ClearAdmin { contract_addr }) => format!("wasm/clear/{}", contract_addr),
        CosmosMsg::Wasm(WasmMsg::Migrate { contract_addr, new_code_id, msg }) => {
            format!("wasm/migrate/{}/{}/{}", contract_addr, new_code_id, bin_text(msg))
        }
        CosmosMsg::Ibc(IbcMsg::CloseChannel { channel_id }) => format!("ibc/close/{}", channel_id),
        CosmosMsg::Ibc(IbcMsg::SendPacket { channel_id, data, timeout }) => format!(
            "ibc/packet/{}/{}/{}",
            channel_id,
            bin_text(data),
            timeout.timestamp().map(|t| t.nanos()).unwrap_or(0)
        ),
        CosmosMsg::Ibc(IbcMsg::Transfer { channel_id, to_address, amount, timeout, memo }) => format!(
            "ibc/transfer/{}/{}/{}/{}{}",
            channel_id,
            to_address,
            render_coin(amount),
            timeout.timestamp().map(|t| t.nanos()).unwrap_or(0),
            if memo.is_some() { "/memo" } else { "" }
        ),
        CosmosMsg::Gov(GovMsg::Vote { proposal_id, option }) => format!("gov/vote/{}/{}", proposal_id, vote_text(option)),
        CosmosMsg::Stargate { type_url, value } => format!("other/stargate/{}/{}", type_url, bin_text(value)),
        CosmosMsg::Any(AnyMsg { type_url, value }) => format!("other/any/{}/{}", type_url, bin_text(value)),
        CosmosMsg::Custom(_) => "other/custom".to_string(),
        _ => "unrenderable".to_string(),
    }
}

pub fn parse_msg(s: &str) -> Option<CosmosMsg> {
    let p: Vec<&str> = s.split('/').collect();
    let g = |i: usize| -> String { p.get(i).map(|x| x.to_string()).unwrap_or_default() };
    let bin = |i: usize| -> Binary { Binary::from(g(i).as_bytes()) };
    let ts = |i: usize| -> IbcTimeout { IbcTimeout::with_timestamp(Timestamp::from_nanos(g(i).parse().unwrap_or(0))) };
    Some(match (p.first().copied()?, p.get(1).copied().unwrap_or("")) {
        ("bank", _) => BankMsg::Send { to_address: g(1), amount: parse_coins(&g(2)) }.into(),
        ("burn", _) => BankMsg::Burn { amount: parse_coins(&g(1)) }.into(),
        ("stake", "delegate") => StakingMsg::Delegate { validator: g(2), amount: parse_coin(&g(3)) }.into(),
        ("stake", "undelegate") => StakingMsg::Undelegate { validator: g(2), amount: parse_coin(&g(3)) }.into(),
        ("stake", "redelegate") => {
            StakingMsg::Redelegate { src_validator: g(2), dst_validator: g(3), amount: parse_coin(&g(4)) }.into()
        }
        ("distr", "setaddr") => DistributionMsg::SetWithdrawAddress { address: g(2) }.into(),
        ("distr", "withdraw") => DistributionMsg::WithdrawDelegatorReward { validator: g(2) }.into(),
        ("distr", "other") => DistributionMsg::FundCommunityPool { amount: parse_coins(&g(2)) }.into(),
        ("wasm", "exec") => WasmMsg::Execute { contract_addr: g(2), msg: bin(3), funds: parse_coins(&g(4)) }.into(),
        ("wasm", "clear") => WasmMsg::ClearAdmin { contract_addr: g(2) }.into(),
        ("wasm", "migrate") => {
            WasmMsg::Migrate { contract_addr: g(2), new_code_id: g(3).parse().unwrap_or(0), msg: bin(4) }.into()
        }
        ("ibc", "close") => IbcMsg::CloseChannel { channel_id: g(2) }.into(),
        ("ibc", "packet") => IbcMsg::SendPacket { channel_id: g(2), data: bin(3), timeout: ts(4) }.into(),
        ("ibc", "transfer") => {
            IbcMsg::Transfer { channel_id: g(2), to_address: g(3), amount: parse_coin(&g(4)), timeout: ts(5), memo: None }.into()
        }
        ("gov", "vote") => GovMsg::Vote {
            proposal_id: g(2).parse().unwrap_or(0),
            option: match g(3).as_str() {
                "yes" => VoteOption::Yes,
                "no" => VoteOption::No,
                "abstain" => VoteOption::Abstain,
                _ => VoteOption::NoWithVeto,
            },
        }
        .into(),
        ("other", "stargate") => CosmosMsg::Stargate { type_url: g(2), value: bin(3) },
        ("other", "any") => CosmosMsg::Any(AnyMsg { type_url: g(2), value: bin(3) }),
        ("other", "custom") => CosmosMsg::Custom(Empty {}),
        _ => return None,
    })
}

/// now and then repeat one message of a list (adjacent or at the end): "relayed exactly as submitted" includes repeats
fn dup_one(rng: &mut Rng, msgs: &mut Vec<String>) {
    if !msgs.is_empty() && rng.chance(1, 6) {
        let i = rng.below(msgs.len() as u64) as usize;
        let m = msgs[i].clone();
        if rng.chance(2, 3) {
            msgs.insert(i, m);
        } else {
            msgs.push(m);
        }
    }
}

fn parse_msgs(s: &str) -> Vec<CosmosMsg> {
    if s.is_empty() {
        vec![]
    } else {
        s.split(';').filter_map(parse_msg).collect()
    }
}

fn render_response_msgs(res: &Response) -> String {
    res.messages
        .iter()
        .map(|sm| {
            let plain = sm.id == 0 && sm.gas_limit.is_none() && sm.reply_on == ReplyOn::Never;
            format!("{}{}", render_msg(&sm.msg), if plain { "" } else { "!submsg" })
        })
        .collect::<Vec<_>>()
        .join(";")
}

fn render_allowance(a: &Allowance) -> String {
    format!("{}:{}", render_coins(&a.balance.0), render_exp(&a.expires))
}

fn render_perm(p: &Permissions) -> String {
    let b = |x: bool| if x { '1' } else { '0' };
    format!("{}{}{}{}", b(p.delegate), b(p.redelegate), b(p.undelegate), b(p.withdraw))
}

fn parse_perm(s: &str) -> Permissions {
    let c: Vec<char> = s.chars().collect();
    let b = |i: usize| c.get(i) == Some(&'1');
    Permissions { delegate: b(0), redelegate: b(1), undelegate: b(2), withdraw: b(3) }
}

// ---------- the scenario

pub struct Cw1Scen {
    sub: bool,
    deps: Deps,
    env: Env,
    pool: Vec<Addr>,
    inited: bool,
    seed: u64,
    /// `cw1skwide`: pool of 40 (C20)
    wide: bool,
    /// generator (wide): 0 = allowance-heavy trace, 1 = permission-heavy trace
    mode: u64,
    /// generator: the trace started from an `inst_legacy` state that was not migrated yet
    legacy: bool,
    /// generator: trace-level story (0 = "one subkey gets a three-denomination allowance and uses it up in one send")
    story: u64,
}

pub struct WlScen;
impl WlScen {
    pub fn new() -> Cw1Scen {
        Cw1Scen::make(false)
    }
}

pub struct SkScen;
impl SkScen {
    pub fn new() -> Cw1Scen {
        Cw1Scen::make(true)
    }
    pub fn new_wide() -> Cw1Scen {
        let mut s = Cw1Scen::make(true);
        s.wide = true;
        s
    }
}

impl Cw1Scen {
    fn make(sub: bool) -> Self {
        Cw1Scen { sub, deps: new_deps(), env: mock_env(), pool: vec![], inited: false, seed: 0, wide: false, mode: 0, legacy: false, story: 99 }
    }

    fn name(&self) -> &'static str {
        if self.wide {
            "cw1skwide"
        } else if self.sub {
            "cw1sk"
        } else {
            "cw1wl"
        }
    }

    // ----- queries (through the contract's own entry point)

    fn qsk<T: serde::de::DeserializeOwned>(&self, msg: SkQuery) -> Option<T> {
        match catch(|| cw1_subkeys::contract::query(self.deps.as_ref(), self.env.clone(), msg)) {
            Some(Ok(b)) => from_json(&b).ok(),
            _ => None,
        }
    }

    fn qwl<T: serde::de::DeserializeOwned>(&self, msg: WlQuery) -> Option<T> {
        match catch(|| cw1_whitelist::contract::query(self.deps.as_ref(), self.env.clone(), msg)) {
            Some(Ok(b)) => from_json(&b).ok(),
            _ => None,
        }
    }

    fn admin_list(&self) -> Option<AdminListResponse> {
        if self.sub {
            self.qsk(SkQuery::AdminList {})
        } else {
            self.qwl(WlQuery::AdminList {})
        }
    }

    fn can_execute(&self, sender: &str, msg: CosmosMsg) -> Option<bool> {
        let r: Option<CanExecuteResponse> = if self.sub {
            self.qsk(SkQuery::CanExecute { sender: sender.to_string(), msg })
        } else {
            self.qwl(WlQuery::CanExecute { sender: sender.to_string(), msg })
        };
        r.map(|c| c.can_execute)
    }

    fn q_allowance(&self, sp: &str) -> Option<Allowance> {
        self.qsk(SkQuery::Allowance { spender: sp.to_string() })
    }

    fn q_permissions(&self, sp: &str) -> Option<Permissions> {
        self.qsk(SkQuery::Permissions { spender: sp.to_string() })
    }

    fn q_all_allowances(&self, after: Option<String>, limit: Option<u32>) -> Option<Vec<String>> {
        self.qsk::<AllAllowancesResponse>(SkQuery::AllAllowances { start_after: after, limit }).map(|r| {
            r.allowances
                .iter()
                .map(|a| format!("{}:{}:{}", a.spender, render_coins(&a.balance.0), render_exp(&a.expires)))
                .collect()
        })
    }

    fn q_all_permissions(&self, after: Option<String>, limit: Option<u32>) -> Option<Vec<String>> {
        self.qsk::<AllPermissionsResponse>(SkQuery::AllPermissions { start_after: after, limit })
            .map(|r| r.permissions.iter().map(|p| format!("{}:{}", p.spender, render_perm(&p.permissions))).collect())
    }

    /// raw stored allowance (expired ones included), straight from the public `ALLOWANCES` map
    fn raw_allowance(&self, a: &Addr) -> Option<Allowance> {
        ALLOWANCES.may_load(&self.deps.storage, a).ok().flatten()
    }

    /// Page through a listing with `limit`; the cursor is the key of the last returned entry.
    fn page_all(&self, limit: Option<u32>, f: &dyn Fn(Option<String>, Option<u32>) -> Option<Vec<String>>) -> Vec<String> {
        let mut out: Vec<String> = vec![];
        let mut cursor: Option<String> = None;
        let mut guard = WalkGuard::default();
        for _ in 0..MAX_WALK_PAGES {
            match f(cursor.clone(), limit) {
                Some(p) if !p.is_empty() => {
                    let next = Some(p.last().unwrap().split(':').next().unwrap().to_string());
                    out.extend(p);
                    if next == cursor || !guard.fresh(&next) {
                        break; // no progress (a defect in the code under test): do not walk forever
                    }
                    cursor = next;
                }
                _ => break,
            }
        }
        out
    }

    fn observe(&self, salt: &str) -> String {
        if !self.inited {
            return "obs uninit=1".to_string();
        }
        let mut rng = Rng::new(hash_str(salt) ^ self.seed);
        let mut lim = || -> Option<u32> {
            match rng.below(6) {
                0 => None,
                1 => Some(1),
                2 => Some(2),
                3 => Some(3),
                4 => Some(30),
                _ => Some(7),
            }
        };
        let (admins, mutable) = match self.admin_list() {
            Some(a) => (a.admins.join(","), a.mutable.to_string()),
            None => ("?".to_string(), "?".to_string()),
        };
        if !self.sub {
            return format!("obs admins={} mutable={}", admins, mutable);
        }
        let mut allow = vec![];
        let mut perm = vec![];
        for a in &self.pool {
            match self.q_allowance(a.as_str()) {
                Some(al) => {
                    if !al.balance.0.is_empty() || al.expires != (Expiration::Never {}) {
                        allow.push(format!("{}:{}", a, render_allowance(&al)));
                    }
                }
                None => allow.push(format!("{}:?", a)),
            }
            match self.q_permissions(a.as_str()) {
                Some(p) => {
                    if p != Permissions::default() {
                        perm.push(format!("{}:{}", a, render_perm(&p)));
                    }
                }
                None => perm.push(format!("{}:?", a)),
            }
        }
        let l = lim();
        let lallow = self.page_all(l, &|c, l| self.q_all_allowances(c, l));
        let l = lim();
        let lperm = self.page_all(l, &|c, l| self.q_all_permissions(c, l));
        let rallow: Vec<String> = ALLOWANCES
            .range(&self.deps.storage, None, None, Order::Ascending)
            .filter_map(|r| r.ok())
            .map(|(k, v)| format!("{}:{}", k, render_allowance(&v)))
            .collect();
        let mut pagediff: Vec<String> = vec![];
        if let Some(d) = paging_audit("all_allowances", &|c, l| self.q_all_allowances(c, l)) {
            pagediff.push(d);
        }
        if let Some(d) = paging_audit("all_permissions", &|c, l| self.q_all_permissions(c, l)) {
            pagediff.push(d);
        }
        // the cw2 item, canonical: `name/M.m.p[-pre]`, `?` for a version that is not `M.m.p[-pre]`, `-` if absent
        let cw2 = match cw2::get_contract_version(&self.deps.storage) {
            Ok(v) => format!("{}/{}", v.contract, canon_semver(&v.version)),
            Err(_) => "-".to_string(),
        };
        format!(
            "obs pagediff={} admins={} mutable={} allow={} lallow={} rallow={} perm={} lperm={} cw2={}",
            pagediff.join(","),
            admins,
            mutable,
            allow.join(","),
            lallow.join(","),
            rallow.join(","),
            perm.join(","),
            lperm.join(","),
            cw2
        )
    }

    // ----- transactions

    fn run_exec(&mut self, sender: &Addr, kind: &str, a: &Args) -> Option<Result<Response, String>> {
        // coins attached to the call (`funds=1ua+2ub`): the proxies neither want nor use them
        let info = MessageInfo { sender: sender.clone(), funds: a.opt("funds").map(|f| parse_coins(&f)).unwrap_or_default() };
        let env = self.env.clone();
        let exp = a.opt("expires").and_then(|e| parse_exp(&e));
        let coin = Coin { denom: a.str("denom"), amount: Uint128::new(a.u128("amt")) };
        let admins: Vec<String> = a.list("admins").iter().map(|s| addr_text(s)).collect();
        if self.sub {
            let msg = match kind {
                "execute" => SkExec::Execute { msgs: parse_msgs(&a.str("msgs")) },
                "freeze" => SkExec::Freeze {},
                "update_admins" => SkExec::UpdateAdmins { admins },
                "increase_allowance" => {
                    SkExec::IncreaseAllowance { spender: addr_text(&a.str("spender")), amount: coin, expires: exp }
                }
                "decrease_allowance" => {
                    SkExec::DecreaseAllowance { spender: addr_text(&a.str("spender")), amount: coin, expires: exp }
                }
                "set_permissions" => {
                    SkExec::SetPermissions { spender: addr_text(&a.str("spender")), permissions: parse_perm(&a.str("perm")) }
                }
                _ => return Some(Err("badop".to_string())),
            };
            let deps = &mut self.deps;
            catch(move || cw1_subkeys::contract::execute(deps.as_mut(), env, info, msg).map_err(|e| e.to_string()))
        } else {
            let msg = match kind {
                "execute" => WlExec::Execute { msgs: parse_msgs(&a.str("msgs")) },
                "freeze" => WlExec::Freeze {},
                "update_admins" => WlExec::UpdateAdmins { admins },
                _ => return Some(Err("badop".to_string())),
            };
            let deps = &mut self.deps;
            catch(move || cw1_whitelist::contract::execute(deps.as_mut(), env, info, msg).map_err(|e| e.to_string()))
        }
    }

    /// One transaction: the storage is restored on `Err` / panic.
    fn tx(&mut self, sender: &Addr, kind: &str, a: &Args) -> String {
        let snap = self.deps.storage.clone();
        match self.run_exec(sender, kind, a) {
            Some(Ok(res)) => format!("> ok msgs={}", render_response_msgs(&res)),
            Some(Err(_)) => {
                self.deps.storage = snap;
                "> err".to_string()
            }
            None => {
                self.deps.storage = snap;
                "> err panic=1".to_string()
            }
        }
    }

    // ----- generators

    fn admins_now(&self) -> Vec<String> {
        self.admin_list().map(|a| a.admins).unwrap_or_default()
    }

    fn gen_addr(&self, rng: &mut Rng) -> String {
        if rng.chance(1, 25) {
            format!("-{}", invalid_addr(rng, &self.pool))
        } else {
            format!("+{}", rng.pick(&self.pool))
        }
    }

    fn gen_admin_list(&self, rng: &mut Rng) -> String {
        let n = match rng.below(8) {
            0 => 0,
            1 | 2 | 3 => 1,
            4 | 5 => 2,
            6 => 3,
            _ => 4,
        };
        let mut v = vec![];
        for _ in 0..n {
            // duplicates are possible and are kept by the contract
            if rng.chance(1, 20) {
                v.push(format!("-{}", invalid_addr(rng, &self.pool)));
            } else if rng.chance(1, 12) {
                // the proxy lists itself (every message it relays to itself then arrives with admin rights)
                v.push(mark(&MockApi::default(), self.env.contract.address.as_str()));
            } else {
                v.push(format!("+{}", rng.pick(&self.pool)));
            }
        }
        v.join(",")
    }

    fn gen_exp(&self, rng: &mut Rng) -> String {
        let h = self.env.block.height;
        let t = self.env.block.time.nanos();
        match rng.below(14) {
            0 | 1 | 2 | 3 | 4 => "-".to_string(),
            5 => "never".to_string(),
            6 => format!("h{}", h.saturating_sub(1)),
            7 => format!("h{h}"),
            8 => format!("h{}", h + 1),
            9 | 10 => format!("h{}", h + 1 + rng.below(6)),
            11 => format!("t{}", t),
            12 => format!("t{}", t + 1),
            _ => format!("t{}", t + 1 + rng.below(30) * 1_000_000_000),
        }
    }

    /// An expiry for a grant to `sp`: sometimes exactly the expiry already stored for that
    /// subkey (repeating a grant with an unchanged deadline, possibly after it was reached).
    fn gen_exp_for(&self, rng: &mut Rng, sp: &str) -> String {
        if rng.chance(1, 5) {
            if let Some(a) = self.raw_allowance(&Addr::unchecked(addr_text(sp))) {
                return render_exp(&a.expires);
            }
        }
        self.gen_exp(rng)
    }

    fn held(&self, who: &Addr, denom: &str) -> u128 {
        self.raw_allowance(who)
            .and_then(|a| a.balance.0.iter().find(|c| c.denom == denom).map(|c| c.amount.u128()))
            .unwrap_or(0)
    }

    fn amount_near(&self, rng: &mut Rng, base: u128) -> u128 {
        match rng.below(12) {
            0 => 0,
            1 => 1,
            2 => base.saturating_sub(1),
            3 => base,
            4 => base.saturating_add(1),
            5 | 6 | 7 => base / 3,
            8 => base / 2,
            9 => rng.below(100) as u128,
            10 => {
                if rng.chance(1, 3) {
                    *rng.pick(&[U128MAX, U128MAX - 1, 1u128 << 127, 1u128 << 64])
                } else {
                    base
                }
            }
            _ => {
                if base > 0 {
                    rng.u128() % base.saturating_add(1).max(1)
                } else {
                    rng.below(50) as u128
                }
            }
        }
    }

    /// coins of a bank send by `who`: amounts relative to what `who` currently holds, cumulative use in mind
    fn gen_coins(&self, rng: &mut Rng, who: &Addr) -> String {
        let n = match rng.below(10) {
            0 => 0,
            1 | 2 | 3 | 4 | 5 => 1,
            6 | 7 | 8 => 2,
            _ => 3,
        };
        let held: Vec<String> =
            self.raw_allowance(who).map(|a| a.balance.0.iter().map(|c| c.denom.clone()).collect()).unwrap_or_default();
        // one send that uses an allowance up denom by denom: exactly the remainder of one denomination, then part of
        // the denominations stored after it (an entry that reaches zero disappears from the stored balance while the
        // later coins of the same message are still to be charged)
        if held.len() >= 2 && rng.chance(1, 5) {
            let i = rng.below(held.len() as u64 - 1) as usize;
            let mut v = vec![format!("{}{}", self.held(who, &held[i]), held[i])];
            for d in held.iter().skip(i + 1) {
                if rng.chance(2, 3) {
                    let h = self.held(who, d);
                    let amt = match rng.below(3) { 0 => h, 1 => 1.min(h), _ => h / 2 };
                    v.push(format!("{amt}{d}"));
                }
            }
            return v.join("+");
        }
        let mut v = vec![];
        for _ in 0..n {
            let d = if !held.is_empty() && rng.chance(5, 6) { rng.pick(&held).clone() } else { rng.pick(&DENOMS).to_string() };
            let amt = self.amount_near(rng, self.held(who, &d));
            v.push(format!("{amt}{d}"));
        }
        v.join("+")
    }

    fn gen_small_coin(&self, rng: &mut Rng) -> String {
        format!("{}{}", rng.below(50), rng.pick(&DENOMS))
    }

    fn gen_msg(&self, rng: &mut Rng, who: &Addr, bank_bias: bool) -> String {
        let k = rng.below(100);
        let bank_cut = if bank_bias { 55 } else { 30 };
        if k < bank_cut {
            // now and then the recipient is the proxy itself
            let to = if rng.chance(1, 12) { self.env.contract.address.clone() } else { rng.pick(&self.pool).clone() };
            format!("bank/{}/{}", to, self.gen_coins(rng, who))
        } else if k < bank_cut + 15 {
            match rng.below(3) {
                0 => format!("stake/delegate/{}/{}", rng.pick(&VALIDATORS), self.gen_small_coin(rng)),
                1 => format!("stake/undelegate/{}/{}", rng.pick(&VALIDATORS), self.gen_small_coin(rng)),
                _ => format!("stake/redelegate/{}/{}/{}", VALIDATORS[0], VALIDATORS[1], self.gen_small_coin(rng)),
            }
        } else if k < bank_cut + 27 {
            match rng.below(5) {
                0 | 1 => format!("distr/setaddr/{}", rng.pick(&self.pool)),
                2 | 3 => format!("distr/withdraw/{}", rng.pick(&VALIDATORS)),
                _ => format!("distr/other/{}", self.gen_small_coin(rng)),
            }
        } else {
            match rng.below(11) {
                0 => format!("burn/{}", self.gen_coins(rng, who)),
                1 => format!("burn/{}", self.gen_small_coin(rng)),
                2 => {
                    // now and then the callee is the proxy itself (a self-call arrives with the proxy as sender: C17-18)
                    let to = if rng.chance(1, 3) { self.env.contract.address.clone() } else { rng.pick(&self.pool).clone() };
                    format!("wasm/exec/{}/tag{}/{}", to, rng.below(3), self.gen_small_coin(rng))
                }
                3 => format!("wasm/clear/{}", rng.pick(&self.pool)),
                4 => format!("wasm/migrate/{}/{}/m{}", rng.pick(&self.pool), rng.below(9), rng.below(3)),
                5 => format!("ibc/close/channel-{}", rng.below(3)),
                6 => format!("ibc/packet/channel-{}/data{}/{}", rng.below(3), rng.below(3), self.env.block.time.nanos() + 5),
                7 => format!(
                    "ibc/transfer/channel-{}/{}/{}/{}",
                    rng.below(3),
                    rng.pick(&self.pool),
                    self.gen_small_coin(rng),
                    self.env.block.time.nanos() + 7
                ),
                8 => format!("gov/vote/{}/{}", rng.below(5), rng.pick(&["yes", "no", "abstain", "veto"])),
                9 => format!("other/stargate/type.url{}/v{}", rng.below(3), rng.below(3)),
                _ => {
                    if rng.chance(1, 2) {
                        format!("other/any/type.url{}/v{}", rng.below(3), rng.below(3))
                    } else {
                        "other/custom".to_string()
                    }
                }
            }
        }
    }

    /// subkeys: addresses with a stored allowance or permissions
    fn subkeys_now(&self) -> Vec<Addr> {
        self.pool
            .iter()
            .filter(|a| {
                self.raw_allowance(a).is_some()
                    || self.q_permissions(a.as_str()).map(|p| p != Permissions::default()).unwrap_or(false)
            })
            .cloned()
            .collect()
    }

    fn pick_sender(&self, rng: &mut Rng, admin_pct: u64, subkey_pct: u64) -> Addr {
        let admins = self.admins_now();
        let subs = self.subkeys_now();
        // the proxy's own address as caller: what a relayed message addressed to the proxy itself looks like
        if rng.chance(1, 40) {
            return self.env.contract.address.clone();
        }
        // a near miss of an admin's address as caller: the address without its last character, or with one more
        // (`info.sender` is whatever the chain says; a comparison that only looks at a common prefix would accept it)
        if rng.chance(1, 30) && !admins.is_empty() {
            let a = rng.pick(&admins).clone();
            return near_miss(rng, a.as_str());
        }
        let r = rng.below(100);
        if r < admin_pct && !admins.is_empty() {
            Addr::unchecked(rng.pick(&admins).clone())
        } else if r < admin_pct + subkey_pct && !subs.is_empty() {
            rng.pick(&subs).clone()
        } else {
            rng.pick(&self.pool).clone()
        }
    }

    /// `cw1skwide`: grow the listings, let a run of neighbouring allowances expire, request pages explicitly.
    fn gen_wide_op(&self, rng: &mut Rng) -> Option<String> {
        let admins = self.admins_now();
        let mut sorted: Vec<Addr> = self.pool.iter().filter(|a| !admins.contains(&a.to_string())).cloned().collect();
        sorted.sort();
        if admins.is_empty() || sorted.is_empty() {
            return None;
        }
        let snd = rng.pick(&admins).clone();
        let h = self.env.block.height;
        let t = self.env.block.time.nanos();
        // allowance-heavy trace: 60 % grants, 10 % permissions; permission-heavy trace: the other way round
        let k = match (rng.below(10), self.mode) {
            (x, 0) if x < 6 => 0,
            (6, 0) => 4,
            (0, _) => 0,
            (x, _) if x < 7 => 4,
            (x, _) => x,
        };
        match k {
            0..=3 => {
                // mostly a subkey that has no stored allowance yet
                let fresh: Vec<usize> = (0..sorted.len()).filter(|i| self.raw_allowance(&sorted[*i]).is_none()).collect();
                let i = if !fresh.is_empty() && rng.chance(4, 5) { *rng.pick(&fresh) } else { rng.below(sorted.len() as u64) as usize };
                let sp = &sorted[i];
                // positions 8..13 of the sorted pool: allowances that expire within a block or two
                let exp = if (8..13).contains(&i) && rng.chance(4, 5) {
                    match rng.below(3) {
                        0 => format!("h{}", h + 1),
                        1 => format!("h{}", h + 2),
                        _ => format!("t{}", t + 1),
                    }
                } else {
                    match rng.below(4) {
                        0 => "never".to_string(),
                        1 => format!("h{}", h + 500 + rng.below(9)),
                        _ => "-".to_string(),
                    }
                };
                // an expired stored allowance is only replaced when a new expiry comes along
                let exp = match self.raw_allowance(sp) {
                    Some(a) if a.expires.is_expired(&self.env.block) && exp == "-" => "never".to_string(),
                    _ => exp,
                };
                Some(format!("exec {snd} increase_allowance spender=+{sp} amt={} denom={} expires={exp}", 1 + rng.below(300), rng.pick(&DENOMS)))
            }
            4..=6 => {
                let fresh: Vec<&Addr> = sorted
                    .iter()
                    .filter(|a| self.q_permissions(a.as_str()).map(|p| p == Permissions::default()).unwrap_or(true))
                    .collect();
                let sp = if !fresh.is_empty() && rng.chance(4, 5) { *rng.pick(&fresh) } else { rng.pick(&sorted) };
                let perm: String = (0..4).map(|_| if rng.chance(3, 5) { '1' } else { '0' }).collect();
                Some(format!("exec {snd} set_permissions spender=+{sp} perm={perm}"))
            }
            7 => {
                let dh = *rng.pick(&[1u64, 1, 2, 3]);
                Some(format!("env height={} time={}", h + dh, t + dh * 5_000_000_000))
            }
            _ => {
                let lim = *rng.pick(&["-", "0", "1", "9", "10", "11", "29", "30", "31", "32", "100"]);
                let after = match rng.below(6) {
                    0 => "-".to_string(),
                    1 => "cosmwasm1m".to_string(),
                    2 => INVALID_ADDR.to_string(),
                    3 => rng.pick(&self.pool).to_string(),
                    _ => rng.pick(&sorted).to_string(),
                };
                Some(if rng.chance(3, 5) {
                    format!("query all_allowances after={after} limit={lim}")
                } else {
                    format!("query all_permissions after={after} limit={lim}")
                })
            }
        }
    }

    fn gen_probe_sender(&self, rng: &mut Rng) -> (String, Addr) {
        if rng.chance(1, 20) {
            (format!("-{}", invalid_addr(rng, &self.pool)), Addr::unchecked(INVALID_ADDR))
        } else {
            let s = if self.sub { self.pick_sender(rng, 15, 65) } else { self.pick_sender(rng, 50, 0) };
            // the mark is the real result of addr_validate (the proxy's own mock address does not validate)
            (mark(&MockApi::default(), s.as_str()), s)
        }
    }
}

impl Scenario for Cw1Scen {
    fn start(&mut self, seed: u64, trace: u64) -> String {
        let api = MockApi::default();
        let p = pool(&api, if self.wide { 40 } else { 5 });
        // `me=`: the proxy's own address, a valid address like any other (it can be listed as an admin, be granted an
        // allowance, call itself); a trace without it (older corpus files) keeps `mock_env`'s placeholder, which
        // `addr_validate` refuses
        let header = format!(
            "scenario {} seed={} trace={} pool={} me={}",
            self.name(),
            seed,
            trace,
            p.iter().map(|a| a.to_string()).collect::<Vec<_>>().join(","),
            api.addr_make("proxy")
        );
        self.reset(&header);
        self.story = (seed ^ trace.wrapping_mul(0x9E37_79B9_7F4A_7C15)).rotate_left(17) % 7;
        header
    }

    fn reset(&mut self, header: &str) {
        let a = Args::parse(header);
        self.deps = new_deps();
        self.env = mock_env();
        if let Some(me) = a.opt("me") {
            self.env.contract.address = Addr::unchecked(me);
        }
        self.pool = a.list("pool").into_iter().map(Addr::unchecked).collect();
        self.inited = false;
        self.legacy = false;
        self.seed = a.u64("seed");
    }

    fn gen_op(&mut self, rng: &mut Rng, _step: usize) -> String {
        if !self.inited && self.wide {
            // few admins (an admin cannot be its own subkey), mostly mutable
            self.mode = rng.below(2);
            // now and then an admin set beyond one page of anything (31–35 admins): every listed admin is an admin
            let n = if rng.chance(1, 4) { 31 + rng.below(5) as usize } else { 1 + rng.below(2) as usize };
            let admins: Vec<String> = (0..n).map(|i| format!("+{}", self.pool[i])).collect();
            return format!("inst admins={} mutable={}", admins.join(","), rng.chance(9, 10));
        }
        if self.inited && self.wide && rng.chance(9, 10) {
            if let Some(op) = self.gen_wide_op(rng) {
                return op;
            }
        }
        if !self.inited {
            let mut admins = self.gen_admin_list(rng);
            if admins.is_empty() && rng.chance(3, 4) {
                admins = format!("+{}", self.pool[0]);
            }
            if self.sub && rng.chance(1, 6) {
                // cw2 item as an older / newer / foreign / broken code version left it (`ver=-`: absent)
                let ver = *rng.pick(&[
                    "0.13.4", "1.9.9", "2.0.0", "2.0.0-beta", "2.0.0-alpha", "2.0.1", "3.0.0-rc1", "10.0.0", "1.99.99", "garbage", "1.2", "-",
                ]);
                let name = if rng.chance(1, 4) { "crates.io:cw1-whitelist" } else { "crates.io:cw1-subkeys" };
                // an upgrade path must leave the admin configuration alone, also an unusual one (the proxy lists itself)
                if rng.chance(1, 3) {
                    let me = mark(&MockApi::default(), self.env.contract.address.as_str());
                    admins = if admins.is_empty() { me } else { format!("{admins},{me}") };
                }
                return format!("inst_legacy admins={} mutable={} name={} ver={}", admins, rng.chance(4, 5), name, ver);
            }
            return format!("inst admins={} mutable={}", admins, rng.chance(4, 5));
        }
        if self.sub && (rng.chance(1, 40) || (self.legacy && rng.chance(1, 6))) {
            self.legacy = false;
            return "migrate".to_string();
        }
        // story 0: an admin grants one subkey three denominations, then that subkey spends — in ONE bank send — exactly
        // the whole of one denomination and part of the ones stored after it (twice, so that the books after the first
        // send are used again)
        if self.sub && !self.wide && self.story == 0 && (1..=6).contains(&_step) {
            let admins = self.admins_now();
            let subkey = self.pool.iter().find(|a| !admins.contains(&a.to_string())).cloned();
            if let (Some(adm), Some(sk)) = (admins.first(), subkey) {
                if _step <= 3 {
                    let d = ["ub", "uc", "ua"][_step - 1];
                    return format!("exec {adm} increase_allowance spender=+{sk} amt={} denom={d} expires=-", 3 + rng.below(6));
                }
                let held: Vec<(String, u128)> =
                    self.raw_allowance(&sk).map(|a| a.balance.0.iter().map(|c| (c.denom.clone(), c.amount.u128())).collect()).unwrap_or_default();
                if held.len() >= 2 {
                    let i = rng.below(held.len() as u64 - 1) as usize;
                    let mut v = vec![format!("{}{}", held[i].1, held[i].0)];
                    let j = i + 1 + rng.below((held.len() - i - 1) as u64) as usize;
                    v.push(format!("{}{}", 1.min(held[j].1).max(held[j].1 / 3), held[j].0));
                    let to = rng.pick(&self.pool).clone();
                    return format!("exec {sk} execute msgs=bank/{to}/{}", v.join("+"));
                }
            }
        }
        let r = rng.below(100);
        if r < 8 {
            let dh = *rng.pick(&[0u64, 1, 1, 2, 5]);
            let dt = *rng.pick(&[0u64, 1, 5_000_000_000, 20_000_000_000]);
            return format!("env height={} time={}", self.env.block.height + dh, self.env.block.time.nanos() + dt);
        }
        if !self.sub {
            // ---------------- whitelist
            return if r < 45 {
                let snd = self.pick_sender(rng, 70, 0);
                let n = *rng.pick(&[0usize, 1, 1, 2, 3]);
                let mut msgs: Vec<String> = (0..n).map(|_| self.gen_msg(rng, &snd, false)).collect();
                dup_one(rng, &mut msgs);
                let funds = if rng.chance(1, 8) { format!(" funds={}", self.gen_small_coin(rng)) } else { String::new() };
                format!("exec {snd} execute msgs={}{funds}", msgs.join(";"))
            } else if r < 50 {
                format!("exec {} freeze", self.pick_sender(rng, 60, 0))
            } else if r < 65 {
                format!("exec {} update_admins admins={}", self.pick_sender(rng, 75, 0), self.gen_admin_list(rng))
            } else if r < 75 {
                let (s, who) = self.gen_probe_sender(rng);
                format!("query can_execute sender={} msg={}", s, self.gen_msg(rng, &who, false))
            } else if r < 78 {
                "query admin_list".to_string()
            } else {
                let (s, who) = self.gen_probe_sender(rng);
                format!("probe {} msg={}", s, self.gen_msg(rng, &who, false))
            };
        }
        // ---------------- subkeys
        let admins = self.admins_now();
        let non_admin_pool: Vec<Addr> = self.pool.iter().filter(|a| !admins.contains(&a.to_string())).cloned().collect();
        let gen_spender = |rng: &mut Rng| -> String {
            if rng.chance(1, 25) {
                format!("-{}", invalid_addr(rng, &self.pool))
            } else if !non_admin_pool.is_empty() && rng.chance(5, 6) {
                format!("+{}", rng.pick(&non_admin_pool))
            } else {
                format!("+{}", rng.pick(&self.pool))
            }
        };
        if r < 24 {
            let snd = self.pick_sender(rng, 85, 5);
            let sp = gen_spender(rng);
            let d = *rng.pick(&DENOMS);
            let held = self.held(&Addr::unchecked(addr_text(&sp)), d);
            let amt: u128 = match rng.below(14) {
                0 => 0,
                1 => U128MAX - held,
                2 => (U128MAX - held).saturating_add(1),
                3 => U128MAX,
                _ => 1 + rng.below(300) as u128,
            };
            format!("exec {snd} increase_allowance spender={sp} amt={amt} denom={d} expires={}", self.gen_exp_for(rng, &sp))
        } else if r < 32 {
            let snd = self.pick_sender(rng, 85, 5);
            let subs = self.subkeys_now();
            let sp = if !subs.is_empty() && rng.chance(4, 5) { format!("+{}", rng.pick(&subs)) } else { gen_spender(rng) };
            let spa = Addr::unchecked(addr_text(&sp));
            let held: Vec<String> =
                self.raw_allowance(&spa).map(|a| a.balance.0.iter().map(|c| c.denom.clone()).collect()).unwrap_or_default();
            let d = if !held.is_empty() && rng.chance(5, 6) { rng.pick(&held).clone() } else { rng.pick(&DENOMS).to_string() };
            let amt = self.amount_near(rng, self.held(&spa, &d));
            format!("exec {snd} decrease_allowance spender={sp} amt={amt} denom={d} expires={}", self.gen_exp_for(rng, &sp))
        } else if r < 40 {
            let snd = self.pick_sender(rng, 85, 5);
            let sp = gen_spender(rng);
            let perm = match rng.below(6) {
                0 => "0000".to_string(),
                1 => "1111".to_string(),
                _ => (0..4).map(|_| if rng.chance(3, 5) { '1' } else { '0' }).collect(),
            };
            format!("exec {snd} set_permissions spender={sp} perm={perm}")
        } else if r < 65 {
            let snd = self.pick_sender(rng, 15, 70);
            let n = *rng.pick(&[0usize, 1, 1, 1, 2, 2, 3]);
            let mut msgs: Vec<String> = (0..n).map(|_| self.gen_msg(rng, &snd, true)).collect();
            dup_one(rng, &mut msgs);
            let funds = if rng.chance(1, 8) { format!(" funds={}", self.gen_small_coin(rng)) } else { String::new() };
            format!("exec {snd} execute msgs={}{funds}", msgs.join(";"))
        } else if r < 83 {
            let (s, who) = self.gen_probe_sender(rng);
            format!("probe {} msg={}", s, self.gen_msg(rng, &who, true))
        } else if r < 87 {
            let (s, who) = self.gen_probe_sender(rng);
            format!("query can_execute sender={} msg={}", s, self.gen_msg(rng, &who, true))
        } else if r < 93 {
            let lim = match rng.below(8) {
                0 => "-".to_string(),
                1 => "0".to_string(),
                2 => "31".to_string(),
                3 => "4000000000".to_string(),
                _ => rng.below(5).to_string(),
            };
            let after = match rng.below(5) {
                0 | 1 => "-".to_string(),
                2 => rng.pick(&self.pool).to_string(),
                3 => "cosmwasm1m".to_string(),
                _ => INVALID_ADDR.to_string(),
            };
            match rng.below(5) {
                0 | 1 => format!("query all_allowances after={after} limit={lim}"),
                2 | 3 => format!("query all_permissions after={after} limit={lim}"),
                _ => {
                    if rng.chance(1, 2) {
                        format!("query allowance spender={}", self.gen_addr(rng))
                    } else {
                        format!("query permissions spender={}", self.gen_addr(rng))
                    }
                }
            }
        } else if r < 95 {
            format!("exec {} freeze", self.pick_sender(rng, 50, 10))
        } else {
            format!("exec {} update_admins admins={}", self.pick_sender(rng, 75, 5), self.gen_admin_list(rng))
        }
    }

    /// Small scope: admins p0, p1; subkeys / strangers p2, p3; the proxy's own address `me` as a recipient; coins of
    /// 0/1/2 of `ua` / `ub`; expiries at the current and the next block.
    /// `cw1wl`: variant 0 mutable with admins p0, p1; variant 1 the same list, immutable.
    /// `cw1sk`: variant 0 mutable with admins p0, p1 and nothing granted; variant 1 immutable with the single admin
    /// p0, where p2 already holds `2ua+1ub` until the next block and the permissions delegate + withdraw.
    fn small_scope(&mut self, variant: u64) -> Option<SmallScope> {
        if self.wide || variant > 1 {
            return None;
        }
        let (p0, p1, p2, p3) = (self.pool[0].clone(), self.pool[1].clone(), self.pool[2].clone(), self.pool[3].clone());
        let me = self.env.contract.address.clone();
        let h = self.env.block.height;
        let t = self.env.block.time.nanos();
        let next_block = format!("env height={} time={}", h + 1, t + 5_000_000_000);
        if !self.sub {
            // ---------------- whitelist
            let inst = format!("inst admins=+{p0},+{p1} mutable={}", variant == 0);
            let al = vec![
                format!("exec {p0} execute msgs=bank/{p2}/1ua"),
                format!("exec {p0} execute msgs=bank/{me}/0ua"),
                format!("exec {p1} execute msgs=bank/{p2}/2ua+1ub"),
                format!("exec {p0} execute msgs=bank/{p1}/1ua;stake/delegate/val1/1ua"),
                format!("exec {p1} execute msgs=stake/undelegate/val1/2ua;distr/withdraw/val1"),
                format!("exec {p0} execute msgs=distr/setaddr/{p0}"),
                format!("exec {p0} execute msgs="),
                format!("exec {p2} execute msgs="),
                format!("exec {p2} execute msgs=bank/{p2}/1ua"),
                format!("exec {p0} update_admins admins=+{p0},+{p2}"),
                format!("exec {p0} update_admins admins=+{p1}"),
                format!("exec {p1} update_admins admins=+{p1},+{p1}"),
                format!("exec {p1} update_admins admins="),
                format!("exec {p2} update_admins admins=+{p2}"),
                format!("exec {p0} update_admins admins=+{p0},-{INVALID_ADDR}"),
                format!("exec {p0} freeze"),
                format!("exec {p1} freeze"),
                format!("exec {p2} freeze"),
                next_block,
                format!("query can_execute sender=+{p2} msg=bank/{p2}/1ua"),
                format!("query can_execute sender=+{p0} msg=stake/delegate/val1/1ua"),
                "query admin_list".to_string(),
                format!("probe +{p1} msg=bank/{me}/1ua"),
            ];
            return Some(SmallScope { prefix: vec![inst], alphabet: al });
        }
        // ---------------- subkeys
        let mut al = vec![
            format!("exec {p0} increase_allowance spender=+{p2} amt=1 denom=ua expires=-"),
            format!("exec {p0} increase_allowance spender=+{p2} amt=2 denom=ub expires=h{}", h + 1),
            format!("exec {p0} increase_allowance spender=+{p2} amt=1 denom=ua expires=h{h}"),
            format!("exec {p2} increase_allowance spender=+{p2} amt=2 denom=ua expires=-"),
            format!("exec {p0} decrease_allowance spender=+{p2} amt=1 denom=ua expires=-"),
            format!("exec {p0} decrease_allowance spender=+{p2} amt=2 denom=ua expires=h{}", h + 1),
            format!("exec {p0} set_permissions spender=+{p2} perm=0111"),
            format!("exec {p2} set_permissions spender=+{p2} perm=1111"),
            format!("exec {p2} execute msgs=bank/{p3}/1ua"),
            format!("exec {p2} execute msgs=bank/{me}/1ua+1ub"),
            format!("exec {p2} execute msgs=bank/{p3}/0ua"),
            format!("exec {p2} execute msgs=bank/{p3}/2ua"),
            format!("exec {p2} execute msgs=stake/delegate/val1/1ua"),
            format!("exec {p2} execute msgs=distr/withdraw/val1;bank/{p3}/1ua"),
            format!("exec {p2} execute msgs=stake/undelegate/val1/1ua"),
            format!("exec {p3} execute msgs="),
            format!("exec {p0} execute msgs=bank/{p2}/2ua;distr/setaddr/{p0}"),
            format!("exec {p0} freeze"),
            next_block,
            format!("query can_execute sender=+{p2} msg=bank/{p3}/1ua"),
        ];
        let prefix = if variant == 0 {
            al.push(format!("exec {p0} increase_allowance spender=+{p3} amt=1 denom=ua expires=never"));
            al.push(format!("exec {p0} increase_allowance spender=+{p0} amt=1 denom=ua expires=-"));
            al.push(format!("exec {p0} set_permissions spender=+{p2} perm=1000"));
            al.push(format!("exec {p3} execute msgs=bank/{p2}/1ua"));
            al.push(format!("exec {p0} update_admins admins=+{p1}"));
            al.push(format!("exec {p1} update_admins admins=+{p0},+{p0},+{p2}"));
            al.push(format!("exec {p1} increase_allowance spender=+{p0} amt=1 denom=ua expires=-"));
            al.push(format!("probe +{p2} msg=stake/delegate/val1/1ua"));
            vec![format!("inst admins=+{p0},+{p1} mutable=true")]
        } else {
            al.push(format!("exec {p0} update_admins admins=+{p0},+{p1}"));
            al.push(format!("exec {p1} execute msgs=bank/{p1}/1ua"));
            vec![
                format!("inst admins=+{p0} mutable=false"),
                format!("exec {p0} increase_allowance spender=+{p2} amt=2 denom=ua expires=h{}", h + 1),
                format!("exec {p0} increase_allowance spender=+{p2} amt=1 denom=ub expires=-"),
                format!("exec {p0} set_permissions spender=+{p2} perm=1001"),
            ]
        };
        Some(SmallScope { prefix, alphabet: al })
    }

    fn apply(&mut self, op: &str) -> Vec<String> {
        let a = Args::parse(op);
        let kind = a.pos.first().map(|s| s.as_str()).unwrap_or("");
        match kind {
            "env" => {
                self.env.block.height = a.u64("height");
                self.env.block.time = Timestamp::from_nanos(a.u64("time"));
                vec![]
            }
            "migrate" if self.sub => {
                let snap = self.deps.storage.clone();
                let env = self.env.clone();
                let deps = &mut self.deps;
                let r = catch(move || cw1_subkeys::contract::migrate(deps.as_mut(), env, cosmwasm_std::Empty {}).map_err(|e| e.to_string()));
                let out = match r {
                    Some(Ok(res)) => format!("> ok msgs={}", render_response_msgs(&res)),
                    _ => {
                        self.deps.storage = snap;
                        "> err".to_string()
                    }
                };
                vec![out, self.observe(op)]
            }
            "inst" | "inst_legacy" => {
                let msg = InstantiateMsg {
                    admins: a.list("admins").iter().map(|s| addr_text(s)).collect(),
                    mutable: a.str("mutable") == "true",
                };
                let info = MessageInfo { sender: self.pool[0].clone(), funds: vec![] };
                let snap = self.deps.storage.clone();
                let env = self.env.clone();
                let sub = self.sub;
                let deps = &mut self.deps;
                let r = catch(move || {
                    if sub {
                        cw1_subkeys::contract::instantiate(deps.as_mut(), env, info, msg).map_err(|e| e.to_string())
                    } else {
                        cw1_whitelist::contract::instantiate(deps.as_mut(), env, info, msg).map_err(|e| e.to_string())
                    }
                });
                let out = match r {
                    Some(Ok(_)) => {
                        self.inited = true;
                        if kind == "inst_legacy" {
                            // what an older (or foreign) code version left in the cw2 item
                            match a.opt("ver") {
                                Some(v) => cw2::set_contract_version(&mut self.deps.storage, a.str("name"), v).unwrap(),
                                None => cosmwasm_std::Storage::remove(&mut self.deps.storage, b"contract_info"),
                            }
                            self.legacy = true;
                        }
                        "> ok".to_string()
                    }
                    _ => {
                        self.deps.storage = snap;
                        "> err".to_string()
                    }
                };
                vec![out, self.observe(op)]
            }
            "exec" => {
                let snd = Addr::unchecked(a.pos.get(1).cloned().unwrap_or_default());
                let k = a.pos.get(2).cloned().unwrap_or_default();
                let r = self.tx(&snd, &k, &a);
                vec![r, self.observe(op)]
            }
            "probe" => {
                // CanExecute and Execute{[msg]} on the very same state; the storage is restored whatever happens
                let sender = addr_text(&a.pos.get(1).cloned().unwrap_or_default());
                let text = a.str("msg");
                let msg = match parse_msg(&text) {
                    Some(m) => m,
                    None => return vec!["> err badmsg=1".to_string(), self.observe(op)],
                };
                let snap = self.deps.storage.clone();
                let can = match self.can_execute(&sender, msg.clone()) {
                    Some(true) => "true",
                    Some(false) => "false",
                    None => "err",
                };
                let mut a2 = Args::parse("");
                a2.kv.push(("msgs".to_string(), text.clone()));
                let exec = match self.run_exec(&Addr::unchecked(sender), "execute", &a2) {
                    Some(Ok(_)) => "ok",
                    _ => "err",
                };
                self.deps.storage = snap;
                vec![format!("> ok can={can} exec={exec}"), self.observe(op)]
            }
            "query" => {
                let k = a.pos.get(1).map(|s| s.as_str()).unwrap_or("");
                let after = a.opt("after");
                let limit = a.opt_u32("limit");
                let res: Option<String> = match k {
                    "can_execute" => match parse_msg(&a.str("msg")) {
                        Some(m) => self.can_execute(&addr_text(&a.str("sender")), m).map(|b| b.to_string()),
                        None => None,
                    },
                    "admin_list" => self.admin_list().map(|r| format!("{}:{}", r.mutable, r.admins.join(","))),
                    "allowance" if self.sub => self.q_allowance(&addr_text(&a.str("spender"))).map(|x| render_allowance(&x)),
                    "permissions" if self.sub => self.q_permissions(&addr_text(&a.str("spender"))).map(|x| render_perm(&x)),
                    "all_allowances" if self.sub => self.q_all_allowances(after, limit).map(|v| v.join(",")),
                    "all_permissions" if self.sub => self.q_all_permissions(after, limit).map(|v| v.join(",")),
                    _ => None,
                };
                match res {
                    Some(r) => vec![format!("> ok result={r}")],
                    None => vec!["> err".to_string()],
                }
            }
            _ => vec![],
        }
    }
}
