//! Scenario `cw4group`: the real `cw4_group` entry points in direct mode.
//!
//! Op lines:
//!   inst admin=<+a|-text|-> members=<+a:w,…>
//!   exec <snd> update_admin admin=<+a|-text|->
//!   exec <snd> update_members remove=<+a,…> add=<+a:w,…>
//!   exec <snd> add_hook addr=<+a|-text>      exec <snd> remove_hook addr=<+a|-text>
//!   query member addr=<+a|-text> at=<h|->    query total_weight at=<h|->
//!   query list_members after=<+a|-text|-> limit=<n|->    query admin    query hooks
//!
//! Observation (all through the contract's own queries, plus the raw keys the cw4 spec publishes):
//!   admin hooks members total  mh=<addr>@<h>:<w|->,…  th=<h>:<w>,…  rawtotal=<n|->  rawmem=<addr>:<w|->,…
//!   hs=<h>,… (recorded heights)  mlog=<addr>@<h>:<old|->,…  tlog=<h>:<old|->,…  (raw dumps of the two snapshot
//!   changelogs: with them the observation determines the whole state — model resynchronisation)
//!   rawkeys=T.<hex TOTAL_KEY>/M.<hex member_key(p0)>+<hex member_key(p1)>/P.<hex MEMBERS.key(p0)>+<..p1>/D.<dump>/C.<dump>
//!   (the byte layout of the storage itself, compared with `encode` of the Lean model state: `render_raw_keys`)
// SCENARIO cw4group crate::scen_cw4group::GroupScen::new()
// SCENARIO cw4groupwide crate::scen_cw4group::GroupScen::new_wide()
//
// `cw4groupwide` (C20): a pool of 36 addresses, member lists of 0–36, UpdateMembers adding many at once and
// frequent explicit `query list_members` ops, so the listing exceeds the default and the maximum page size.
// Header field `wide=1`: the at-height probes (`mh`, `th`) use only the last 3 recorded heights (plus h0-1,
// current, current+1) — the Lean driver does the same.
use crate::common::*;
use cosmwasm_std::testing::{mock_env, MockApi, MockQuerier};
use cosmwasm_std::{
    from_json, Addr, CosmosMsg, Env, MessageInfo, Order, OwnedDeps, ReplyOn, Response, Storage, Timestamp, WasmMsg,
};
use cw4_group::state::{MEMBERS, TOTAL};
use cw4::{Member, MemberChangedHookMsg, MemberListResponse, MemberResponse, TotalWeightResponse};
use cw4_group::contract::{execute, instantiate, query};
use cw4_group::msg::{ExecuteMsg, InstantiateMsg, QueryMsg};
use cw4_group::ContractError;
use cw_controllers::{AdminResponse, HooksResponse};
use std::collections::{BTreeMap, BTreeSet};
use std::marker::PhantomData;

type Deps = OwnedDeps<MemStore, MockApi, MockQuerier>;

pub struct GroupScen {
    deps: Deps,
    env: Env,
    pool: Vec<Addr>,
    inited: bool,
    seed: u64,
    /// instantiation height
    h0: u64,
    /// heights at which an `inst`/`exec` op succeeded since instantiation
    heights: BTreeSet<u64>,
    /// `cw4groupwide`: 36 addresses (C20)
    wide: bool,
    /// generator (wide): this trace registers more than 30 hooks
    hookfill: bool,
}

fn new_deps() -> Deps {
    OwnedDeps {
        storage: MemStore::default(),
        api: MockApi::default(),
        querier: MockQuerier::default(),
        custom_query_type: PhantomData,
    }
}

/// `+addr:weight` / `-text:weight` (split at the last colon)
fn parse_member(e: &str) -> Member {
    let mut p = e.rsplitn(2, ':');
    let w: u64 = p.next().unwrap().parse().unwrap_or(0);
    let addr = addr_text(p.next().unwrap_or(""));
    Member { addr, weight: w }
}

/// The observation field `rawkeys` (cw4-group and cw4-stake; Lean side: `RawStore.renderRawKeys` applied to
/// `encode` of the model state, `Base/RawStore.lean`, `Model/Cw4Raw.lean`).  It ties the model's byte layout of
/// the storage to the real one:
///   T.<hex>      `cw4::TOTAL_KEY.as_bytes()`
///   M.<hex>+..   `cw4::member_key(addr)` of the probe addresses (what the cw4 spec publishes for raw queries)
///   P.<hex>+..   `MEMBERS.key(&addr)` of the same addresses (what cw-storage-plus really uses)
///   D.<dump>     every entry of the contract's storage outside the two snapshot changelogs, ascending by key:
///                `<hex key>:<hex value>`, or `<hex key>:*` for a value whose JSON text the model does not render
///                (exact: TOTAL, MEMBERS, STAKE; `*`: admin, hooks, config, claims, cw2 contract_info, anything else)
///   C.<dump>     the entries of `members__changelog` / `total__changelog` (`<hex key>:<hex value>`), in full up
///                to 16 entries, else `#<count>.<fnv1a-64 of the full text>`
/// Not shown (the model state does not record whether these keys exist, see `Model/Cw4Raw.lean`): a `cw4-hooks`
/// item holding `[]`, a STAKE entry holding `"0"`, a CLAIMS entry holding `[]`.
/// Keys that belong to none of the storage items the model knows (a rewrite of the contract may add bookkeeping of
/// its own) go to the separate field `rawextra` (`<hex key>,…`, normally empty), which is in no property's slice: an
/// additional key does not change what a raw read of the published keys returns.
pub fn render_raw_keys(data: &BTreeMap<Vec<u8>, Vec<u8>>, member_keys: &[Vec<u8>], primary_keys: &[Vec<u8>]) -> (String, String) {
    use cosmwasm_std::storage_keys::to_length_prefixed;
    // lower-case hex (as `common::hex`, without a `format!` per byte: this runs over the whole storage after every op)
    fn hex(b: &[u8]) -> String {
        const D: &[u8; 16] = b"0123456789abcdef";
        let mut s = String::with_capacity(2 * b.len());
        for x in b {
            s.push(D[(x >> 4) as usize] as char);
            s.push(D[(x & 15) as usize] as char);
        }
        s
    }
    let members = to_length_prefixed(cw4::MEMBERS_KEY.as_bytes());
    let members_log = to_length_prefixed(cw4::MEMBERS_CHANGELOG.as_bytes());
    let total_log = to_length_prefixed(cw4::TOTAL_KEY_CHANGELOG.as_bytes());
    let stake = to_length_prefixed(b"stake");
    let claims = to_length_prefixed(b"claims");
    let mut prim: Vec<String> = vec![];
    let mut logs: Vec<String> = vec![];
    let mut extra: Vec<String> = vec![];
    // a BTreeMap iterates in ascending byte order of the keys
    for (k, v) in data {
        if (k.as_slice() == b"cw4-hooks" && v.as_slice() == b"[]")
            || (k.starts_with(&stake) && v.as_slice() == b"\"0\"")
            || (k.starts_with(&claims) && v.as_slice() == b"[]")
        {
            continue;
        }
        if k.starts_with(&members_log) || k.starts_with(&total_log) {
            logs.push(format!("{}:{}", hex(k), hex(v)));
        } else if k.as_slice() == cw4::TOTAL_KEY.as_bytes() || k.starts_with(&members) || k.starts_with(&stake) {
            prim.push(format!("{}:{}", hex(k), hex(v)));
        } else if [&b"contract_info"[..], b"admin", b"cw4-hooks", b"config"].contains(&k.as_slice()) || k.starts_with(&claims) {
            prim.push(format!("{}:*", hex(k)));
        } else {
            extra.push(hex(k));
        }
    }
    let logs_text = logs.join(",");
    let c = if logs.len() <= 16 { logs_text } else { format!("#{}.{:016x}", logs.len(), hash_str(&logs_text)) };
    let hexes = |ks: &[Vec<u8>]| ks.iter().map(|k| hex(k)).collect::<Vec<_>>().join("+");
    let keys = format!(
        "T.{}/M.{}/P.{}/D.{}/C.{}",
        hex(cw4::TOTAL_KEY.as_bytes()),
        hexes(member_keys),
        hexes(primary_keys),
        prim.join(","),
        c
    );
    (keys, extra.join(","))
}

impl GroupScen {
    pub fn new() -> Self {
        GroupScen {
            deps: new_deps(),
            env: mock_env(),
            pool: vec![],
            inited: false,
            seed: 0,
            h0: 0,
            heights: BTreeSet::new(),
            wide: false,
            hookfill: false,
        }
    }

    pub fn new_wide() -> Self {
        let mut s = Self::new();
        s.wide = true;
        s
    }

    fn q<T: serde::de::DeserializeOwned>(&self, msg: QueryMsg) -> Option<T> {
        let r = catch(|| query(self.deps.as_ref(), self.env.clone(), msg));
        match r {
            Some(Ok(b)) => from_json(&b).ok(),
            _ => None,
        }
    }

    fn admin(&self) -> Option<String> {
        self.q::<AdminResponse>(QueryMsg::Admin {}).and_then(|r| r.admin)
    }

    fn hooks(&self) -> Vec<String> {
        self.q::<HooksResponse>(QueryMsg::Hooks {}).map(|r| r.hooks).unwrap_or_default()
    }

    fn weight(&self, a: &str, at: Option<u64>) -> Option<u64> {
        self.q::<MemberResponse>(QueryMsg::Member { addr: a.to_string(), at_height: at }).and_then(|r| r.weight)
    }

    fn total(&self, at: Option<u64>) -> Option<u64> {
        self.q::<TotalWeightResponse>(QueryMsg::TotalWeight { at_height: at }).map(|r| r.weight)
    }

    /// All members by paging with `limit`; the cursor is the last returned address.
    fn list_all(&self, limit: Option<u32>) -> Vec<Member> {
        let mut out: Vec<Member> = vec![];
        let mut cursor: Option<String> = None;
        let mut guard = WalkGuard::default();
        for _ in 0..MAX_WALK_PAGES {
            match self.q::<MemberListResponse>(QueryMsg::ListMembers { start_after: cursor.clone(), limit }) {
                Some(p) if !p.members.is_empty() => {
                    let next = Some(p.members.last().unwrap().addr.clone());
                    out.extend(p.members);
                    if next == cursor || !guard.fresh(&next) {
                        break; // no progress (a defect in the code under test): do not walk forever
                    }
                    cursor = next;
                }
                _ => break,
            }
        }
        out
    }

    fn probe_heights(&self) -> Vec<u64> {
        let mut hs: BTreeSet<u64> = if self.wide {
            // wide: only the 3 most recent recorded heights
            self.heights.iter().rev().take(3).cloned().collect()
        } else {
            self.heights.clone()
        };
        hs.insert(self.h0.saturating_sub(1));
        hs.insert(0); // height 0 is a height like any other, not a synonym of "latest"
        hs.insert(self.env.block.height);
        hs.insert(self.env.block.height + 1);
        hs.into_iter().collect()
    }

    fn observe(&self, salt: &str) -> String {
        if !self.inited {
            return "obs uninit=1".to_string();
        }
        let mut rng = Rng::new(hash_str(salt) ^ self.seed);
        let limit = match rng.below(7) {
            0 => None,
            1 => Some(1),
            2 => Some(2),
            3 => Some(3),
            4 => Some(30),
            5 => Some(4_000_000_000),
            _ => Some(5),
        };
        let members: Vec<String> = self.list_all(limit).iter().map(|m| format!("{}:{}", m.addr, m.weight)).collect();
        let total = self.total(None).map(|t| t.to_string()).unwrap_or("?".into());
        let hs = self.probe_heights();
        let mut mh = vec![];
        for a in &self.pool {
            for h in &hs {
                mh.push(format!("{}@{}:{}", a, h, opt_str(&self.weight(a.as_str(), Some(*h)))));
            }
        }
        let th: Vec<String> =
            hs.iter().map(|h| format!("{}:{}", h, self.total(Some(*h)).map(|t| t.to_string()).unwrap_or("?".into()))).collect();
        // raw reads of the keys published by the cw4 spec (what `WasmQuery::Raw` returns)
        let rawtotal: Option<u64> = self.deps.storage.get(cw4::TOTAL_KEY.as_bytes()).and_then(|b| from_json(&b).ok());
        let rawmem: Vec<String> = self
            .pool
            .iter()
            .map(|a| {
                let v: Option<u64> = self.deps.storage.get(&cw4::member_key(a.as_str())).and_then(|b| from_json(&b).ok());
                format!("{}:{}", a, opt_str(&v))
            })
            .collect();
        // raw dumps of the two snapshot changelogs (by address, then height) and the recorded heights:
        // with them the observation determines the whole contract state (the Lean driver can rebuild its
        // model from it after a disagreement)
        let mut mlog: Vec<(String, u64, Option<u64>)> = MEMBERS
            .changelog()
            .range(&self.deps.storage, None, None, Order::Ascending)
            .filter_map(|r| r.ok())
            .map(|((a, h), cs)| (a.to_string(), h, cs.old))
            .collect();
        mlog.sort();
        let mlog: Vec<String> = mlog.iter().map(|(a, h, o)| format!("{}@{}:{}", a, h, opt_str(o))).collect();
        let mut tlog: Vec<(u64, Option<u64>)> = TOTAL
            .changelog()
            .range(&self.deps.storage, None, None, Order::Ascending)
            .filter_map(|r| r.ok())
            .map(|(h, cs)| (h, cs.old))
            .collect();
        tlog.sort();
        let tlog: Vec<String> = tlog.iter().map(|(h, o)| format!("{}:{}", h, opt_str(o))).collect();
        let hs: Vec<String> = self.heights.iter().map(|h| h.to_string()).collect();
        let pool_s: Vec<String> = self.pool.iter().map(|a| a.to_string()).collect();
        let pagediff = paging_audit_cursors("list_members", &|c, l| {
            self.q::<MemberListResponse>(QueryMsg::ListMembers { start_after: c, limit: l })
                .map(|r| r.members.iter().map(|m| format!("{}:{}", m.addr, m.weight)).collect())
        }, &pool_s)
        .unwrap_or_default();
        // the byte layout itself: published keys, the keys cw-storage-plus uses, and a dump of the storage
        let probes: Vec<&Addr> = self.pool.iter().take(2).collect();
        let member_keys: Vec<Vec<u8>> = probes.iter().map(|a| cw4::member_key(a.as_str())).collect();
        let primary_keys: Vec<Vec<u8>> = probes.iter().map(|a| MEMBERS.key(*a).to_vec()).collect();
        let (rawkeys, rawextra) = render_raw_keys(&self.deps.storage.data, &member_keys, &primary_keys);
        format!(
            "obs pagediff={} admin={} hooks={} members={} total={} mh={} th={} rawtotal={} rawmem={} hs={} mlog={} tlog={} rawkeys={} rawextra={}",
            pagediff,
            opt_str(&self.admin()),
            self.hooks().join(","),
            members.join(","),
            total,
            mh.join(","),
            th.join(","),
            opt_str(&rawtotal),
            rawmem.join(","),
            hs.join(","),
            mlog.join(","),
            tlog.join(","),
            rawkeys,
            rawextra
        )
    }

    fn render_msgs(res: &Response) -> String {
        #[derive(serde::Deserialize)]
        #[serde(rename_all = "snake_case")]
        enum Wrap {
            MemberChangedHook(MemberChangedHookMsg),
        }
        let mut v = vec![];
        for m in &res.messages {
            let extra = if m.reply_on != ReplyOn::Never || m.gas_limit.is_some() { "/reply" } else { "" };
            match &m.msg {
                CosmosMsg::Wasm(WasmMsg::Execute { contract_addr, msg, funds }) => match from_json::<Wrap>(msg) {
                    Ok(Wrap::MemberChangedHook(h)) => {
                        let ds: Vec<String> =
                            h.diffs.iter().map(|d| format!("{}:{}:{}", d.key, opt_str(&d.old), opt_str(&d.new))).collect();
                        v.push(format!(
                            "hook/{}/{}{}{}",
                            contract_addr,
                            ds.join("+"),
                            if funds.is_empty() { "" } else { "/funds" },
                            extra
                        ))
                    }
                    Err(_) => v.push("wasm?".to_string()),
                },
                _ => v.push("other".to_string()),
            }
        }
        v.join(";")
    }

    /// The bytes of `WasmMsg::Execute.msg` of every emitted message, hex, `+`-separated (`-`: not a wasm execute):
    /// compared byte for byte with the model's `MsgWire.encodeHook`.
    fn render_hookraw(res: &Response) -> String {
        let v: Vec<String> = res
            .messages
            .iter()
            .map(|m| match &m.msg {
                CosmosMsg::Wasm(WasmMsg::Execute { msg, .. }) => hex(msg.as_slice()),
                _ => "-".to_string(),
            })
            .collect();
        v.join("+")
    }

    fn tx(&mut self, f: impl FnOnce(&mut Deps, Env) -> Result<Response, ContractError>) -> String {
        let snap = self.deps.storage.clone();
        let env = self.env.clone();
        let deps = &mut self.deps;
        let r = catch(move || f(deps, env));
        match r {
            Some(Ok(res)) => format!("> ok msgs={} hookraw={}", Self::render_msgs(&res), Self::render_hookraw(&res)),
            Some(Err(_)) => {
                self.deps.storage = snap;
                "> err".to_string()
            }
            None => {
                self.deps.storage = snap;
                "> err panic=1".to_string()
            }
        }
    }

    fn gen_addr(&self, rng: &mut Rng, invalid_in: u64) -> String {
        if rng.chance(1, invalid_in) {
            format!("-{}", invalid_addr(rng, &self.pool))
        } else {
            format!("+{}", rng.pick(&self.pool))
        }
    }

    /// A weight for `addr` chosen relative to the current state.
    fn gen_weight(&self, rng: &mut Rng, addr: &str) -> u64 {
        let cur = self.weight(addr, None);
        let total = self.total(None).unwrap_or(0);
        let room = (u64::MAX - total).saturating_add(cur.unwrap_or(0)); // largest weight that still fits
        match rng.below(24) {
            0 | 1 => 0,
            2 | 3 | 4 => cur.unwrap_or(1), // re-weight to the same value
            5 => cur.unwrap_or(0).saturating_add(1),
            6 => cur.unwrap_or(1).saturating_sub(1),
            7 => room,
            8 => room.saturating_add(1),
            9 => room.saturating_sub(1),
            10 => *rng.pick(&[u64::MAX, u64::MAX - 1, 1u64 << 63, (1u64 << 63) - 1, 1u64 << 32]),
            11 => room / 2,
            _ => 1 + rng.below(40),
        }
    }

    fn gen_inst(&self, rng: &mut Rng) -> String {
        let admin = match rng.below(30) {
            0 | 1 => "-".to_string(),
            2 => format!("-{}", invalid_addr(rng, &self.pool)),
            3..=20 => format!("+{}", self.pool[0]),
            _ => format!("+{}", rng.pick(&self.pool)),
        };
        let n = if self.wide { rng.below(self.pool.len() as u64 + 1) as usize } else { rng.below(7) as usize };
        let mut ms = vec![];
        let mut sum: u64 = 0;
        let start = rng.below(self.pool.len() as u64) as usize;
        for i in 0..n {
            let a = if rng.chance(1, 14) {
                self.gen_addr(rng, 3) // possibly a duplicate or an invalid address
            } else {
                format!("+{}", self.pool[(start + i * 5) % self.pool.len()]) // distinct, unsorted
            };
            let w: u64 = match if self.wide && rng.chance(19, 20) { 11 } else { rng.below(12) } {
                0 | 1 => 0,
                2 => u64::MAX - sum,
                3 => (u64::MAX - sum).saturating_add(rng.below(2)).max(1),
                4 => *rng.pick(&[u64::MAX, 1u64 << 63, (1u64 << 63) - 1]),
                5 => (u64::MAX - sum) / 2,
                _ => 1 + rng.below(50),
            };
            sum = sum.saturating_add(w);
            ms.push(format!("{a}:{w}"));
        }
        format!("inst admin={} members={}", admin, ms.join(","))
    }

    /// wide: an explicit page request; cursor = an existing member, any pool address, a non-key string or none
    fn gen_page_query(&self, rng: &mut Rng) -> String {
        let lim = *rng.pick(&["-", "0", "1", "9", "10", "11", "29", "30", "31", "32", "100"]);
        let members = self.list_all(Some(30));
        let after = match rng.below(8) {
            0 | 1 => "-".to_string(),
            2 => format!("+{}", rng.pick(&self.pool)),
            3 => "-cosmwasm1m".to_string(),
            4 if rng.chance(1, 2) => format!("-{}", invalid_addr(rng, &self.pool)),
            _ if !members.is_empty() => format!("+{}", rng.pick(&members).addr),
            _ => "-".to_string(),
        };
        format!("query list_members after={after} limit={lim}")
    }

    fn gen_query(&self, rng: &mut Rng) -> String {
        let hs = self.probe_heights();
        let at = match rng.below(6) {
            0 | 1 => "-".to_string(),
            2 => (self.env.block.height + rng.below(3)).to_string(),
            3 => rng.below(3).to_string(),
            _ => rng.pick(&hs).to_string(),
        };
        match rng.below(10) {
            0..=2 => format!("query member addr={} at={}", self.gen_addr(rng, 12), at),
            3 | 4 => format!("query total_weight at={at}"),
            5 => "query admin".to_string(),
            6 => "query hooks".to_string(),
            _ => {
                let lim = match rng.below(9) {
                    0 => "-".to_string(),
                    1 => "0".to_string(),
                    2 => "31".to_string(),
                    3 => "30".to_string(),
                    4 => "4000000000".to_string(),
                    _ => rng.below(5).to_string(),
                };
                let after = match rng.below(6) {
                    0 | 1 => "-".to_string(),
                    2 => format!("-{}", invalid_addr(rng, &self.pool)),
                    3 => "-cosmwasm1m".to_string(),
                    _ => format!("+{}", rng.pick(&self.pool)),
                };
                format!("query list_members after={after} limit={lim}")
            }
        }
    }
}

impl Scenario for GroupScen {
    fn start(&mut self, seed: u64, trace: u64) -> String {
        let api = MockApi::default();
        let p = pool(&api, if self.wide { 36 } else { 6 });
        let header = format!(
            "scenario {} seed={} trace={} pool={}",
            if self.wide { "cw4groupwide wide=1" } else { "cw4group" },
            seed,
            trace,
            p.iter().map(|a| a.to_string()).collect::<Vec<_>>().join(",")
        );
        self.reset(&header);
        self.hookfill = self.wide && trace % 4 == 0;
        header
    }

    fn reset(&mut self, header: &str) {
        let a = Args::parse(header);
        self.deps = new_deps();
        self.env = mock_env();
        self.pool = a.list("pool").into_iter().map(Addr::unchecked).collect();
        self.inited = false;
        self.seed = a.u64("seed");
        self.h0 = 0;
        self.heights = BTreeSet::new();
        self.wide = a.get("wide") == Some("1");
    }

    fn gen_op(&mut self, rng: &mut Rng, _step: usize) -> String {
        if !self.inited {
            if rng.chance(1, 6) {
                let dh = *rng.pick(&[0u64, 1, 3]);
                return format!("env height={} time={}", self.env.block.height + dh, self.env.block.time.nanos() + dh * 5_000_000_000);
            }
            return self.gen_inst(rng);
        }
        let r = rng.below(100);
        if r < 16 {
            // same block (0), next block, several blocks later; never backwards
            let dh = *rng.pick(&[0u64, 1, 1, 1, 2, 3, 7]);
            return format!("env height={} time={}", self.env.block.height + dh, self.env.block.time.nanos() + dh * 5_000_000_000);
        }
        if r < 26 {
            return self.gen_query(rng);
        }
        if self.wide && r < 50 {
            return self.gen_page_query(rng);
        }
        let admin = self.admin();
        // hook-fill story (wide, every fourth trace): the admin registers hook after hook until there are 33 — every
        // registered hook hears every change, also the 31st
        if self.hookfill {
            if let Some(a) = &admin {
                let hooks = self.hooks();
                if hooks.len() < 33 && rng.chance(9, 10) {
                    if let Some(h) = self.pool.iter().find(|p| !hooks.contains(&p.to_string())) {
                        return format!("exec {a} add_hook addr=+{h}");
                    }
                }
            }
        }
        let snd = match &admin {
            Some(a) if rng.chance(6, 7) => Addr::unchecked(a.clone()),
            _ => rng.pick(&self.pool).clone(),
        };
        let k = rng.below(100);
        if k < 60 || (self.wide && k < 85) {
            let members = self.list_all(Some(30));
            // adds
            let mut add = vec![];
            let na = if self.wide { *rng.pick(&[0usize, 1, 2, 4, 8, 12, 20, 30, 31, 33, 36]) } else { *rng.pick(&[0usize, 1, 1, 2, 2, 3, 4]) };
            let start = rng.below(self.pool.len() as u64) as usize;
            for i in 0..na {
                let a = if rng.chance(1, if self.wide { 150 } else { 16 }) {
                    self.gen_addr(rng, 3) // duplicate or invalid
                } else {
                    format!("+{}", self.pool[(start + i * 5) % self.pool.len()])
                };
                let w = if self.wide && rng.chance(14, 15) { 1 + rng.below(40) } else { self.gen_weight(rng, &addr_text(&a)) };
                add.push(format!("{a}:{w}"));
            }
            // removes: members, non-members, addresses also being added, repeats
            let mut remove: Vec<String> = vec![];
            let nr = *rng.pick(&[0usize, 0, 1, 1, 2, 3]);
            for _ in 0..nr {
                let a = match rng.below(10) {
                    0..=3 if !members.is_empty() => format!("+{}", rng.pick(&members).addr),
                    4 | 5 if !add.is_empty() => rng.pick(&add).rsplitn(2, ':').nth(1).unwrap().to_string(),
                    6 if !remove.is_empty() => rng.pick(&remove).clone(),
                    _ => self.gen_addr(rng, 25),
                };
                remove.push(a);
            }
            format!("exec {snd} update_members remove={} add={}", remove.join(","), add.join(","))
        } else if k < 70 {
            let new = match rng.below(24) {
                0 => "-".to_string(),
                1 => format!("-{}", invalid_addr(rng, &self.pool)),
                2..=5 => format!("+{snd}"),
                _ => format!("+{}", rng.pick(&self.pool)),
            };
            format!("exec {snd} update_admin admin={new}")
        } else if k < 86 {
            format!("exec {snd} add_hook addr={}", self.gen_addr(rng, 20))
        } else {
            let hooks = self.hooks();
            let a = if !hooks.is_empty() && rng.chance(3, 4) { format!("+{}", rng.pick(&hooks)) } else { self.gen_addr(rng, 15) };
            format!("exec {snd} remove_hook addr={a}")
        }
    }

    /// Small scope: admin p0, members p0:1 and p1 (2 or 0), p2 the address that joins, p3/p4 hook addresses.
    /// Variant 0: p1 has weight 2, hook p3 is registered, and the world has left the instantiation block
    /// (so the first change of a member is recorded against an instantiation-time checkpoint of an earlier block).
    /// Variant 1: p1 is a weight-0 member, no hook, and the sequences start in the instantiation block itself
    /// (smaller alphabet: what differs from variant 0).
    fn small_scope(&mut self, variant: u64) -> Option<SmallScope> {
        if self.wide || variant > 1 {
            return None;
        }
        let (p0, p1, p2, p3, p4) =
            (self.pool[0].clone(), self.pool[1].clone(), self.pool[2].clone(), self.pool[3].clone(), self.pool[4].clone());
        let h = self.env.block.height;
        let t = self.env.block.time.nanos();
        let env = |d: u64| format!("env height={} time={}", h + d, t + d * 5_000_000_000);
        if variant == 0 {
            let prefix =
                vec![format!("inst admin=+{p0} members=+{p0}:1,+{p1}:2"), format!("exec {p0} add_hook addr=+{p3}"), env(1)];
            let al = vec![
                // adds: new member, re-weight to 0, re-weight to the same value
                format!("exec {p0} update_members remove= add=+{p2}:1"),
                format!("exec {p0} update_members remove= add=+{p1}:0"),
                format!("exec {p0} update_members remove= add=+{p1}:2"),
                // removes: member, non-member
                format!("exec {p0} update_members remove=+{p1} add="),
                format!("exec {p0} update_members remove=+{p2} add="),
                // the same address added and removed: member, non-member
                format!("exec {p0} update_members remove=+{p1} add=+{p1}:3"),
                format!("exec {p0} update_members remove=+{p2} add=+{p2}:2"),
                // duplicate adds
                format!("exec {p0} update_members remove= add=+{p2}:1,+{p2}:2"),
                // by p1: not the admin unless `update_admin admin=+p1` came first
                format!("exec {p1} update_members remove=+{p0} add=+{p1}:5"),
                format!("exec {p0} add_hook addr=+{p4}"),
                format!("exec {p0} add_hook addr=+{p3}"),
                format!("exec {p0} remove_hook addr=+{p3}"),
                format!("exec {p0} remove_hook addr=+{p4}"),
                format!("exec {p1} add_hook addr=+{p4}"),
                format!("exec {p0} update_admin admin=+{p1}"),
                format!("exec {p0} update_admin admin=-"),
                format!("exec {p1} update_admin admin=+{p0}"),
                env(2),
                format!("query member addr=+{p1} at={}", h + 1),
                format!("query member addr=+{p2} at={}", h + 2),
                format!("query total_weight at={}", h + 2),
                format!("query list_members after=+{p0} limit=1"),
            ];
            Some(SmallScope { prefix, alphabet: al })
        } else {
            let prefix = vec![format!("inst admin=+{p0} members=+{p0}:1,+{p1}:0")];
            let al = vec![
                format!("exec {p0} update_members remove= add=+{p2}:0"),
                format!("exec {p0} update_members remove= add=+{p1}:0"),
                format!("exec {p0} update_members remove= add=+{p1}:1"),
                format!("exec {p0} update_members remove=+{p1} add="),
                format!("exec {p0} update_members remove=+{p0},+{p0} add="),
                format!("exec {p0} update_members remove=+{p1} add=+{p1}:0"),
                format!("exec {p0} update_members remove=+{p2} add=+{p2}:2"),
                format!("exec {p0} update_members remove=-{INVALID_ADDR} add=+{p2}:1"),
                format!("exec {p2} update_members remove= add=+{p2}:1"),
                format!("exec {p0} add_hook addr=+{p3}"),
                format!("exec {p0} remove_hook addr=+{p3}"),
                format!("exec {p2} remove_hook addr=+{p3}"),
                format!("exec {p0} update_admin admin=+{p2}"),
                format!("exec {p0} update_admin admin=-"),
                env(1),
                format!("query member addr=+{p1} at={h}"),
                format!("query member addr=+{p1} at={}", h + 1),
                format!("query total_weight at={}", h + 1),
                format!("query list_members after=- limit=-"),
            ];
            Some(SmallScope { prefix, alphabet: al })
        }
    }

    fn apply(&mut self, op: &str) -> Vec<String> {
        let a = Args::parse(op);
        let kind = a.pos.first().map(|s| s.as_str()).unwrap_or("");
        match kind {
            "env" => {
                self.env.block.height = a.u64("height");
                self.env.block.time = Timestamp::from_nanos(a.u64("time"));
                vec![]
            }
            "inst" => {
                if self.inited {
                    return vec!["> err twice=1".to_string(), self.observe(op)];
                }
                let msg = InstantiateMsg {
                    admin: a.opt("admin").map(|s| addr_text(&s)),
                    members: a.list("members").iter().map(|e| parse_member(e)).collect(),
                };
                let info = MessageInfo { sender: self.pool[0].clone(), funds: vec![] };
                let r = self.tx(|d, e| instantiate(d.as_mut(), e, info, msg));
                if r.starts_with("> ok") {
                    self.inited = true;
                    self.h0 = self.env.block.height;
                    self.heights = BTreeSet::new();
                    self.heights.insert(self.h0);
                }
                vec![r.split(" msgs=").next().unwrap().to_string(), self.observe(op)]
            }
            "exec" => {
                let snd = Addr::unchecked(a.pos.get(1).cloned().unwrap_or_default());
                let k = a.pos.get(2).map(|s| s.as_str()).unwrap_or("");
                let msg = match k {
                    "update_admin" => ExecuteMsg::UpdateAdmin { admin: a.opt("admin").map(|s| addr_text(&s)) },
                    "update_members" => ExecuteMsg::UpdateMembers {
                        remove: a.list("remove").iter().map(|s| addr_text(s)).collect(),
                        add: a.list("add").iter().map(|e| parse_member(e)).collect(),
                    },
                    "add_hook" => ExecuteMsg::AddHook { addr: addr_text(&a.str("addr")) },
                    "remove_hook" => ExecuteMsg::RemoveHook { addr: addr_text(&a.str("addr")) },
                    _ => return vec!["> err badop=1".to_string(), self.observe(op)],
                };
                let info = MessageInfo { sender: snd, funds: vec![] };
                let r = self.tx(|d, e| execute(d.as_mut(), e, info, msg));
                if self.inited && r.starts_with("> ok") {
                    self.heights.insert(self.env.block.height);
                }
                vec![r, self.observe(op)]
            }
            "query" => {
                let k = a.pos.get(1).map(|s| s.as_str()).unwrap_or("");
                let at = a.opt_u64("at");
                let res: Option<String> = match k {
                    "member" => self
                        .q::<MemberResponse>(QueryMsg::Member { addr: addr_text(&a.str("addr")), at_height: at })
                        .map(|r| opt_str(&r.weight)),
                    "total_weight" => {
                        self.q::<TotalWeightResponse>(QueryMsg::TotalWeight { at_height: at }).map(|r| r.weight.to_string())
                    }
                    "list_members" => self
                        .q::<MemberListResponse>(QueryMsg::ListMembers {
                            start_after: a.opt("after").map(|s| addr_text(&s)),
                            limit: a.opt_u32("limit"),
                        })
                        .map(|r| r.members.iter().map(|m| format!("{}:{}", m.addr, m.weight)).collect::<Vec<_>>().join(",")),
                    "admin" => self.q::<AdminResponse>(QueryMsg::Admin {}).map(|r| opt_str(&r.admin)),
                    "hooks" => self.q::<HooksResponse>(QueryMsg::Hooks {}).map(|r| r.hooks.join(",")),
                    _ => None,
                };
                match res {
                    Some(r) => vec![format!("> ok result={r}")],
                    None => vec!["> err".to_string()],
                }
            }
            _ => vec![],
        }
    }
}
