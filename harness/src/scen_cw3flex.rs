//! Scenario `cw3flex`: the real `cw3-flex-multisig`, `cw4-group`, `cw20-base` (deposit token) and the
//! bank of cw-multi-test 2.0.0 in APP MODE (real message dispatch, funds, rollback of failed transactions).
//! The protocol below is the contract with `lean/CwPlus/CwPlus/Driver/Cw3Flex.lean`; the same text is in
//! `docs/proto_cw3flex.md`.
// SCENARIO cw3flex crate::scen_cw3flex::FlexScen::new()
// SCENARIO cw3flexwide crate::scen_cw3flex::FlexScen::new_wide()
//
// `cw3flexwide` (C20, header field `wide=1`): a pool of 36, groups of 30–36 members, long voting periods, many cheap
// proposals / many votes on one proposal and frequent explicit page requests, so ListProposals, ReverseProposals,
// ListVotes, ListVoters and the group's ListMembers exceed the default and the maximum page size.  To keep the
// observation affordable, in wide mode `snap` probes only the start heights of the two most recent proposals and
// `pvotes` queries only the voters that the proposal's ListVotes walk returned (the Lean driver does the same).
//
// HEADER   scenario cw3flex seed=<n> trace=<n> pool=<a0,…,a5> cw20=<addr> group=<addr> flex=<addr> ghost=<addr>
//          pool  = the EOA actors; cw20/group/flex = the (deterministic) contract addresses;
//          ghost = a valid address at which no contract lives (target of the `fail` message).
//          Address universe U (point queries, balances) = pool ++ [flex].
//
// OP LINES (tokens are blank separated; `-` = none; `+addr` / `-text` = address literal with the result
//           of addr_validate; native denoms are `ucosm` and `uatom`)
//   env height=<u64> time=<ns>                      sets the block of the following ops (no outcome line)
//   inst members=<+addr:w,…> admin=<addr> hook=<0|1> thr=<THR0> period=<h<n>|t<secs>> executor=<-|member|only:<addr>>
//        deposit=<-|native:<denom>:<amt>:<0|1>|cw20:<amt>:<0|1>|cw20x:<amt>:<0|1>>
//        bank=<addr:ucosm:uatom,…> cw20bal=<addr:amt,…>
//          Builds a fresh world, everything in the current block, all-or-nothing:
//          bank balances `bank` (may list flex); cw20-base with balances `cw20bal` (instance 1);
//          cw4-group with `members`, admin pool[0] (instance 2); cw3-flex with group_addr = group (instance 3);
//          then, by pool[0] on the group: AddHook{flex} if hook=1; UpdateAdmin{admin} if admin ≠ pool[0].
//          `> err` when the flex instantiation is refused (the world stays uninitialised: `obs uninit=1`).
//          THR0 = count:<w> | pct:<atomics> | quorum:<threshold atomics>:<quorum atomics>   (Decimal atomics, 1.0 = 10^18)
//          deposit: trailing 0|1 = refund_failed_proposals; `cw20` uses the deposit token, `cw20x` names an
//          address that is not a cw20 contract (refused).
//   group <snd> update_members add=<+addr:w,…> remove=<+addr,…>     cw4-group UpdateMembers sent by <snd>
//   cw20 <snd> increase_allowance spender=<±addr> amt=<n> | decrease_allowance spender= amt= | transfer to=<±addr> amt=<n>
//   exec <snd> propose title=<s> desc=<s> msgs=<MSGS|-> latest=<h<n>|t<ns>|never|-> funds=<amt><denom>,…|->
//   exec <snd> vote id=<n> vote=<yes|no|abstain|veto>
//   exec <snd> execute id=<n>
//   exec <snd> close id=<n>
//   exec <snd> member_changed_hook                   (diffs = []; <snd> may be the group address)
//   query list_proposals after=<id|-> limit=<n|->        result=<id>:<status>,…
//   query reverse_proposals before=<id|-> limit=<n|->    result=<id>:<status>,…   (descending)
//   query list_votes id=<n> after=<±addr|-> limit=<n|->  result=<voter>:<vote>:<weight>,…
//   query list_voters after=<±addr|-> limit=<n|->        result=<addr>:<w>,…      (flex ListVoters)
//   query list_members after=<±addr|-> limit=<n|->       result=<addr>:<w>,…      (group ListMembers)
//          (queries have an outcome line `> ok result=…` / `> err`, no observation)
//
// MSGS  canonical text of a message list: items joined by `;`, no blanks
//   bank/<to>/<amt><denom>            BankMsg::Send of one coin (from the multisig)
//   self/execute/<id>  self/close/<id>  self/vote/<id>/<vote>     WasmMsg::Execute on the multisig itself
//   group/update/<a>:<w>+<b>:<w>…/<c>+<d>…                       cw4-group UpdateMembers{add, remove} (lists may be empty)
//   fail                              WasmMsg::Execute on `ghost` (always fails)
//   cw20/<token>/transfer_from/<owner>/<recipient>/<amt>          (handler level only: deposit taken)
//   cw20/<token>/transfer/<recipient>/<amt>                       (handler level only: cw20 refund)
//   other                             anything else
//
// OUTCOME
//   > ok msgs=<MSGS>                          flex exec: transaction committed; msgs = messages returned by the
//                                             top-level flex handler (deposit TransferFrom, refund, proposal messages)
//   > err handler=ok tx=err msgs=<MSGS>       the top-level handler returned Ok but a dispatched message failed
//                                             (everything rolled back)
//   > err [panic=1]                           handler refused (or funds could not be moved)
//   > ok | > err                              inst, group, cw20 ops
//
// OBSERVATION (after every op except env; `!err` = the query failed / panicked)
//   pagediff=<text|empty>          the harness' own C20 audit of the five listings (common::paging_audit)
//   thr=<THR>                      Threshold{}; THR = count:<w>:<total> | pct:<p>:<total> | quorum:<t>:<q>:<total>
//   cfg=<THR0>|<period>|<group>|<executor>|<DEP>                  Config{}
//   props=<P>,…   rprops=<P>,… (descending)   pprops=<P>,… (ids 1..n+1; a missing id is `<id>|-`)
//        P = <id>|<status>|<expires>|<THR>|<proposer>|<DEP>|<title>|<desc>|<MSGS>
//        DEP = - | native:<denom>:<amt>:<0|1> | cw20:<token>:<amt>:<0|1>
//        via ListProposals / ReverseProposals (paged with varying limits) / Proposal{id}
//   raw=<id>:<stored status>:<yes>.<no>.<abstain>.<veto>:<start_height>,…      raw storage read of PROPOSALS
//   ph=<id>@<height>,…             block height at which each successful Propose ran (recorded by the harness)
//   votes=<id>:<voter>:<vote>:<weight>,…   ListVotes per proposal (paged);   pvotes= same through Vote{id, voter}, voter ∈ U
//   voters=<addr>:<w>,…            ListVoters (paged);   pvoters=<addr>:<w|->,…   Voter{address}, address ∈ U
//   members=<addr>:<w>,…           group ListMembers (paged);  gtotal=<n>  TotalWeight{};  gadmin=<addr|->;  ghooks=<addr>,…
//   snap=<H>|<total>|<addr>:<w|->|…,…     for every H ∈ {h-1, h, h+1 : h a proposal start height} (ascending):
//                                  TotalWeight{at_height: H}, Member{addr, at_height: H} for addr ∈ U
//   bank=<addr>:<ucosm>:<uatom>,…  addr ∈ U      cw20=<addr>:<balance>,…  addr ∈ U
//   allow=<owner>:<amount>,…       cw20 Allowance{owner, spender: flex}, owner ∈ pool
//   gmlog=<addr>@<height>:<old|->,…   gtlog=<height>:<old|->,…     raw dumps of the group's MEMBERS / TOTAL snapshot
//                                  changelogs (by address, then height): with them the observation determines the
//                                  group state (model resynchronisation, Driver/Common)
use crate::common::*;
use cosmwasm_std::testing::MockApi;
use cosmwasm_std::{
    from_json, to_json_binary, Addr, BankMsg, BlockInfo, Coin, CosmosMsg, Decimal, DepsMut, Empty, Env, MessageInfo,
    Response, Timestamp, Uint128, WasmMsg,
};
use cw20::{AllowanceResponse, BalanceResponse, Cw20Coin, Cw20ExecuteMsg, Cw20QueryMsg, UncheckedDenom};
use cw3::{
    DepositInfo, ProposalListResponse, ProposalResponse, Status, UncheckedDepositInfo, Vote, VoteListResponse,
    VoteResponse, VoterListResponse, VoterResponse,
};
use cw3_fixed_multisig::state::PROPOSALS;
use cw3_flex_multisig::msg::{ExecuteMsg as FlexExec, InstantiateMsg as FlexInst, QueryMsg as FlexQuery};
use cw3_flex_multisig::state::{Config, Executor};
use cw3_flex_multisig::ContractError;
use cw4::{Member, MemberChangedHookMsg, MemberListResponse, MemberResponse, TotalWeightResponse};
use cw4_group::msg::{ExecuteMsg as GroupExec, InstantiateMsg as GroupInst, QueryMsg as GroupQuery};
use cw_multi_test::{App, AppBuilder, Contract, ContractWrapper, Executor as _};
use cw_utils::{Duration, Threshold, ThresholdResponse};
use std::cell::RefCell;

// `UCOSM`: a coin that differs from `ucosm` only in letter case (bank denoms are case sensitive)
const DENOMS: [&str; 3] = ["ucosm", "uatom", "UCOSM"];

thread_local! {
    /// handler-level results of every flex `execute` of the current transaction (DESIGN §2.2: recording wrapper)
    static LOG: RefCell<Vec<Option<Vec<CosmosMsg>>>> = const { RefCell::new(Vec::new()) };
}

fn flex_execute_recording(deps: DepsMut, env: Env, info: MessageInfo, msg: FlexExec) -> Result<Response, ContractError> {
    if call_budget_exhausted() {
        return Err(cosmwasm_std::StdError::generic_err("harness: call budget exhausted (out of gas)").into());
    }
    let r = cw3_flex_multisig::contract::execute(deps, env, info, msg);
    let entry = match &r {
        Ok(resp) => Some(resp.messages.iter().map(|m| m.msg.clone()).collect()),
        Err(_) => None,
    };
    LOG.with(|l| l.borrow_mut().push(entry));
    r
}

fn contract_flex() -> Box<dyn Contract<Empty>> {
    Box::new(ContractWrapper::new(
        flex_execute_recording,
        cw3_flex_multisig::contract::instantiate,
        cw3_flex_multisig::contract::query,
    ))
}

fn contract_group() -> Box<dyn Contract<Empty>> {
    Box::new(ContractWrapper::new(
        cw4_group::contract::execute,
        cw4_group::contract::instantiate,
        cw4_group::contract::query,
    ))
}

fn contract_cw20() -> Box<dyn Contract<Empty>> {
    Box::new(ContractWrapper::new(
        cw20_base::contract::execute,
        cw20_base::contract::instantiate,
        cw20_base::contract::query,
    ))
}

pub struct FlexScen {
    app: Option<App>,
    block: BlockInfo,
    pool: Vec<Addr>,
    cw20: Addr,
    group: Addr,
    flex: Addr,
    ghost: Addr,
    seed: u64,
    /// (proposal id, block height of the successful Propose)
    ph: Vec<(u64, u64)>,
    /// generator: the current world was instantiated as a 'treasury story' (see gen_inst)
    story: std::cell::Cell<bool>,
    /// (height, address): a member the generator just had removed; it tries Execute next, in the same block
    just_removed: std::cell::RefCell<Option<(u64, Addr)>>,
    /// generator: the previous line was an `env` line
    last_env: bool,
    /// generator: no block change since the instantiation yet
    fresh_inst: bool,
    /// generator: proposals whose Execute failed in dispatch (retried less often)
    exec_failed: Vec<u64>,
    /// `cw3flexwide` (C20)
    wide: bool,
    /// generator (wide): 0 = proposal-heavy trace, 1 = vote-heavy trace
    mode: u64,
    /// generator (wide): the group may have been written in the current block (leave the block before proposing)
    group_dirty: bool,
}

fn default_block() -> BlockInfo {
    BlockInfo { height: 12345, time: Timestamp::from_nanos(1571797419879305533), chain_id: "cosmos-testnet-14002".to_string() }
}

fn split_last(e: &str) -> (String, String) {
    match e.rfind(':') {
        Some(i) => (e[..i].to_string(), e[i + 1..].to_string()),
        None => (e.to_string(), String::new()),
    }
}

fn parse_thr(s: &str) -> Option<Threshold> {
    let p: Vec<&str> = s.split(':').collect();
    match p.as_slice() {
        ["count", w] => Some(Threshold::AbsoluteCount { weight: w.parse().ok()? }),
        ["pct", a] => Some(Threshold::AbsolutePercentage { percentage: Decimal::raw(a.parse().ok()?) }),
        ["quorum", t, q] => Some(Threshold::ThresholdQuorum {
            threshold: Decimal::raw(t.parse().ok()?),
            quorum: Decimal::raw(q.parse().ok()?),
        }),
        _ => None,
    }
}

fn render_thr0(t: &Threshold) -> String {
    match t {
        Threshold::AbsoluteCount { weight } => format!("count:{weight}"),
        Threshold::AbsolutePercentage { percentage } => format!("pct:{}", percentage.atomics()),
        Threshold::ThresholdQuorum { threshold, quorum } => format!("quorum:{}:{}", threshold.atomics(), quorum.atomics()),
    }
}

fn render_thr(t: &ThresholdResponse) -> String {
    match t {
        ThresholdResponse::AbsoluteCount { weight, total_weight } => format!("count:{weight}:{total_weight}"),
        ThresholdResponse::AbsolutePercentage { percentage, total_weight } => {
            format!("pct:{}:{}", percentage.atomics(), total_weight)
        }
        ThresholdResponse::ThresholdQuorum { threshold, quorum, total_weight } => {
            format!("quorum:{}:{}:{}", threshold.atomics(), quorum.atomics(), total_weight)
        }
    }
}

fn render_dep(d: &Option<DepositInfo>) -> String {
    match d {
        None => "-".to_string(),
        Some(d) => match &d.denom {
            cw20::Denom::Native(n) => format!("native:{}:{}:{}", n, d.amount, d.refund_failed_proposals as u8),
            cw20::Denom::Cw20(a) => format!("cw20:{}:{}:{}", a, d.amount, d.refund_failed_proposals as u8),
        },
    }
}

fn render_status(s: Status) -> &'static str {
    match s {
        Status::Pending => "pending",
        Status::Open => "open",
        Status::Rejected => "rejected",
        Status::Passed => "passed",
        Status::Executed => "executed",
    }
}

fn render_vote(v: Vote) -> &'static str {
    match v {
        Vote::Yes => "yes",
        Vote::No => "no",
        Vote::Abstain => "abstain",
        Vote::Veto => "veto",
    }
}

fn parse_vote(s: &str) -> Option<Vote> {
    match s {
        "yes" => Some(Vote::Yes),
        "no" => Some(Vote::No),
        "abstain" => Some(Vote::Abstain),
        "veto" => Some(Vote::Veto),
        _ => None,
    }
}

/// `<amt><denom>`
fn parse_coin(s: &str) -> Option<Coin> {
    let i = s.find(|c: char| !c.is_ascii_digit())?;
    let amt: u128 = s[..i].parse().ok()?;
    Some(Coin { denom: s[i..].to_string(), amount: Uint128::new(amt) })
}

fn lim_of(rng: &mut Rng) -> Option<u32> {
    match rng.below(9) {
        0 => None,
        1 => Some(1),
        2 => Some(2),
        3 => Some(3),
        4 => Some(30),
        5 => Some(29),
        6 => Some(31),
        7 => Some(1000),
        _ => Some(7),
    }
}

impl FlexScen {
    pub fn new() -> Self {
        let z = Addr::unchecked("");
        FlexScen {
            app: None,
            block: default_block(),
            pool: vec![],
            cw20: z.clone(),
            group: z.clone(),
            flex: z.clone(),
            ghost: z,
            seed: 0,
            ph: vec![],
            story: std::cell::Cell::new(false),
            just_removed: std::cell::RefCell::new(None),
            last_env: false,
            fresh_inst: false,
            exec_failed: vec![],
            wide: false,
            mode: 0,
            group_dirty: false,
        }
    }

    pub fn new_wide() -> Self {
        let mut s = Self::new();
        s.wide = true;
        s
    }

    fn universe(&self) -> Vec<Addr> {
        let mut u = self.pool.clone();
        u.push(self.flex.clone());
        u
    }

    // ------------------------------------------------------------------ messages

    fn render_msg(&self, m: &CosmosMsg) -> String {
        match m {
            CosmosMsg::Bank(BankMsg::Send { to_address, amount }) if amount.len() == 1 => {
                format!("bank/{}/{}{}", to_address, amount[0].amount, amount[0].denom)
            }
            CosmosMsg::Wasm(WasmMsg::Execute { contract_addr, msg, funds }) if funds.is_empty() => {
                if *contract_addr == self.flex.as_str() {
                    match from_json::<FlexExec>(msg) {
                        Ok(FlexExec::Execute { proposal_id }) => format!("self/execute/{proposal_id}"),
                        Ok(FlexExec::Close { proposal_id }) => format!("self/close/{proposal_id}"),
                        Ok(FlexExec::Vote { proposal_id, vote }) => format!("self/vote/{}/{}", proposal_id, render_vote(vote)),
                        _ => "other".to_string(),
                    }
                } else if *contract_addr == self.group.as_str() {
                    match from_json::<GroupExec>(msg) {
                        Ok(GroupExec::UpdateMembers { add, remove }) => format!(
                            "group/update/{}/{}",
                            add.iter().map(|m| format!("{}:{}", m.addr, m.weight)).collect::<Vec<_>>().join("+"),
                            remove.join("+")
                        ),
                        _ => "other".to_string(),
                    }
                } else if *contract_addr == self.cw20.as_str() {
                    match from_json::<Cw20ExecuteMsg>(msg) {
                        Ok(Cw20ExecuteMsg::Transfer { recipient, amount }) => {
                            format!("cw20/{}/transfer/{}/{}", contract_addr, recipient, amount)
                        }
                        Ok(Cw20ExecuteMsg::TransferFrom { owner, recipient, amount }) => {
                            format!("cw20/{}/transfer_from/{}/{}/{}", contract_addr, owner, recipient, amount)
                        }
                        _ => "other".to_string(),
                    }
                } else if *contract_addr == self.ghost.as_str() {
                    "fail".to_string()
                } else {
                    "other".to_string()
                }
            }
            _ => "other".to_string(),
        }
    }

    fn render_msgs(&self, ms: &[CosmosMsg]) -> String {
        ms.iter().map(|m| self.render_msg(m)).collect::<Vec<_>>().join(";")
    }

    fn wasm(&self, to: &Addr, msg: &impl serde::Serialize) -> CosmosMsg {
        CosmosMsg::Wasm(WasmMsg::Execute { contract_addr: to.to_string(), msg: to_json_binary(msg).unwrap(), funds: vec![] })
    }

    fn parse_msg(&self, s: &str) -> Option<CosmosMsg> {
        let p: Vec<&str> = s.split('/').collect();
        match p.as_slice() {
            ["bank", to, c] => Some(CosmosMsg::Bank(BankMsg::Send { to_address: to.to_string(), amount: vec![parse_coin(c)?] })),
            // calls back into the multisig are built with the `packages/cw3` helper (`Cw3Contract`), so the helper
            // is inside the lock-step tie: a helper that encodes another call makes the dispatch differ from the model
            ["self", "execute", id] => cw3::Cw3Contract(self.flex.clone()).execute(id.parse().ok()?).ok(),
            ["self", "close", id] => cw3::Cw3Contract(self.flex.clone()).close(id.parse().ok()?).ok(),
            ["self", "vote", id, v] => cw3::Cw3Contract(self.flex.clone()).vote(id.parse().ok()?, parse_vote(v)?).ok(),
            ["group", "update", add, remove] => {
                let add: Vec<Member> = add
                    .split('+')
                    .filter(|x| !x.is_empty())
                    .map(|e| {
                        let (a, w) = split_last(e);
                        Member { addr: a, weight: w.parse().unwrap_or(0) }
                    })
                    .collect();
                let remove: Vec<String> = remove.split('+').filter(|x| !x.is_empty()).map(|x| x.to_string()).collect();
                Some(self.wasm(&self.group, &GroupExec::UpdateMembers { add, remove }))
            }
            ["fail"] => Some(CosmosMsg::Wasm(WasmMsg::Execute {
                contract_addr: self.ghost.to_string(),
                msg: cosmwasm_std::Binary::from(b"{}".to_vec()),
                funds: vec![],
            })),
            _ => None,
        }
    }

    // ------------------------------------------------------------------ queries

    fn qs<T: serde::de::DeserializeOwned>(&self, addr: &Addr, msg: &impl serde::Serialize) -> Option<T> {
        let app = self.app.as_ref()?;
        catch(|| app.wrap().query_wasm_smart::<T>(addr, msg)).and_then(|r| r.ok())
    }

    fn render_prop(&self, p: &ProposalResponse) -> String {
        format!(
            "{}|{}|{}|{}|{}|{}|{}|{}|{}",
            p.id,
            render_status(p.status),
            render_exp(&p.expires),
            render_thr(&p.threshold),
            p.proposer,
            render_dep(&p.deposit),
            p.title,
            p.description,
            self.render_msgs(&p.msgs)
        )
    }

    /// Page through a listing; `f(cursor, limit)` returns `(cursor key, rendered item)` pairs.
    fn page_all(&self, limit: Option<u32>, f: &dyn Fn(Option<String>, Option<u32>) -> Option<Vec<(String, String)>>) -> String {
        let mut out: Vec<String> = vec![];
        let mut cursor: Option<String> = None;
        let mut guard = WalkGuard::default();
        for _ in 0..MAX_WALK_PAGES {
            match f(cursor.clone(), limit) {
                None => return "!err".to_string(),
                Some(p) if p.is_empty() => break,
                Some(p) => {
                    let next = Some(p.last().unwrap().0.clone());
                    if next == cursor || !guard.fresh(&next) {
                        break; // no progress (a defect in the code under test): do not walk forever
                    }
                    cursor = next;
                    out.extend(p.into_iter().map(|x| x.1));
                }
            }
        }
        out.join(",")
    }

    fn q_list_props(&self, after: Option<u64>, limit: Option<u32>) -> Option<Vec<String>> {
        self.qs::<ProposalListResponse>(&self.flex, &FlexQuery::ListProposals { start_after: after, limit })
            .map(|r| r.proposals.iter().map(|p| format!("{}:{}", p.id, render_status(p.status))).collect())
    }
    fn q_rev_props(&self, before: Option<u64>, limit: Option<u32>) -> Option<Vec<String>> {
        self.qs::<ProposalListResponse>(&self.flex, &FlexQuery::ReverseProposals { start_before: before, limit })
            .map(|r| r.proposals.iter().map(|p| format!("{}:{}", p.id, render_status(p.status))).collect())
    }
    fn q_list_votes(&self, id: u64, after: Option<String>, limit: Option<u32>) -> Option<Vec<String>> {
        self.qs::<VoteListResponse>(&self.flex, &FlexQuery::ListVotes { proposal_id: id, start_after: after, limit })
            .map(|r| r.votes.iter().map(|v| format!("{}:{}:{}", v.voter, render_vote(v.vote), v.weight)).collect())
    }
    fn q_list_voters(&self, after: Option<String>, limit: Option<u32>) -> Option<Vec<String>> {
        self.qs::<VoterListResponse>(&self.flex, &FlexQuery::ListVoters { start_after: after, limit })
            .map(|r| r.voters.iter().map(|v| format!("{}:{}", v.addr, v.weight)).collect())
    }
    fn q_list_members(&self, after: Option<String>, limit: Option<u32>) -> Option<Vec<String>> {
        self.qs::<MemberListResponse>(&self.group, &GroupQuery::ListMembers { start_after: after, limit })
            .map(|r| r.members.iter().map(|m| format!("{}:{}", m.addr, m.weight)).collect())
    }
    /// the voters of all ballots of a proposal (page size 30)
    fn voted_on(&self, id: u64) -> Vec<String> {
        let mut out: Vec<String> = vec![];
        let mut cur: Option<String> = None;
        for _ in 0..1000 {
            match self.q_list_votes(id, cur.clone(), Some(30)) {
                Some(p) if !p.is_empty() => {
                    out.extend(p.iter().map(|e| e.split(':').next().unwrap().to_string()));
                    if cur == out.last().cloned() {
                        break;
                    }
                    cur = out.last().cloned();
                }
                _ => break,
            }
        }
        out
    }

    fn members(&self) -> Vec<(Addr, u64)> {
        let mut out = vec![];
        let mut cursor: Option<String> = None;
        loop {
            match self.qs::<MemberListResponse>(&self.group, &GroupQuery::ListMembers { start_after: cursor.clone(), limit: Some(30) }) {
                Some(r) if !r.members.is_empty() => {
                    let next = Some(r.members.last().unwrap().addr.clone());
                    if next == cursor {
                        break; // no progress (a defect in the code under test): do not walk forever
                    }
                    cursor = next;
                    out.extend(r.members.into_iter().map(|m| (Addr::unchecked(m.addr), m.weight)));
                }
                _ => break,
            }
        }
        out
    }

    fn group_admin(&self) -> Option<String> {
        self.qs::<cw_controllers::AdminResponse>(&self.group, &GroupQuery::Admin {}).and_then(|r| r.admin)
    }

    fn config(&self) -> Option<Config> {
        self.qs::<Config>(&self.flex, &FlexQuery::Config {})
    }

    fn bank_bal(&self, a: &Addr, denom: &str) -> u128 {
        match &self.app {
            Some(app) => app.wrap().query_balance(a, denom).map(|c| c.amount.u128()).unwrap_or(0),
            None => 0,
        }
    }

    fn cw20_bal(&self, a: &Addr) -> u128 {
        self.qs::<BalanceResponse>(&self.cw20, &Cw20QueryMsg::Balance { address: a.to_string() }).map(|b| b.balance.u128()).unwrap_or(0)
    }

    fn prop(&self, id: u64) -> Option<ProposalResponse> {
        self.qs::<ProposalResponse>(&self.flex, &FlexQuery::Proposal { proposal_id: id })
    }

    /// raw storage read: is the proposal still stored as Open?
    fn stored_open(&self, id: u64) -> bool {
        match &self.app {
            Some(app) => matches!(PROPOSALS.query(&app.wrap(), self.flex.clone(), id), Ok(Some(p)) if p.status == Status::Open),
            None => false,
        }
    }

    fn observe(&self, salt: &str) -> String {
        if self.app.is_none() {
            return "obs uninit=1".to_string();
        }
        let app = self.app.as_ref().unwrap();
        let mut rng = Rng::new(hash_str(salt) ^ self.seed);
        let u = self.universe();
        let flex = &self.flex;
        let group = &self.group;
        let thr = self.qs::<ThresholdResponse>(flex, &FlexQuery::Threshold {}).map(|t| render_thr(&t)).unwrap_or("!err".into());
        let cfg = self
            .config()
            .map(|c| {
                format!(
                    "{}|{}|{}|{}|{}",
                    render_thr0(&c.threshold),
                    render_dur(&c.max_voting_period),
                    c.group_addr.0,
                    match &c.executor {
                        None => "-".to_string(),
                        Some(Executor::Member) => "member".to_string(),
                        Some(Executor::Only(a)) => format!("only:{a}"),
                    },
                    render_dep(&c.proposal_deposit)
                )
            })
            .unwrap_or("!err".into());
        let l = lim_of(&mut rng);
        let props = self.page_all(l, &|c, l| {
            self.qs::<ProposalListResponse>(flex, &FlexQuery::ListProposals { start_after: c.and_then(|x| x.parse().ok()), limit: l })
                .map(|r| r.proposals.iter().map(|p| (p.id.to_string(), self.render_prop(p))).collect())
        });
        let l = lim_of(&mut rng);
        let rprops = self.page_all(l, &|c, l| {
            self.qs::<ProposalListResponse>(flex, &FlexQuery::ReverseProposals { start_before: c.and_then(|x| x.parse().ok()), limit: l })
                .map(|r| r.proposals.iter().map(|p| (p.id.to_string(), self.render_prop(p))).collect())
        });
        let n = self.ph.len() as u64;
        let pprops: Vec<String> = (1..=n + 1)
            .map(|id| match catch(|| app.wrap().query_wasm_smart::<ProposalResponse>(flex, &FlexQuery::Proposal { proposal_id: id })) {
                Some(Ok(p)) => self.render_prop(&p),
                Some(Err(_)) => format!("{id}|-"),
                None => format!("{id}|!err"),
            })
            .collect();
        let raw: Vec<String> = (1..=n)
            .map(|id| match PROPOSALS.query(&app.wrap(), flex.clone(), id) {
                Ok(Some(p)) => format!(
                    "{}:{}:{}.{}.{}.{}:{}",
                    id,
                    render_status(p.status),
                    p.votes.yes,
                    p.votes.no,
                    p.votes.abstain,
                    p.votes.veto,
                    p.start_height
                ),
                _ => format!("{id}:-"),
            })
            .collect();
        let ph: Vec<String> = self.ph.iter().map(|(i, h)| format!("{i}@{h}")).collect();
        let mut votes: Vec<String> = vec![];
        let mut pvotes: Vec<String> = vec![];
        let mut nvotes: Vec<(usize, u64)> = vec![];
        for id in 1..=n {
            let l = lim_of(&mut rng);
            let v = self.page_all(l, &|c, l| {
                self.qs::<VoteListResponse>(flex, &FlexQuery::ListVotes { proposal_id: id, start_after: c, limit: l }).map(|r| {
                    r.votes
                        .iter()
                        .map(|v| (v.voter.clone(), format!("{}:{}:{}:{}", v.proposal_id, v.voter, render_vote(v.vote), v.weight)))
                        .collect()
                })
            });
            // `id:voter:vote:weight` entries of this proposal's listing
            let listed: Vec<String> =
                if v.is_empty() || v == "!err" { vec![] } else { v.split(',').map(|e| e.split(':').nth(1).unwrap_or("").to_string()).collect() };
            nvotes.push((listed.len(), id));
            if !v.is_empty() {
                votes.push(v);
            }
            for a in &u {
                // wide: point queries only for the voters the listing returned
                if self.wide && !listed.iter().any(|x| x == a.as_str()) {
                    continue;
                }
                match self.qs::<VoteResponse>(flex, &FlexQuery::Vote { proposal_id: id, voter: a.to_string() }) {
                    Some(VoteResponse { vote: Some(v) }) => {
                        pvotes.push(format!("{}:{}:{}:{}", v.proposal_id, v.voter, render_vote(v.vote), v.weight))
                    }
                    Some(_) => {}
                    None => pvotes.push(format!("{id}:{a}:!err")),
                }
            }
        }
        let l = lim_of(&mut rng);
        let voters = self.page_all(l, &|c, l| {
            self.qs::<VoterListResponse>(flex, &FlexQuery::ListVoters { start_after: c, limit: l })
                .map(|r| r.voters.iter().map(|v| (v.addr.clone(), format!("{}:{}", v.addr, v.weight))).collect())
        });
        let pvoters: Vec<String> = u
            .iter()
            .map(|a| match self.qs::<VoterResponse>(flex, &FlexQuery::Voter { address: a.to_string() }) {
                Some(r) => format!("{}:{}", a, opt_str(&r.weight)),
                None => format!("{a}:!err"),
            })
            .collect();
        let l = lim_of(&mut rng);
        let members = self.page_all(l, &|c, l| {
            self.qs::<MemberListResponse>(group, &GroupQuery::ListMembers { start_after: c, limit: l })
                .map(|r| r.members.iter().map(|m| (m.addr.clone(), format!("{}:{}", m.addr, m.weight))).collect())
        });
        let gtotal = self
            .qs::<TotalWeightResponse>(group, &GroupQuery::TotalWeight { at_height: None })
            .map(|t| t.weight.to_string())
            .unwrap_or("!err".into());
        let gadmin = self.group_admin().unwrap_or("-".into());
        let ghooks = self
            .qs::<cw_controllers::HooksResponse>(group, &GroupQuery::Hooks {})
            .map(|h| h.hooks.join(","))
            .unwrap_or("!err".into());
        let mut heights: Vec<u64> = vec![];
        // wide: only the start heights of the two most recent proposals
        let ph_probe: &[(u64, u64)] = if self.wide { &self.ph[self.ph.len().saturating_sub(2)..] } else { &self.ph[..] };
        for (_, h) in ph_probe {
            for x in [h.saturating_sub(1), *h, h + 1] {
                if !heights.contains(&x) {
                    heights.push(x);
                }
            }
        }
        heights.sort();
        let snap: Vec<String> = heights
            .iter()
            .map(|h| {
                let t = self
                    .qs::<TotalWeightResponse>(group, &GroupQuery::TotalWeight { at_height: Some(*h) })
                    .map(|t| t.weight.to_string())
                    .unwrap_or("!err".into());
                let ms: Vec<String> = u
                    .iter()
                    .map(|a| {
                        match self.qs::<MemberResponse>(group, &GroupQuery::Member { addr: a.to_string(), at_height: Some(*h) }) {
                            Some(m) => format!("{}:{}", a, opt_str(&m.weight)),
                            None => format!("{a}:!err"),
                        }
                    })
                    .collect();
                format!("{}|{}|{}", h, t, ms.join("|"))
            })
            .collect();
        let bank: Vec<String> =
            u.iter().map(|a| format!("{}:{}:{}:{}", a, self.bank_bal(a, DENOMS[0]), self.bank_bal(a, DENOMS[1]), self.bank_bal(a, DENOMS[2]))).collect();
        let cw20: Vec<String> = u.iter().map(|a| format!("{}:{}", a, self.cw20_bal(a))).collect();
        let allow: Vec<String> = self
            .pool
            .iter()
            .map(|o| {
                let a = self
                    .qs::<AllowanceResponse>(&self.cw20, &Cw20QueryMsg::Allowance { owner: o.to_string(), spender: flex.to_string() })
                    .map(|a| a.allowance.u128())
                    .unwrap_or(0);
                format!("{o}:{a}")
            })
            .collect();
        // C20 self-check of the listings (ListVotes: the three proposals with the most ballots)
        let mut pagediff: Vec<String> = vec![];
        if let Some(d) = paging_audit("list_proposals", &|c, l| self.q_list_props(c.and_then(|x| x.parse().ok()), l)) {
            pagediff.push(d);
        }
        if let Some(d) = paging_audit("reverse_proposals", &|c, l| self.q_rev_props(c.and_then(|x| x.parse().ok()), l)) {
            pagediff.push(d);
        }
        let pool_s: Vec<String> = self.pool.iter().map(|a| a.to_string()).collect();
        if let Some(d) = paging_audit_cursors("list_voters", &|c, l| self.q_list_voters(c, l), &pool_s) {
            pagediff.push(d);
        }
        if let Some(d) = paging_audit_cursors("list_members", &|c, l| self.q_list_members(c, l), &pool_s) {
            pagediff.push(d);
        }
        nvotes.sort_by(|a, b| b.0.cmp(&a.0).then(a.1.cmp(&b.1)));
        for (_, id) in nvotes.iter().take(3) {
            if let Some(d) = paging_audit("list_votes", &|c, l| self.q_list_votes(*id, c, l)) {
                pagediff.push(d);
            }
        }
        pagediff.dedup();
        // raw dumps of the group's two snapshot changelogs (`snap` only probes them around the proposals' start
        // heights): with them the observation determines the group state completely (model resynchronisation)
        let mut graw = MemStore::default();
        for (k, v) in app.dump_wasm_raw(group) {
            graw.data.insert(k, v);
        }
        let mut gmlog: Vec<(String, u64, Option<u64>)> = cw4_group::state::MEMBERS
            .changelog()
            .range(&graw, None, None, cosmwasm_std::Order::Ascending)
            .filter_map(|r| r.ok())
            .map(|((a, h), cs)| (a.to_string(), h, cs.old))
            .collect();
        gmlog.sort();
        let gmlog: Vec<String> = gmlog.iter().map(|(a, h, o)| format!("{}@{}:{}", a, h, opt_str(o))).collect();
        let mut gtlog: Vec<(u64, Option<u64>)> = cw4_group::state::TOTAL
            .changelog()
            .range(&graw, None, None, cosmwasm_std::Order::Ascending)
            .filter_map(|r| r.ok())
            .map(|(h, cs)| (h, cs.old))
            .collect();
        gtlog.sort();
        let gtlog: Vec<String> = gtlog.iter().map(|(h, o)| format!("{}:{}", h, opt_str(o))).collect();
        // the cw4 helper functions other contracts use (packages/cw4 `Cw4Contract`) must answer like the
        // group's own smart queries: model-independent self-check, reported as `hdiff=`
        let mut hdiff: Vec<String> = vec![];
        {
            let helper = cw4::Cw4Contract::new(group.clone());
            let q = app.wrap();
            let mut hs: Vec<u64> = self.ph.iter().map(|(_, h)| *h).collect();
            hs.push(self.block.height);
            hs.sort();
            hs.dedup();
            let hs: Vec<u64> = hs.into_iter().rev().take(3).collect();
            let smart = |a: &Addr, h: Option<u64>| -> Option<Option<u64>> {
                self.qs::<MemberResponse>(group, &GroupQuery::Member { addr: a.to_string(), at_height: h }).map(|r| r.weight)
            };
            for a in u.iter() {
                if let Some(sw) = smart(a, None) {
                    if helper.is_member(&q, a, None).ok() != Some(sw) {
                        hdiff.push(format!("is_member({a},None)"));
                    }
                }
                for h in &hs {
                    if let Some(sw) = smart(a, Some(*h)) {
                        if helper.is_member(&q, a, Some(*h)).ok() != Some(sw) {
                            hdiff.push(format!("is_member({a},{h})"));
                        }
                        if helper.member_at_height(&q, a.to_string(), Some(*h)).ok() != Some(sw) {
                            hdiff.push(format!("member_at_height({a},{h})"));
                        }
                        if helper.is_voting_member(&q, a, *h).ok() != Some(sw.filter(|w| *w >= 1)) {
                            hdiff.push(format!("is_voting_member({a},{h})"));
                        }
                    }
                }
            }
            if let Some(t) = self.qs::<TotalWeightResponse>(group, &GroupQuery::TotalWeight { at_height: None }) {
                if helper.total_weight(&q).ok() != Some(t.weight) {
                    hdiff.push("total_weight".to_string());
                }
            }
            if let Some(l) = self.qs::<MemberListResponse>(group, &GroupQuery::ListMembers { start_after: None, limit: None }) {
                if helper.list_members(&q, None, None).ok() != Some(l.members) {
                    hdiff.push("list_members".to_string());
                }
            }
            if let Some(hk) = self.qs::<cw_controllers::HooksResponse>(group, &GroupQuery::Hooks {}) {
                if helper.hooks(&q).ok() != Some(hk.hooks) {
                    hdiff.push("hooks".to_string());
                }
            }
            if let Some(ad) = self.qs::<cw_controllers::AdminResponse>(group, &GroupQuery::Admin {}) {
                if helper.admin(&q).ok() != Some(ad.admin) {
                    hdiff.push("admin".to_string());
                }
            }
            hdiff.truncate(3);
        }
        format!(
            "obs hdiff={} pagediff={} thr={} cfg={} props={} rprops={} pprops={} raw={} ph={} votes={} pvotes={} voters={} pvoters={} members={} gtotal={} gadmin={} ghooks={} snap={} bank={} cw20={} allow={} gmlog={} gtlog={}",
            hdiff.join(","),
            pagediff.join(","),
            thr,
            cfg,
            props,
            rprops,
            pprops.join(","),
            raw.join(","),
            ph.join(","),
            votes.join(","),
            pvotes.join(","),
            voters,
            pvoters.join(","),
            members,
            gtotal,
            gadmin,
            ghooks,
            snap.join(","),
            bank.join(","),
            cw20.join(","),
            allow.join(","),
            gmlog.join(","),
            gtlog.join(",")
        )
    }

    // ------------------------------------------------------------------ execution

    /// Run one transaction; returns (tx ok, panicked, handler-level results of the flex calls in it).
    fn run(&mut self, sender: &Addr, target: &Addr, msg: &(impl serde::Serialize + std::fmt::Debug), funds: &[Coin]) -> (bool, bool, Vec<Option<Vec<CosmosMsg>>>) {
        LOG.with(|l| l.borrow_mut().clear());
        reset_call_budget();
        let app = match self.app.as_mut() {
            Some(a) => a,
            None => return (false, false, vec![]),
        };
        app.set_block(self.block.clone());
        let r = catch(|| app.execute_contract(sender.clone(), target.clone(), msg, funds));
        let log = LOG.with(|l| l.borrow_mut().drain(..).collect::<Vec<_>>());
        match r {
            Some(Ok(_)) => (true, false, log),
            Some(Err(e)) => {
                if std::env::var("VERIF_DEBUG").is_ok() {
                    eprintln!("ERR {}", e.root_cause());
                }
                (false, false, log)
            }
            None => (false, true, log),
        }
    }

    /// the wire: the `msg` bytes (hex, `+`-joined, in order) of every `WasmMsg::Execute` addressed to the deposit
    /// token among the handler's messages — the `TransferFrom` that takes a cw20 deposit, the `Transfer` that
    /// refunds it (`packages/cw3/src/deposit.rs`); proposal messages never target the token
    fn render_depraw(&self, ms: &[CosmosMsg]) -> String {
        ms.iter()
            .filter_map(|m| match m {
                CosmosMsg::Wasm(WasmMsg::Execute { contract_addr, msg, .. }) if *contract_addr == self.cw20.as_str() => {
                    Some(crate::common::hex(msg.as_slice()))
                }
                _ => None,
            })
            .collect::<Vec<_>>()
            .join("+")
    }

    fn flex_outcome(&self, ok: bool, panicked: bool, log: &[Option<Vec<CosmosMsg>>]) -> String {
        match (ok, log.first()) {
            (true, Some(Some(ms))) => format!("> ok msgs={} depraw={}", self.render_msgs(ms), self.render_depraw(ms)),
            (true, _) => "> ok msgs=?".to_string(),
            (false, Some(Some(ms))) => format!("> err handler=ok tx=err msgs={}", self.render_msgs(ms)),
            (false, _) => {
                if panicked {
                    "> err panic=1".to_string()
                } else {
                    "> err".to_string()
                }
            }
        }
    }

    fn build_world(&mut self, a: &Args) -> bool {
        let bank: Vec<(Addr, Vec<Coin>)> = a
            .list("bank")
            .iter()
            .map(|e| {
                let p: Vec<&str> = e.split(':').collect();
                let mut cs = vec![];
                for (i, d) in DENOMS.iter().enumerate() {
                    let amt: u128 = p.get(i + 1).and_then(|x| x.parse().ok()).unwrap_or(0);
                    if amt > 0 {
                        cs.push(Coin { denom: d.to_string(), amount: Uint128::new(amt) });
                    }
                }
                (Addr::unchecked(p[0]), cs)
            })
            .collect();
        let mut app = AppBuilder::new().build(|router, _, storage| {
            for (addr, cs) in &bank {
                if !cs.is_empty() {
                    router.bank.init_balance(storage, addr, cs.clone()).unwrap();
                }
            }
        });
        app.set_block(self.block.clone());
        let owner = self.pool[0].clone();
        let cw20_id = app.store_code(contract_cw20());
        let group_id = app.store_code(contract_group());
        let flex_id = app.store_code(contract_flex());
        let balances: Vec<Cw20Coin> = a
            .list("cw20bal")
            .iter()
            .map(|e| {
                let (ad, amt) = split_last(e);
                Cw20Coin { address: ad, amount: Uint128::new(amt.parse().unwrap_or(0)) }
            })
            .collect();
        let cw20 = match app.instantiate_contract(
            cw20_id,
            owner.clone(),
            &cw20_base::msg::InstantiateMsg {
                name: "Deposit".into(),
                symbol: "DEP".into(),
                decimals: 6,
                initial_balances: balances,
                mint: None,
                marketing: None,
            },
            &[],
            "cw20",
            None,
        ) {
            Ok(x) => x,
            Err(_) => return false,
        };
        let members: Vec<Member> = a
            .list("members")
            .iter()
            .map(|e| {
                let (ad, w) = split_last(e);
                Member { addr: addr_text(&ad), weight: w.parse().unwrap_or(0) }
            })
            .collect();
        let group = match app.instantiate_contract(group_id, owner.clone(), &GroupInst { admin: Some(owner.to_string()), members }, &[], "group", None) {
            Ok(x) => x,
            Err(_) => return false,
        };
        if cw20 != self.cw20 || group != self.group {
            return false;
        }
        let threshold = match parse_thr(&a.str("thr")) {
            Some(t) => t,
            None => return false,
        };
        let period = match parse_dur(&a.str("period")) {
            Some(p) => p,
            None => return false,
        };
        let ex = a.str("executor");
        let executor = if ex == "-" || ex.is_empty() {
            None
        } else if ex == "member" {
            Some(Executor::Member)
        } else {
            Some(Executor::Only(Addr::unchecked(ex.trim_start_matches("only:"))))
        };
        let dep = a.str("deposit");
        let dp: Vec<&str> = dep.split(':').collect();
        let proposal_deposit = match dp.as_slice() {
            ["native", d, amt, r] => Some(UncheckedDepositInfo {
                amount: Uint128::new(amt.parse().unwrap_or(0)),
                denom: UncheckedDenom::Native(d.to_string()),
                refund_failed_proposals: *r == "1",
            }),
            ["cw20", amt, r] => Some(UncheckedDepositInfo {
                amount: Uint128::new(amt.parse().unwrap_or(0)),
                denom: UncheckedDenom::Cw20(self.cw20.to_string()),
                refund_failed_proposals: *r == "1",
            }),
            ["cw20x", amt, r] => Some(UncheckedDepositInfo {
                amount: Uint128::new(amt.parse().unwrap_or(0)),
                denom: UncheckedDenom::Cw20(self.pool[0].to_string()),
                refund_failed_proposals: *r == "1",
            }),
            _ => None,
        };
        let msg = FlexInst { group_addr: group.to_string(), threshold, max_voting_period: period, executor, proposal_deposit };
        let flex = match catch(|| app.instantiate_contract(flex_id, owner.clone(), &msg, &[], "flex", None)) {
            Some(Ok(x)) => x,
            _ => return false,
        };
        if flex != self.flex {
            return false;
        }
        if a.str("hook") == "1"
            && app.execute_contract(owner.clone(), group.clone(), &GroupExec::AddHook { addr: flex.to_string() }, &[]).is_err()
        {
            return false;
        }
        let admin = a.str("admin");
        if admin != owner.as_str()
            && app.execute_contract(owner.clone(), group.clone(), &GroupExec::UpdateAdmin { admin: Some(admin) }, &[]).is_err()
        {
            return false;
        }
        self.app = Some(app);
        true
    }

    // ------------------------------------------------------------------ generation

    fn gen_inst(&self, rng: &mut Rng) -> String {
        let np = self.pool.len();
        let k = 1 + rng.below(5) as usize;
        let mut idx: Vec<usize> = (0..np).collect();
        // partial shuffle
        for i in 0..np {
            let j = i + rng.below((np - i) as u64) as usize;
            idx.swap(i, j);
        }
        let mut members: Vec<(String, u64)> = vec![];
        for &i in idx.iter().take(k) {
            let w = *rng.pick(&[0u64, 1, 1, 2, 3, 5, 2, 1]);
            members.push((self.pool[i].to_string(), w));
        }
        if rng.chance(1, 4) {
            members.push((self.flex.to_string(), *rng.pick(&[0u64, 1, 2, 4])));
        }
        let total: u64 = members.iter().map(|m| m.1).sum();
        let admin = match rng.below(20) {
            0..=11 => self.pool[0].to_string(),
            12..=16 => self.flex.to_string(),
            _ => rng.pick(&self.pool).to_string(),
        };
        let hook = rng.below(2);
        let pcts: [u128; 9] = [
            500_000_000_000_000_000,
            510_000_000_000_000_000,
            600_000_000_000_000_000,
            666_666_666_666_666_667,
            1_000_000_000_000_000_000,
            500_000_000_000_000_001,
            500_000_100_000_000_000, // 0.5000001: 'strictly more than half' with 7 decimals
            499_999_999_999_999_999,  // invalid
            1_000_000_000_000_000_001, // invalid
        ];
        let quos: [u128; 7] = [
            10_000_000_000_000_000,
            300_000_000_000_000_000,
            500_000_000_000_000_000,
            1_000_000_000_000_000_000,
            1,
            0,                         // invalid
            1_100_000_000_000_000_000, // invalid
        ];
        let good_pct = |rng: &mut Rng| if rng.chance(9, 10) { pcts[rng.below(7) as usize] } else { pcts[7 + rng.below(2) as usize] };
        let thr = match rng.below(3) {
            0 => {
                let w = match rng.below(12) {
                    0 => 0,
                    1 => total + 1,
                    2 => total,
                    _ => (1 + rng.below(total.max(1))).min(1 + rng.below(total.max(1))),
                };
                format!("count:{w}")
            }
            1 => format!("pct:{}", good_pct(rng)),
            _ => {
                let q = if rng.chance(9, 10) { quos[rng.below(5) as usize] } else { quos[5 + rng.below(2) as usize] };
                format!("quorum:{}:{}", good_pct(rng), q)
            }
        };
        let period = if rng.chance(1, 2) { format!("h{}", 2 + rng.below(9)) } else { format!("t{}", 10 + rng.below(60)) };
        let executor = match rng.below(10) {
            0..=5 => "-".to_string(),
            6 | 7 => "member".to_string(),
            8 if rng.chance(1, 2) => {
                // an executor address that is not a normalised address of this chain (upper case, a name): it is stored
                // as given, nobody can ever execute — in particular the restriction does not silently disappear
                if rng.chance(1, 2) { format!("only:{}", rng.pick(&self.pool).as_str().to_uppercase()) } else { "only:treasurer".to_string() }
            }
            _ => format!("only:{}", rng.pick(&self.pool)),
        };
        let amt = if rng.chance(1, 15) { 0 } else { 1 + rng.below(6) };
        let refund = if rng.chance(2, 3) { 1 } else { 0 };
        let deposit = match rng.below(20) {
            0..=6 => "-".to_string(),
            7..=12 => format!("native:{}:{}:{}", if rng.chance(4, 5) { DENOMS[0] } else { DENOMS[1] }, amt, refund),
            13..=18 => format!("cw20:{amt}:{refund}"),
            _ => format!("cw20x:{amt}:{refund}"),
        };
        // 'treasury story' (1/8): refundable native deposit, empty treasury, short period, a threshold one voter can meet
        let story = rng.chance(1, 8);
        self.story.set(story);
        let (thr, period, deposit) = if story {
            ("count:2".to_string(), format!("h{}", 2 + rng.below(3)), format!("native:{}:{}:1", DENOMS[0], 1 + rng.below(4)))
        } else {
            (thr, period, deposit)
        };
        let mut bank: Vec<String> = self.pool.iter().map(|a| format!("{}:{}:{}:{}", a, rng.below(60), rng.below(30), rng.below(40))).collect();
        // an empty treasury (1/3): the multisig then holds exactly the deposits taken, so a proposal spending
        // the deposit denom leaves it short of another proposal's refund
        let treasury = if story || rng.chance(1, 3) { 0 } else { rng.below(40) };
        bank.push(format!("{}:{}:{}", self.flex, treasury, rng.below(6)));
        let cw20bal: Vec<String> = self.pool.iter().map(|a| format!("{}:{}", a, rng.below(25))).collect();
        format!(
            "inst members={} admin={} hook={} thr={} period={} executor={} deposit={} bank={} cw20bal={}",
            members.iter().map(|m| format!("+{}:{}", m.0, m.1)).collect::<Vec<_>>().join(","),
            admin,
            hook,
            thr,
            period,
            executor,
            deposit,
            bank.join(","),
            cw20bal.join(",")
        )
    }

    /// `cw3flexwide`: a large group with small weights, a long voting period, mostly no deposit
    fn gen_inst_wide(&self, rng: &mut Rng) -> String {
        let np = self.pool.len();
        let k = if rng.chance(5, 6) { 31 + rng.below((np - 30) as u64) as usize } else { 1 + rng.below(np as u64) as usize };
        let start = rng.below(np as u64) as usize;
        let mut total: u64 = 0;
        let mut members: Vec<String> = vec![];
        for i in 0..k.min(np) {
            let w = if rng.chance(1, 40) { 0 } else { 1 + rng.below(3) };
            total += w;
            members.push(format!("+{}:{}", self.pool[(start + i * 7) % np], w));
        }
        let t = total.max(1);
        let thr = match rng.below(4) {
            0 => format!("count:{}", 1 + rng.below(t)),
            1 => format!("count:{t}"),
            2 => format!("pct:{}", *rng.pick(&[500_000_000_000_000_000u128, 600_000_000_000_000_000, 1_000_000_000_000_000_000])),
            _ => format!("quorum:{}:{}", 500_000_000_000_000_000u128, *rng.pick(&[300_000_000_000_000_000u128, 800_000_000_000_000_000])),
        };
        let period = if rng.chance(2, 3) { format!("h{}", 500 + rng.below(2000)) } else { format!("t{}", 50_000 + rng.below(50_000)) };
        let deposit = if rng.chance(5, 6) { "-".to_string() } else { format!("native:{}:1:{}", DENOMS[0], rng.below(2)) };
        let admin = if rng.chance(9, 10) { self.pool[0].to_string() } else { rng.pick(&self.pool).to_string() };
        let mut bank: Vec<String> = self.pool.iter().map(|a| format!("{}:{}:{}", a, 40 + rng.below(60), rng.below(30))).collect();
        bank.push(format!("{}:{}:{}", self.flex, rng.below(40), rng.below(6)));
        let cw20bal: Vec<String> = self.pool.iter().map(|a| format!("{}:{}", a, rng.below(25))).collect();
        format!(
            "inst members={} admin={} hook={} thr={} period={} executor=- deposit={} bank={} cw20bal={}",
            members.join(","),
            admin,
            rng.below(2),
            thr,
            period,
            deposit,
            bank.join(","),
            cw20bal.join(",")
        )
    }

    /// `cw3flexwide`: an explicit page request (cursor: none, an existing key, a non-key)
    fn gen_page_query(&self, rng: &mut Rng, members: &[(Addr, u64)], most: u64) -> String {
        let n = self.ph.len() as u64;
        let lim = *rng.pick(&["-", "0", "1", "9", "10", "11", "29", "30", "31", "32", "100"]);
        let idc = match rng.below(8) {
            0 | 1 => "-".to_string(),
            2 => "0".to_string(),
            3 => (n + 1 + rng.below(7)).to_string(),
            4 if rng.chance(1, 3) => u64::MAX.to_string(),
            _ => (1 + rng.below(n.max(1))).to_string(),
        };
        let ac = match rng.below(8) {
            0 | 1 => "-".to_string(),
            2 => format!("+{}", rng.pick(&self.pool)),
            3 => "-cosmwasm1m".to_string(),
            4 if rng.chance(1, 2) => format!("-{}", invalid_addr(rng, &self.pool)),
            _ if !members.is_empty() => format!("+{}", rng.pick(members).0),
            _ => "-".to_string(),
        };
        match rng.below(10) {
            0 | 1 => format!("query list_proposals after={idc} limit={lim}"),
            2 | 3 => format!("query reverse_proposals before={idc} limit={lim}"),
            4 | 5 => {
                let id = if rng.chance(3, 4) { most } else { rng.below(n + 2) };
                format!("query list_votes id={id} after={ac} limit={lim}")
            }
            6 | 7 => format!("query list_voters after={ac} limit={lim}"),
            _ => format!("query list_members after={ac} limit={lim}"),
        }
    }

    /// `cw3flexwide`: proposals, votes on a focus proposal, group growth, page requests
    fn gen_wide_op(&mut self, rng: &mut Rng) -> Option<String> {
        let n = self.ph.len() as u64;
        let cfg = self.config();
        let members = self.members();
        let r = rng.below(100);
        if r < 5 {
            self.last_env = true;
            let dh = *rng.pick(&[1u64, 1, 2]);
            return Some(format!(
                "env height={} time={}",
                self.block.height + dh,
                self.block.time.nanos() + dh * 5_000_000_000
            ));
        }
        // the focus proposal: the first one still open for votes on which some member with a snapshot weight
        // has not voted; `most` = the one with the most ballots among those looked at
        let mut focus = 0u64;
        let mut fresh: Vec<Addr> = vec![];
        let mut most = (0usize, 1u64);
        let mut looked = 0;
        for id in 1..=n {
            let p = match self.prop(id) {
                Some(p) => p,
                None => continue,
            };
            if p.status == Status::Executed || p.expires.is_expired(&self.block) {
                continue;
            }
            looked += 1;
            if looked > 3 {
                break;
            }
            let voted = self.voted_on(id);
            if voted.len() > most.0 {
                most = (voted.len(), id);
            }
            let h = self.ph.iter().find(|x| x.0 == id).map(|x| x.1).unwrap_or(0);
            let f: Vec<Addr> = self
                .pool
                .iter()
                .filter(|m| !voted.contains(&m.to_string()))
                .filter(|m| {
                    self.qs::<MemberResponse>(&self.group, &GroupQuery::Member { addr: m.to_string(), at_height: Some(h) })
                        .and_then(|r| r.weight)
                        .unwrap_or(0)
                        >= 1
                })
                .cloned()
                .collect();
            if !f.is_empty() {
                focus = id;
                fresh = f;
                break;
            }
        }
        if r < 22 {
            return Some(self.gen_page_query(rng, &members, most.1));
        }
        if r < 27 {
            // grow / reshuffle the group (by its admin)
            let admin = self.group_admin()?;
            if admin == self.flex.as_str() {
                return None;
            }
            let outside: Vec<&Addr> = self.pool.iter().filter(|a| !members.iter().any(|m| m.0 == **a)).collect();
            let mut add: Vec<String> = vec![];
            for a in outside.iter().take(1 + rng.below(6) as usize) {
                add.push(format!("+{}:{}", a, 1 + rng.below(3)));
            }
            if add.is_empty() || rng.chance(1, 3) {
                add.push(format!("+{}:{}", rng.pick(&self.pool), rng.below(4)));
            }
            let remove = if rng.chance(1, 4) && !members.is_empty() { format!("+{}", rng.pick(&members).0) } else { String::new() };
            return Some(format!("group {} update_members add={} remove={}", admin, add.join(","), remove));
        }
        let propose_pct = if self.mode == 0 { 85 } else { 10 };
        if focus == 0 || rng.below(100) < propose_pct {
            let eoa: Vec<&(Addr, u64)> = members.iter().filter(|m| m.0 != self.flex && m.1 >= 1).collect();
            let snd = if !eoa.is_empty() && rng.chance(19, 20) { rng.pick(&eoa).0.clone() } else { rng.pick(&self.pool).clone() };
            let msgs = if rng.chance(1, 5) { self.gen_msgs(rng, false) } else { "-".to_string() };
            let funds = match cfg.as_ref().and_then(|c| c.proposal_deposit.clone()) {
                Some(_) => self.gen_funds(rng, &cfg, &snd),
                None => "-".to_string(),
            };
            return Some(format!("exec {} propose title=T{} desc=D{} msgs={} latest=- funds={}", snd, rng.below(3), rng.below(3), msgs, funds));
        }
        let snd = if rng.chance(14, 15) { rng.pick(&fresh).clone() } else { rng.pick(&self.pool).clone() };
        let v = *rng.pick(&["yes", "yes", "no", "abstain", "veto", "no"]);
        let id = if rng.chance(9, 10) { focus } else { 1 + rng.below(n + 1) };
        Some(format!("exec {snd} vote id={id} vote={v}"))
    }

    fn gen_env(&self, rng: &mut Rng) -> String {
        let h = self.block.height;
        let t = self.block.time.nanos();
        let n = self.ph.len() as u64;
        let r = rng.below(20);
        if r < 4 && n > 0 {
            // jump to (around) the expiry of some proposal
            let id = 1 + rng.below(n);
            if let Some(p) = self.prop(id) {
                match p.expires {
                    cw_utils::Expiration::AtHeight(e) if e >= h => {
                        let nh = (e + rng.below(2)).saturating_sub(rng.below(2)).max(h);
                        return format!("env height={} time={}", nh, t + (nh - h) * 5_000_000_000);
                    }
                    cw_utils::Expiration::AtTime(e) if e.nanos() >= t => {
                        let nt = (e.nanos() + rng.below(2)).saturating_sub(rng.below(2)).max(t);
                        return format!("env height={} time={}", h + 1, nt);
                    }
                    _ => {}
                }
            }
        }
        let dh = *rng.pick(&[1u64, 1, 1, 1, 2, 3]);
        format!("env height={} time={}", h + dh, t + dh * 5_000_000_000 + rng.below(3) * 1_000_000_000)
    }

    fn gen_msgs(&self, rng: &mut Rng, admin_is_flex: bool) -> String {
        let n = self.ph.len() as u64;
        let dep = self.config().and_then(|c| c.proposal_deposit);
        let props: Vec<ProposalResponse> = (1..=n).filter_map(|id| self.prop(id)).collect();
        let votable: Vec<u64> =
            props.iter().filter(|p| p.status != Status::Executed && !p.expires.is_expired(&self.block)).map(|p| p.id).collect();
        let passed: Vec<u64> = props.iter().filter(|p| p.status == Status::Passed).map(|p| p.id).collect();
        let closable: Vec<u64> = props.iter().filter(|p| p.status == Status::Rejected && self.stored_open(p.id)).map(|p| p.id).collect();
        let k = match rng.below(10) {
            0..=2 => if self.story.get() { 1 } else { 0 },
            3..=7 => 1,
            8 => 2,
            _ => 3,
        };
        let mut out = vec![];
        for _ in 0..k {
            let r = if self.story.get() && rng.chance(1, 2) { 0 } else { rng.below(if admin_is_flex { 14 } else { 11 }) };
            let m = match r {
                0..=3 => {
                    let mut d = if rng.chance(5, 6) { DENOMS[0] } else { DENOMS[1] };
                    // with a refundable native deposit: spend the deposit denom, often all of it or all but less than
                    // one deposit, so that the treasury is short of the refunds it still owes
                    let owed = match &dep {
                        Some(DepositInfo { amount, denom: cw20::Denom::Native(dn), refund_failed_proposals: true }) if n >= 1 => {
                            if rng.chance(3, 4) {
                                d = if dn == DENOMS[0] { DENOMS[0] } else { DENOMS[1] };
                            }
                            if dn == d { Some(amount.u128()) } else { None }
                        }
                        _ => None,
                    };
                    let bal = self.bank_bal(&self.flex, d);
                    let amt = if self.story.get() && rng.chance(3, 4) {
                        1 + rng.below(2) as u128
                    } else {
                        match (owed, rng.below(8)) {
                        (Some(_), 4) | (Some(_), 5) => bal,
                        (Some(a), 6) => (bal + 1).saturating_sub(a).max(1),
                        (_, 0) => 0,
                        (_, 1) => bal + 1,
                        (_, 2) => bal,
                        (_, 3) => bal + 1 + rng.below(5) as u128,
                        _ => 1 + rng.below(3) as u128,
                    }};
                    let to = if rng.chance(1, 10) { self.flex.clone() } else { rng.pick(&self.pool).clone() };
                    format!("bank/{to}/{amt}{d}")
                }
                4 => format!("self/execute/{}", if !passed.is_empty() && rng.chance(3, 4) { *rng.pick(&passed) } else { 1 + rng.below(n + 2) }),
                5 => format!("self/close/{}", if !closable.is_empty() && rng.chance(3, 4) { *rng.pick(&closable) } else { 1 + rng.below(n + 2) }),
                6 | 7 => format!(
                    "self/vote/{}/{}",
                    if !votable.is_empty() && rng.chance(3, 4) { *rng.pick(&votable) } else { 1 + rng.below(n + 2) },
                    rng.pick(&["yes", "no", "abstain", "veto"])
                ),
                8 => "fail".to_string(),
                _ => {
                    let (add, remove) = self.gen_update(rng, false);
                    format!("group/update/{}/{}", add.join("+"), remove.join("+"))
                }
            };
            out.push(m);
        }
        // a proposal may carry the same message more than once (two equal instalments): "exactly as proposed"
        // includes repeats, adjacent or not
        if !out.is_empty() && rng.chance(1, 5) {
            let i = rng.below(out.len() as u64) as usize;
            let m = out[i].clone();
            if rng.chance(2, 3) {
                out.insert(i, m);
            } else {
                out.push(m);
            }
        }
        if out.is_empty() {
            "-".to_string()
        } else {
            out.join(";")
        }
    }

    /// (add entries `addr:w`, remove entries `addr`), optionally with validity marks
    fn gen_update(&self, rng: &mut Rng, marks: bool) -> (Vec<String>, Vec<String>) {
        let mk = |s: String| if marks { format!("+{s}") } else { s };
        let mut add = vec![];
        let mut remove = vec![];
        let mut cand: Vec<Addr> = self.pool.clone();
        cand.push(self.flex.clone());
        let na = match rng.below(6) {
            0 => 0,
            1..=3 => 1,
            _ => 2,
        };
        for _ in 0..na {
            let a = if rng.chance(1, 10) { self.flex.clone() } else { rng.pick(&self.pool).clone() };
            let w = *rng.pick(&[0u64, 1, 1, 2, 3, 5, 8]);
            if marks && rng.chance(1, 40) {
                add.push(format!("-{INVALID_ADDR}:{w}"));
            } else {
                add.push(format!("{}:{}", mk(a.to_string()), w));
            }
        }
        let nr = match rng.below(6) {
            0..=2 => 0,
            3 | 4 => 1,
            _ => 2,
        };
        for _ in 0..nr {
            if marks && rng.chance(1, 40) {
                remove.push(format!("-{}", invalid_addr(rng, &self.pool)));
            } else {
                remove.push(mk(rng.pick(&cand).to_string()));
            }
        }
        // the same address named twice in one remove list
        if remove.len() == 2 && rng.chance(1, 3) {
            remove[1] = remove[0].clone();
        }
        (add, remove)
    }

    fn gen_funds(&self, rng: &mut Rng, cfg: &Option<Config>, snd: &Addr) -> String {
        let dep = cfg.as_ref().and_then(|c| c.proposal_deposit.clone());
        match dep {
            Some(DepositInfo { amount, denom: cw20::Denom::Native(d), .. }) => {
                let amt = amount.u128();
                let other = if d == DENOMS[0] { DENOMS[1] } else { DENOMS[0] };
                let have = self.bank_bal(snd, &d);
                match rng.below(20) {
                    0 => "-".to_string(),
                    1 => format!("{amt}{other}"),
                    // the right amount of a coin whose name differs from the deposit denom only in letter case
                    7 | 8 if d.to_uppercase() != d || d.to_lowercase() != d => {
                        format!("{amt}{}", if d.to_lowercase() == d { d.to_uppercase() } else { d.to_lowercase() })
                    }
                    2 => format!("{}{}", amt.saturating_sub(1), d),
                    3 => format!("{}{}", amt + 1, d),
                    4 => format!("{amt}{d},1{other}"),
                    5 => format!("0{d}"),
                    6 => format!("{}{}", have + 1, d),
                    _ => format!("{amt}{d}"),
                }
            }
            _ => match rng.below(12) {
                0 => format!("{}{}", rng.below(3), DENOMS[0]),
                1 => format!("1{},1{}", DENOMS[0], DENOMS[1]),
                _ => "-".to_string(),
            },
        }
    }
}

impl Scenario for FlexScen {
    fn start(&mut self, seed: u64, trace: u64) -> String {
        let api = MockApi::default();
        let p = pool(&api, if self.wide { 36 } else { 6 });
        // dry run: learn the deterministic contract addresses (code ids 1..3, instances 1..3)
        let mut app = App::default();
        let c = app.store_code(contract_cw20());
        let g = app.store_code(contract_group());
        let f = app.store_code(contract_flex());
        let cw20 = app
            .instantiate_contract(
                c,
                p[0].clone(),
                &cw20_base::msg::InstantiateMsg {
                    name: "Deposit".into(),
                    symbol: "DEP".into(),
                    decimals: 6,
                    initial_balances: vec![],
                    mint: None,
                    marketing: None,
                },
                &[],
                "cw20",
                None,
            )
            .unwrap();
        let group = app
            .instantiate_contract(
                g,
                p[0].clone(),
                &GroupInst { admin: None, members: vec![Member { addr: p[0].to_string(), weight: 1 }] },
                &[],
                "group",
                None,
            )
            .unwrap();
        let flex = app
            .instantiate_contract(
                f,
                p[0].clone(),
                &FlexInst {
                    group_addr: group.to_string(),
                    threshold: Threshold::AbsoluteCount { weight: 1 },
                    max_voting_period: Duration::Height(1),
                    executor: None,
                    proposal_deposit: None,
                },
                &[],
                "flex",
                None,
            )
            .unwrap();
        let header = format!(
            "scenario {} seed={} trace={} pool={} cw20={} group={} flex={} ghost={}",
            if self.wide { "cw3flexwide wide=1" } else { "cw3flex" },
            seed,
            trace,
            p.iter().map(|a| a.to_string()).collect::<Vec<_>>().join(","),
            cw20,
            group,
            flex,
            api.addr_make("nocontract")
        );
        self.reset(&header);
        header
    }

    fn reset(&mut self, header: &str) {
        let a = Args::parse(header);
        self.app = None;
        self.block = default_block();
        self.pool = a.list("pool").into_iter().map(Addr::unchecked).collect();
        self.cw20 = Addr::unchecked(a.str("cw20"));
        self.group = Addr::unchecked(a.str("group"));
        self.flex = Addr::unchecked(a.str("flex"));
        self.ghost = Addr::unchecked(a.str("ghost"));
        self.seed = a.u64("seed");
        self.ph = vec![];
        self.last_env = false;
        self.fresh_inst = false;
        self.exec_failed = vec![];
        self.group_dirty = false;
        self.wide = a.get("wide") == Some("1");
    }

    fn gen_op(&mut self, rng: &mut Rng, step: usize) -> String {
        let op = self.gen_op_inner(rng, step);
        if self.wide && (op.starts_with("group ") || op.starts_with("inst ") || op.contains(" execute ")) {
            self.group_dirty = true;
        }
        op
    }

    fn apply(&mut self, op: &str) -> Vec<String> {
        self.apply_inner(op)
    }

    /// Small scope: group p0:1, p1:1, p2:2 (total 4) administered by p0, p3 joins / p5 never does, height-based
    /// maximal voting period of 2 blocks.  The prefix instantiates the world and moves to the next block H (nobody
    /// has a snapshot weight in the instantiation block).  Op lines are fixed strings and `env` lines are absolute, so
    /// there is ONE `env` line (to H+1; a second one would let sequences run backwards in time, which no chain does
    /// and which the snapshot monitors rightly flag): proposals with `latest` = H+1 are expired after it, proposals
    /// with the default expiry (H+2) are still open in it, and a proposal made in H+1 with `latest` = H+1 is created
    /// already expired.
    ///   variant 0: AbsoluteCount 2, no deposit, treasury of 2 ucosm
    ///   variant 1: AbsolutePercentage 50 %, refundable native deposit of 1 ucosm, EMPTY treasury (the multisig
    ///              holds exactly the deposits taken; a proposal spends the deposit denom)
    ///   variant 2: ThresholdQuorum 50 % / 50 %, executor = member, no deposit, treasury of 2 ucosm (one proposal
    ///              sends more than the treasury holds)
    ///   variant 3: AbsoluteCount 2, the multisig is registered as hook of the group (every group update calls it)
    ///              and also receives `member_changed_hook` directly from the group address; treasury of 2 ucosm
    fn small_scope(&mut self, variant: u64) -> Option<SmallScope> {
        if self.wide || variant > 3 {
            return None;
        }
        const HALF: u128 = 500_000_000_000_000_000;
        let p = self.pool.clone();
        let (p0, p1, p2, p3, p4, p5) = (&p[0], &p[1], &p[2], &p[3], &p[4], &p[5]);
        let (group, flex) = (self.group.clone(), self.flex.clone());
        let h = self.block.height + 1; // the block the prefix moves to
        let t = self.block.time.nanos() + 5_000_000_000;
        let (thr, hook, executor, dep, treasury) = match variant {
            0 => ("count:2".to_string(), 0, "-", "-", 2),
            1 => (format!("pct:{HALF}"), 0, "-", "native:ucosm:1:1", 0),
            2 => (format!("quorum:{HALF}:{HALF}"), 0, "member", "-", 2),
            _ => ("count:2".to_string(), 1, "-", "-", 2),
        };
        let mut bank: Vec<String> = p.iter().map(|a| format!("{a}:3:0")).collect();
        bank.push(format!("{flex}:{treasury}:0"));
        let cw20bal: Vec<String> = p.iter().map(|a| format!("{a}:0")).collect();
        let inst = format!(
            "inst members=+{p0}:1,+{p1}:1,+{p2}:2 admin={p0} hook={hook} thr={thr} period=h2 executor={executor} deposit={dep} bank={} cw20bal={}",
            bank.join(","),
            cw20bal.join(",")
        );
        let prefix = vec![inst, format!("env height={h} time={t}")];
        let short = format!("h{}", h + 1);
        let mut al = vec![
            format!("group {p0} update_members add=+{p1}:0 remove="),
            format!("group {p0} update_members add=+{p3}:1 remove="),
            format!("group {p0} update_members add= remove=+{p2}"),
        ];
        match variant {
            0 => al.extend([
                format!("exec {p0} propose title=T0 desc=D0 msgs=- latest={short} funds=-"),
                format!("exec {p0} propose title=T0 desc=D0 msgs=self/execute/1 latest=- funds=1ucosm"),
                format!("exec {p1} propose title=T1 desc=D0 msgs=bank/{p4}/1ucosm latest=- funds=-"),
                format!("exec {p3} propose title=T2 desc=D0 msgs=- latest=- funds=-"),
            ]),
            1 => al.extend([
                format!("exec {p0} propose title=T0 desc=D0 msgs=- latest={short} funds=1ucosm"),
                format!("exec {p0} propose title=T0 desc=D0 msgs=- latest=- funds=-"),
                format!("exec {p0} propose title=T0 desc=D0 msgs=- latest=- funds=2ucosm"),
                format!("exec {p1} propose title=T1 desc=D0 msgs=bank/{p4}/1ucosm latest=- funds=1ucosm"),
                format!("exec {p3} propose title=T2 desc=D0 msgs=- latest=- funds=1ucosm"),
            ]),
            2 => al.extend([
                format!("exec {p0} propose title=T0 desc=D0 msgs=- latest={short} funds=-"),
                format!("exec {p1} propose title=T1 desc=D0 msgs=bank/{p4}/1ucosm latest=- funds=-"),
                format!("exec {p1} propose title=T1 desc=D0 msgs=bank/{p4}/3ucosm latest=- funds=-"),
                format!("exec {p3} propose title=T2 desc=D0 msgs=- latest=- funds=-"),
            ]),
            _ => al.extend([
                format!("exec {p0} propose title=T0 desc=D0 msgs=- latest={short} funds=-"),
                format!("exec {p1} propose title=T1 desc=D0 msgs=bank/{p4}/1ucosm latest=- funds=-"),
                format!("exec {p3} propose title=T2 desc=D0 msgs=- latest=- funds=-"),
                format!("exec {group} member_changed_hook"),
            ]),
        }
        al.extend([
            format!("exec {p1} vote id=1 vote=yes"),
            format!("exec {p1} vote id=1 vote=no"),
            format!("exec {p2} vote id=1 vote=yes"),
            format!("exec {p2} vote id=1 vote=no"),
            format!("exec {p2} vote id=2 vote=yes"),
            format!("exec {p3} vote id=1 vote=yes"),
            format!("exec {p0} execute id=1"),
            format!("exec {p5} execute id=1"),
            format!("exec {p0} close id=1"),
            format!("env height={} time={}", h + 1, t + 5_000_000_000),
        ]);
        Some(SmallScope { prefix, alphabet: al })
    }
}

impl FlexScen {
    fn gen_op_inner(&mut self, rng: &mut Rng, _step: usize) -> String {
        if self.app.is_none() {
            self.last_env = false;
            if rng.chance(1, 3) {
                self.last_env = true;
                return self.gen_env(rng);
            }
            self.fresh_inst = true;
            if self.wide {
                self.mode = rng.below(2);
                return self.gen_inst_wide(rng);
            }
            return self.gen_inst(rng);
        }
        if self.wide {
            if self.group_dirty {
                // leave the block in which the group was written (instantiation included)
                self.group_dirty = false;
                self.fresh_inst = false;
                self.last_env = true;
                let dh = *rng.pick(&[1u64, 1, 2]);
                return format!("env height={} time={}", self.block.height + dh, self.block.time.nanos() + dh * 5_000_000_000);
            }
            if rng.chance(19, 20) {
                if let Some(op) = self.gen_wide_op(rng) {
                    self.last_env = op.starts_with("env ");
                    return op;
                }
            }
        }
        // leave the block of the instantiation most of the time (nobody has a snapshot weight in it)
        let p_env = if self.fresh_inst { 19 } else { 10 };
        if !self.last_env && rng.chance(p_env, 20) {
            self.last_env = true;
            self.fresh_inst = false;
            return self.gen_env(rng);
        }
        self.last_env = false;
        self.fresh_inst = false;
        let n = self.ph.len() as u64;
        let cfg = self.config();
        let members = self.members();
        let admin = self.group_admin();
        let admin_is_flex = admin.as_deref() == Some(self.flex.as_str());
        let dep = cfg.as_ref().and_then(|c| c.proposal_deposit.clone());
        let cw20_dep = matches!(dep, Some(DepositInfo { denom: cw20::Denom::Cw20(_), .. }));
        let dep_amt = dep.as_ref().map(|d| d.amount.u128()).unwrap_or(0);
        let member_or_any = |rng: &mut Rng, p_member: u64| -> Addr {
            let eoa: Vec<&(Addr, u64)> = members.iter().filter(|m| m.0 != self.flex).collect();
            if !eoa.is_empty() && rng.chance(p_member, 100) {
                rng.pick(&eoa).0.clone()
            } else {
                rng.pick(&self.pool).clone()
            }
        };
        let allowance = |o: &Addr| -> u128 {
            self.qs::<AllowanceResponse>(&self.cw20, &Cw20QueryMsg::Allowance { owner: o.to_string(), spender: self.flex.to_string() })
                .map(|a| a.allowance.u128())
                .unwrap_or(0)
        };
        let cw20_op = |rng: &mut Rng, snd: &Addr, good: bool| -> String {
            let bal = self.cw20_bal(snd);
            if good {
                return format!("cw20 {} increase_allowance spender=+{} amt={}", snd, self.flex, dep_amt.max(1) * (1 + rng.below(2) as u128));
            }
            match rng.below(8) {
                0 => format!("cw20 {} transfer to=+{} amt={}", snd, rng.pick(&self.pool), if rng.chance(1, 2) { bal } else { rng.below(5) as u128 }),
                1 => format!("cw20 {} decrease_allowance spender=+{} amt={}", snd, self.flex, 1 + rng.below(3)),
                2 => format!("cw20 {} increase_allowance spender=+{} amt={}", snd, rng.pick(&self.pool), 1 + rng.below(9)),
                3 => format!("cw20 {} increase_allowance spender=+{} amt={}", snd, self.flex, dep_amt.saturating_sub(1)),
                4 => format!("cw20 {} increase_allowance spender=+{} amt={}", snd, self.flex, bal + 1),
                5 => format!("cw20 {} increase_allowance spender=-{} amt=1", snd, INVALID_ADDR),
                _ => format!("cw20 {} increase_allowance spender=+{} amt={}", snd, self.flex, dep_amt.max(1)),
            }
        };
        // what can be done with the existing proposals
        let props: Vec<ProposalResponse> = (1..=n).filter_map(|id| self.prop(id)).collect();
        let votable: Vec<u64> = props
            .iter()
            .filter(|p| p.status != Status::Executed && !p.expires.is_expired(&self.block))
            .map(|p| p.id)
            .collect();
        let passed: Vec<u64> = props.iter().filter(|p| p.status == Status::Passed).map(|p| p.id).collect();
        let closable: Vec<u64> = props
            .iter()
            .filter(|p| p.status == Status::Rejected)
            .map(|p| p.id)
            .collect();
        let any_id = |rng: &mut Rng| 1 + rng.below(n + 1);
        // executor = Member, a passed proposal: the group admin removes a member and that very address tries Execute
        // in the same block (a membership check pinned to the block's snapshot would still admit it)
        let exec_member = matches!(cfg.as_ref().and_then(|c| c.executor.clone()), Some(Executor::Member));
        if let Some((h, x)) = self.just_removed.borrow_mut().take() {
            if h == self.block.height && exec_member && !passed.is_empty() {
                return format!("exec {x} execute id={}", rng.pick(&passed));
            }
        }
        if exec_member && !passed.is_empty() && !admin_is_flex && rng.chance(1, 6) {
            if let Some(a) = &admin {
                let members: Vec<Addr> = self
                    .pool
                    .iter()
                    .filter(|m| {
                        self.qs::<MemberResponse>(&self.group, &GroupQuery::Member { addr: m.to_string(), at_height: None })
                            .and_then(|r| r.weight)
                            .is_some()
                    })
                    .cloned()
                    .collect();
                if members.len() >= 2 {
                    let x = rng.pick(&members).clone();
                    *self.just_removed.borrow_mut() = Some((self.block.height, x.clone()));
                    return format!("group {} update_members add= remove=+{}", a, x);
                }
            }
        }
        let w_group = if admin_is_flex { 2 } else { 9 };
        let w_cw20 = if cw20_dep { 6 } else { 2 };
        let w_propose = if n == 0 { 60 } else if n >= 7 { 5 } else { 20 };
        let w_vote = if votable.is_empty() { 4 } else { 34 };
        let w_exec = if passed.is_empty() { 3 } else if passed.iter().all(|i| self.exec_failed.contains(i)) { 6 } else { 16 };
        let w_close = if closable.is_empty() { 3 } else { 12 };
        let w_hook = 3;
        let mut r = rng.below(w_group + w_cw20 + w_propose + w_vote + w_exec + w_close + w_hook);
        if r < w_group {
            let snd = match &admin {
                Some(a) if *a != self.flex.as_str() && rng.chance(9, 10) => Addr::unchecked(a.clone()),
                _ => rng.pick(&self.pool).clone(),
            };
            let (add, remove) = self.gen_update(rng, true);
            return format!("group {} update_members add={} remove={}", snd, add.join(","), remove.join(","));
        }
        r -= w_group;
        if r < w_cw20 {
            let snd = member_or_any(rng, 80);
            return cw20_op(rng, &snd, false);
        }
        r -= w_cw20;
        if r < w_propose {
            let snd = member_or_any(rng, 90);
            if cw20_dep && allowance(&snd) < dep_amt && rng.chance(4, 5) {
                // prepare the deposit first
                return cw20_op(rng, &snd, true);
            }
            let msgs = self.gen_msgs(rng, admin_is_flex);
            let max = cfg.as_ref().map(|c| c.max_voting_period);
            let h = self.block.height;
            let t = self.block.time.nanos();
            let latest = match rng.below(20) {
                0..=13 => "-".to_string(),
                14 => "never".to_string(),
                _ => match max {
                    Some(Duration::Height(p)) => match rng.below(7) {
                        0 => format!("h{}", h.saturating_sub(1)),
                        1 => format!("h{h}"),
                        2 => format!("h{}", h + 1),
                        3 => format!("h{}", h + p),
                        4 => format!("h{}", h + p + 1 + rng.below(4)),
                        5 => format!("t{}", t + 10_000_000_000),
                        _ => format!("h{}", h + 1 + rng.below(p.max(1))),
                    },
                    Some(Duration::Time(p)) => match rng.below(7) {
                        0 => format!("t{}", t.saturating_sub(1)),
                        1 => format!("t{t}"),
                        2 => format!("t{}", t + 1),
                        3 => format!("t{}", t + p * 1_000_000_000),
                        4 => format!("t{}", t + p * 1_000_000_000 + 1 + rng.below(4)),
                        5 => format!("h{}", h + 3),
                        _ => format!("t{}", t + (1 + rng.below(p.max(1))) * 1_000_000_000),
                    },
                    None => "-".to_string(),
                },
            };
            let funds = self.gen_funds(rng, &cfg, &snd);
            return format!(
                "exec {} propose title=T{} desc=D{} msgs={} latest={} funds={}",
                snd,
                rng.below(3),
                rng.below(3),
                msgs,
                latest,
                funds
            );
        }
        r -= w_propose;
        if r < w_vote {
            let id = if !votable.is_empty() && rng.chance(9, 10) { *rng.pick(&votable) } else { any_id(rng) };
            // prefer somebody with a snapshot weight who has not voted on it yet
            let h = self.ph.iter().find(|x| x.0 == id).map(|x| x.1);
            let mut fresh: Vec<Addr> = vec![];
            if let Some(h) = h {
                for m in &self.pool {
                    let w = self
                        .qs::<MemberResponse>(&self.group, &GroupQuery::Member { addr: m.to_string(), at_height: Some(h) })
                        .and_then(|r| r.weight);
                    let voted = !matches!(
                        self.qs::<VoteResponse>(&self.flex, &FlexQuery::Vote { proposal_id: id, voter: m.to_string() }),
                        Some(VoteResponse { vote: None })
                    );
                    if w.unwrap_or(0) >= 1 && !voted {
                        fresh.push(m.clone());
                    }
                }
            }
            let snd = if !fresh.is_empty() && rng.chance(9, 10) { rng.pick(&fresh).clone() } else { rng.pick(&self.pool).clone() };
            let v = *rng.pick(&["yes", "yes", "yes", "yes", "yes", "no", "no", "no", "abstain", "abstain", "veto"]);
            return format!("exec {snd} vote id={id} vote={v}");
        }
        r -= w_vote;
        if r < w_exec {
            let good: Vec<u64> = passed.iter().filter(|i| !self.exec_failed.contains(i)).cloned().collect();
            let id = if !good.is_empty() && rng.chance(9, 10) {
                *rng.pick(&good)
            } else if !passed.is_empty() && rng.chance(1, 2) {
                *rng.pick(&passed)
            } else {
                any_id(rng)
            };
            // with an executor configured, also let addresses that voted on this proposal try (they are not
            // thereby authorised)
            let voters: Vec<Addr> = self
                .qs::<VoteListResponse>(&self.flex, &FlexQuery::ListVotes { proposal_id: id, start_after: None, limit: Some(30) })
                .map(|r| r.votes.into_iter().map(|v| Addr::unchecked(v.voter)).collect())
                .unwrap_or_default();
            let snd = match cfg.as_ref().and_then(|c| c.executor.clone()) {
                Some(Executor::Only(a)) => {
                    if rng.chance(1, 2) || voters.is_empty() { if rng.chance(4, 5) { a } else { rng.pick(&self.pool).clone() } } else { rng.pick(&voters).clone() }
                }
                Some(Executor::Member) => {
                    // addresses whose membership changed earlier in THIS block (the start-of-block snapshot and the
                    // live answer differ): a member removed a moment ago must be refused, one added a moment ago admitted
                    let h = self.block.height;
                    let flipped: Vec<Addr> = self
                        .pool
                        .iter()
                        .filter(|m| {
                            let at = |hh: Option<u64>| {
                                self.qs::<MemberResponse>(&self.group, &GroupQuery::Member { addr: m.to_string(), at_height: hh })
                                    .and_then(|r| r.weight)
                                    .is_some()
                            };
                            at(Some(h)) != at(None)
                        })
                        .cloned()
                        .collect();
                    if !flipped.is_empty() && rng.chance(1, 2) {
                        rng.pick(&flipped).clone()
                    } else if rng.chance(1, 4) && !voters.is_empty() {
                        rng.pick(&voters).clone()
                    } else {
                        member_or_any(rng, 85)
                    }
                }
                _ => rng.pick(&self.pool).clone(),
            };
            return format!("exec {snd} execute id={id}");
        }
        r -= w_exec;
        if r < w_close {
            let id = if !closable.is_empty() && rng.chance(9, 10) { *rng.pick(&closable) } else { any_id(rng) };
            return format!("exec {} close id={}", rng.pick(&self.pool), id);
        }
        let snd = if rng.chance(1, 2) { self.group.clone() } else { rng.pick(&self.pool).clone() };
        format!("exec {snd} member_changed_hook")
    }

    fn apply_inner(&mut self, op: &str) -> Vec<String> {
        let a = Args::parse(op);
        let kind = a.pos.first().map(|s| s.as_str()).unwrap_or("");
        match kind {
            "env" => {
                self.block.height = a.u64("height");
                self.block.time = Timestamp::from_nanos(a.u64("time"));
                if let Some(app) = self.app.as_mut() {
                    app.set_block(self.block.clone());
                }
                vec![]
            }
            "inst" => {
                if self.app.is_some() {
                    return vec!["> err twice=1".to_string(), self.observe(op)];
                }
                self.ph = vec![];
                let ok = catch(|| self.build_world(&a)).unwrap_or(false);
                if !ok {
                    self.app = None;
                }
                vec![if ok { "> ok".to_string() } else { "> err".to_string() }, self.observe(op)]
            }
            "group" => {
                let snd = Addr::unchecked(a.pos.get(1).cloned().unwrap_or_default());
                let add: Vec<Member> = a
                    .list("add")
                    .iter()
                    .map(|e| {
                        let (ad, w) = split_last(e);
                        Member { addr: addr_text(&ad), weight: w.parse().unwrap_or(0) }
                    })
                    .collect();
                let remove: Vec<String> = a.list("remove").iter().map(|e| addr_text(e)).collect();
                let group = self.group.clone();
                let (ok, panicked, _) = self.run(&snd, &group, &GroupExec::UpdateMembers { add, remove }, &[]);
                let o = if ok { "> ok" } else if panicked { "> err panic=1" } else { "> err" };
                vec![o.to_string(), self.observe(op)]
            }
            "cw20" => {
                let snd = Addr::unchecked(a.pos.get(1).cloned().unwrap_or_default());
                let amt = Uint128::new(a.u128("amt"));
                let msg = match a.pos.get(2).map(|s| s.as_str()).unwrap_or("") {
                    "increase_allowance" => {
                        Cw20ExecuteMsg::IncreaseAllowance { spender: addr_text(&a.str("spender")), amount: amt, expires: None }
                    }
                    "decrease_allowance" => {
                        Cw20ExecuteMsg::DecreaseAllowance { spender: addr_text(&a.str("spender")), amount: amt, expires: None }
                    }
                    "transfer" => Cw20ExecuteMsg::Transfer { recipient: addr_text(&a.str("to")), amount: amt },
                    _ => return vec!["> err badop=1".to_string(), self.observe(op)],
                };
                let cw20 = self.cw20.clone();
                let (ok, panicked, _) = self.run(&snd, &cw20, &msg, &[]);
                let o = if ok { "> ok" } else if panicked { "> err panic=1" } else { "> err" };
                vec![o.to_string(), self.observe(op)]
            }
            "exec" => {
                let snd = Addr::unchecked(a.pos.get(1).cloned().unwrap_or_default());
                let k = a.pos.get(2).map(|s| s.as_str()).unwrap_or("");
                let id = a.u64("id");
                let mut funds: Vec<Coin> = vec![];
                let msg = match k {
                    "propose" => {
                        let mut msgs = vec![];
                        if let Some(ms) = a.opt("msgs") {
                            for m in ms.split(';') {
                                match self.parse_msg(m) {
                                    Some(x) => msgs.push(x),
                                    None => return vec!["> err badop=1".to_string(), self.observe(op)],
                                }
                            }
                        }
                        if let Some(fs) = a.opt("funds") {
                            for c in fs.split(',') {
                                match parse_coin(c) {
                                    Some(x) => funds.push(x),
                                    None => return vec!["> err badop=1".to_string(), self.observe(op)],
                                }
                            }
                        }
                        FlexExec::Propose {
                            title: a.str("title"),
                            description: a.str("desc"),
                            msgs,
                            latest: a.opt("latest").and_then(|e| parse_exp(&e)),
                        }
                    }
                    "vote" => match parse_vote(&a.str("vote")) {
                        Some(v) => FlexExec::Vote { proposal_id: id, vote: v },
                        None => return vec!["> err badop=1".to_string(), self.observe(op)],
                    },
                    "execute" => FlexExec::Execute { proposal_id: id },
                    "close" => FlexExec::Close { proposal_id: id },
                    "member_changed_hook" => FlexExec::MemberChangedHook(MemberChangedHookMsg { diffs: vec![] }),
                    _ => return vec!["> err badop=1".to_string(), self.observe(op)],
                };
                let flex = self.flex.clone();
                let (ok, panicked, log) = self.run(&snd, &flex, &msg, &funds);
                if !ok && k == "execute" && matches!(log.first(), Some(Some(_))) && !self.exec_failed.contains(&id) {
                    self.exec_failed.push(id);
                }
                if ok && k == "propose" {
                    let id = self.ph.len() as u64 + 1;
                    self.ph.push((id, self.block.height));
                }
                vec![self.flex_outcome(ok, panicked, &log), self.observe(op)]
            }
            "query" => {
                let k = a.pos.get(1).map(|s| s.as_str()).unwrap_or("");
                let limit = a.opt_u32("limit");
                let after = a.opt("after").map(|s| addr_text(&s));
                let res: Option<Vec<String>> = match k {
                    "list_proposals" => self.q_list_props(a.opt_u64("after"), limit),
                    "reverse_proposals" => self.q_rev_props(a.opt_u64("before"), limit),
                    "list_votes" => self.q_list_votes(a.u64("id"), after, limit),
                    "list_voters" => self.q_list_voters(after, limit),
                    "list_members" => self.q_list_members(after, limit),
                    _ => None,
                };
                match res {
                    Some(r) => vec![format!("> ok result={}", r.join(","))],
                    None => vec!["> err".to_string()],
                }
            }
            _ => vec![],
        }
    }
}
