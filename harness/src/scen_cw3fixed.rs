//! Scenario `cw3fixed`: the real `cw3_fixed_multisig` entry points in APP MODE (cw-multi-test):
//! the multisig holds native coins, proposals carry bank sends, calls back into the multisig
//! (re-entrancy), calls of a "sink" contract that accepts or refuses depending on its state, and
//! calls of an address without contract.  Transactions are atomic (cw-multi-test).
// SCENARIO cw3fixed crate::scen_cw3fixed::FixedScen::new()
// SCENARIO cw3fixedwide crate::scen_cw3fixed::FixedScen::new_wide()
//
// `cw3fixedwide` (C20): a pool of 37 (36 voter candidates + an outsider), long voting periods, many cheap proposals
// and many votes on one proposal, so ListProposals / ReverseProposals / ListVotes / ListVoters exceed the default and
// the maximum page size; frequent explicit page requests.  In wide mode the point queries `pvotes` are made only
// for the voters that the proposal's ListVotes walk returned (still rendered in actor order, as the Lean driver does).
use crate::common::*;
use cosmwasm_schema::cw_serde;
use cosmwasm_std::testing::MockApi;
use cosmwasm_std::{
    coin, from_json, to_json_binary, Addr, BankMsg, Binary, Coin, CosmosMsg, Decimal, Deps, DepsMut, Empty, Env,
    MessageInfo, Response, StdError, StdResult, Timestamp, Uint128, WasmMsg,
};
use cw3::{
    ProposalListResponse, ProposalResponse, Status, Vote, VoteListResponse, VoteResponse, VoterListResponse,
    VoterResponse,
};
use cw3_fixed_multisig::msg::{ExecuteMsg, InstantiateMsg, QueryMsg, Voter};
use cw3_fixed_multisig::state::{CONFIG, PROPOSALS, PROPOSAL_COUNT};
use cw_multi_test::{App, AppBuilder, ContractWrapper, Executor};
use cw_storage_plus::Item;
use cw_utils::{Duration, Expiration, Threshold, ThresholdResponse};

const DENOMS: [&str; 2] = ["ucosm", "uatom"];
const FUNDER_START: u128 = 1_000_000_000_000_000_000_000_000_000_000;

// ---- the sink contract: accepts or refuses calls depending on a stored flag
#[cw_serde]
pub enum SinkMsg {
    Call { tag: String },
    Set { ok: bool },
}
const SINK_OK: Item<bool> = Item::new("ok");

fn sink_inst(deps: DepsMut, _e: Env, _i: MessageInfo, _m: Empty) -> StdResult<Response> {
    SINK_OK.save(deps.storage, &true)?;
    Ok(Response::new())
}
fn sink_exec(deps: DepsMut, _e: Env, _i: MessageInfo, m: SinkMsg) -> StdResult<Response> {
    match m {
        SinkMsg::Call { .. } => {
            if SINK_OK.load(deps.storage)? {
                Ok(Response::new())
            } else {
                Err(StdError::generic_err("refused"))
            }
        }
        SinkMsg::Set { ok } => {
            SINK_OK.save(deps.storage, &ok)?;
            Ok(Response::new())
        }
    }
}
fn sink_query(_d: Deps, _e: Env, _m: Empty) -> StdResult<Binary> {
    to_json_binary(&Empty {})
}

/// The real `execute`, behind the harness' call budget (stands for gas; see `common::CALL_BUDGET`).
fn ms_execute_budgeted(
    deps: cosmwasm_std::DepsMut,
    env: cosmwasm_std::Env,
    info: cosmwasm_std::MessageInfo,
    msg: ExecuteMsg,
) -> Result<cosmwasm_std::Response, cw3_fixed_multisig::ContractError> {
    if call_budget_exhausted() {
        return Err(cosmwasm_std::StdError::generic_err("harness: call budget exhausted (out of gas)").into());
    }
    cw3_fixed_multisig::contract::execute(deps, env, info, msg)
}

pub struct FixedScen {
    app: App,
    pool: Vec<Addr>,
    funder: Addr,
    nocontract: Addr,
    /// predicted (header) / actual address of the multisig
    me: Addr,
    sink: Option<Addr>,
    contract: Option<Addr>,
    height: u64,
    time: u64,
    seed: u64,
    /// `maxp` of the accepted instantiation (from the op line)
    maxp: String,
    /// `cw3fixedwide` (C20)
    wide: bool,
    /// generator (wide): 0 = proposal-heavy trace, 1 = vote-heavy trace
    mode: u64,
}

fn new_app(funder: &Addr) -> App {
    AppBuilder::new().build(|router, _api, storage| {
        let coins: Vec<Coin> = DENOMS.iter().map(|d| coin(FUNDER_START, *d)).collect();
        router.bank.init_balance(storage, funder, coins).unwrap();
    })
}

fn render_status(s: Status) -> &'static str {
    match s {
        Status::Pending => "pending",
        Status::Open => "open",
        Status::Rejected => "rejected",
        Status::Passed => "passed",
        Status::Executed => "executed",
    }
}

fn render_vote(v: Vote) -> &'static str {
    match v {
        Vote::Yes => "yes",
        Vote::No => "no",
        Vote::Abstain => "abstain",
        Vote::Veto => "veto",
    }
}

fn parse_vote(s: &str) -> Vote {
    match s {
        "yes" => Vote::Yes,
        "no" => Vote::No,
        "abstain" => Vote::Abstain,
        _ => Vote::Veto,
    }
}

fn dec(atomics: u128) -> Decimal {
    Decimal::new(Uint128::new(atomics))
}

fn parse_thr(s: &str) -> Threshold {
    let p: Vec<&str> = s.split(':').collect();
    let n = |i: usize| -> u128 { p.get(i).and_then(|x| x.parse().ok()).unwrap_or(0) };
    match p[0] {
        "count" => Threshold::AbsoluteCount { weight: n(1) as u64 },
        "pct" => Threshold::AbsolutePercentage { percentage: dec(n(1)) },
        _ => Threshold::ThresholdQuorum { threshold: dec(n(1)), quorum: dec(n(2)) },
    }
}

/// -> (threshold text, total_weight)
fn render_thr(t: &ThresholdResponse) -> (String, u64) {
    match t {
        ThresholdResponse::AbsoluteCount { weight, total_weight } => (format!("count:{weight}"), *total_weight),
        ThresholdResponse::AbsolutePercentage { percentage, total_weight } => {
            (format!("pct:{}", percentage.atomics()), *total_weight)
        }
        ThresholdResponse::ThresholdQuorum { threshold, quorum, total_weight } => {
            (format!("quorum:{}:{}", threshold.atomics(), quorum.atomics()), *total_weight)
        }
    }
}

impl FixedScen {
    pub fn new() -> Self {
        let api = MockApi::default();
        let funder = api.addr_make("funder");
        FixedScen {
            app: new_app(&funder),
            pool: vec![],
            funder,
            nocontract: api.addr_make("nocontract"),
            me: Addr::unchecked(""),
            sink: None,
            contract: None,
            height: 12345,
            time: 1571797419879305533,
            seed: 0,
            maxp: String::new(),
            wide: false,
            mode: 0,
        }
    }

    pub fn new_wide() -> Self {
        let mut s = Self::new();
        s.wide = true;
        s
    }

    /// A fresh chain: bank with the funder's coins, the sink contract at `contract0`.
    fn fresh_chain(&mut self) -> (u64, Addr) {
        self.app = new_app(&self.funder);
        self.set_block();
        let sink_id = self.app.store_code(Box::new(ContractWrapper::new(sink_exec, sink_inst, sink_query)));
        let ms_id = self.app.store_code(Box::new(ContractWrapper::new(
            ms_execute_budgeted,
            cw3_fixed_multisig::contract::instantiate,
            cw3_fixed_multisig::contract::query,
        )));
        let sink = self.app.instantiate_contract(sink_id, self.funder.clone(), &Empty {}, &[], "sink", None).unwrap();
        self.sink = Some(sink.clone());
        (ms_id, sink)
    }

    fn set_block(&mut self) {
        let mut b = self.app.block_info();
        b.height = self.height;
        b.time = Timestamp::from_nanos(self.time);
        self.app.set_block(b);
    }

    /// The address a multisig instantiated on a fresh chain gets.
    fn predict_self(&mut self) -> Addr {
        let (ms_id, _) = self.fresh_chain();
        let msg = InstantiateMsg {
            voters: vec![Voter { addr: self.funder.to_string(), weight: 1 }],
            threshold: Threshold::AbsoluteCount { weight: 1 },
            max_voting_period: Duration::Height(1),
        };
        self.app.instantiate_contract(ms_id, self.funder.clone(), &msg, &[], "probe", None).unwrap()
    }

    fn q<T: serde::de::DeserializeOwned>(&self, msg: &QueryMsg) -> Option<T> {
        let c = self.contract.as_ref()?;
        match catch(|| self.app.wrap().query_wasm_smart::<T>(c.clone(), msg)) {
            Some(Ok(v)) => Some(v),
            _ => None,
        }
    }

    // ---- message language <-> CosmosMsg
    fn parse_msg(&self, s: &str) -> CosmosMsg {
        let p: Vec<&str> = s.split(':').collect();
        let me = self.me.to_string();
        let call = |m: &ExecuteMsg| -> CosmosMsg {
            WasmMsg::Execute { contract_addr: me.clone(), msg: to_json_binary(m).unwrap(), funds: vec![] }.into()
        };
        let num = |i: usize| -> u64 { p.get(i).and_then(|x| x.parse().ok()).unwrap_or(0) };
        match p[0] {
            "bank" => BankMsg::Send {
                to_address: p.get(1).unwrap_or(&"").to_string(),
                amount: vec![coin(p.get(2).and_then(|x| x.parse().ok()).unwrap_or(0), p.get(3).unwrap_or(&"ucosm").to_string())],
            }
            .into(),
            // self-calls are built with the `packages/cw3` helper (`Cw3Contract`), so the helper is inside the tie.
            // (`Cw3Contract::proposal` is not usable here: it always emits the cw3 spec's `earliest` field, which
            // both multisigs of this repository reject as an unknown field.)
            "sx" => cw3::Cw3Contract(self.me.clone()).execute(num(1)).unwrap_or_else(|_| call(&ExecuteMsg::Execute { proposal_id: num(1) })),
            "sc" => cw3::Cw3Contract(self.me.clone()).close(num(1)).unwrap_or_else(|_| call(&ExecuteMsg::Close { proposal_id: num(1) })),
            "sv" => {
                let v = parse_vote(p.get(2).unwrap_or(&"veto"));
                cw3::Cw3Contract(self.me.clone()).vote(num(1), v).unwrap_or_else(|_| call(&ExecuteMsg::Vote { proposal_id: num(1), vote: v }))
            }
            "sp" => call(&ExecuteMsg::Propose {
                title: "self".into(),
                description: "self".into(),
                msgs: vec![],
                latest: parse_exp(p.get(1).unwrap_or(&"-")),
            }),
            "other" => WasmMsg::Execute {
                contract_addr: self.sink.as_ref().map(|a| a.to_string()).unwrap_or_default(),
                msg: to_json_binary(&SinkMsg::Call { tag: p.get(1).unwrap_or(&"").to_string() }).unwrap(),
                funds: vec![],
            }
            .into(),
            _ => WasmMsg::Execute {
                contract_addr: self.nocontract.to_string(),
                msg: to_json_binary(&SinkMsg::Call { tag: p.get(1).unwrap_or(&"").to_string() }).unwrap(),
                funds: vec![],
            }
            .into(),
        }
    }

    fn render_msg(&self, m: &CosmosMsg) -> String {
        match m {
            CosmosMsg::Bank(BankMsg::Send { to_address, amount }) if amount.len() == 1 => {
                format!("bank:{}:{}:{}", to_address, amount[0].amount, amount[0].denom)
            }
            CosmosMsg::Wasm(WasmMsg::Execute { contract_addr, msg, funds }) if funds.is_empty() => {
                if *contract_addr == self.me.to_string() {
                    match from_json::<ExecuteMsg>(msg) {
                        Ok(ExecuteMsg::Execute { proposal_id }) => format!("sx:{proposal_id}"),
                        Ok(ExecuteMsg::Close { proposal_id }) => format!("sc:{proposal_id}"),
                        Ok(ExecuteMsg::Vote { proposal_id, vote }) => format!("sv:{}:{}", proposal_id, render_vote(vote)),
                        Ok(ExecuteMsg::Propose { title, description, msgs, latest })
                            if title == "self" && description == "self" && msgs.is_empty() =>
                        {
                            format!("sp:{}", latest.map(|e| render_exp(&e)).unwrap_or("-".into()))
                        }
                        _ => "self?".to_string(),
                    }
                } else {
                    let tag = match from_json::<SinkMsg>(msg) {
                        Ok(SinkMsg::Call { tag }) => tag,
                        _ => "?".to_string(),
                    };
                    if Some(contract_addr.clone()) == self.sink.as_ref().map(|a| a.to_string()) {
                        format!("other:{tag}")
                    } else if *contract_addr == self.nocontract.to_string() {
                        format!("nc:{tag}")
                    } else {
                        "wasm?".to_string()
                    }
                }
            }
            _ => "msg?".to_string(),
        }
    }

    fn render_prop(&self, p: &ProposalResponse) -> String {
        let (thr, total) = render_thr(&p.threshold);
        format!(
            "{}|{}|{}|{}|{}|{}|{}|{}|{}|{}",
            p.id,
            render_status(p.status),
            render_exp(&p.expires),
            thr,
            total,
            p.proposer,
            p.title,
            p.description,
            if p.deposit.is_some() { "deposit" } else { "-" },
            p.msgs.iter().map(|m| self.render_msg(m)).collect::<Vec<_>>().join("+")
        )
    }

    fn list_props(&self, after: Option<u64>, limit: Option<u32>) -> Option<Vec<ProposalResponse>> {
        self.q::<ProposalListResponse>(&QueryMsg::ListProposals { start_after: after, limit }).map(|r| r.proposals)
    }
    fn rev_props(&self, before: Option<u64>, limit: Option<u32>) -> Option<Vec<ProposalResponse>> {
        self.q::<ProposalListResponse>(&QueryMsg::ReverseProposals { start_before: before, limit }).map(|r| r.proposals)
    }

    /// all proposals, ascending (default page size; used by the generator)
    fn all_props(&self) -> Vec<ProposalResponse> {
        let mut out = vec![];
        let mut cur = None;
        for _ in 0..1000 {
            match self.list_props(cur, Some(30)) {
                Some(p) if !p.is_empty() => {
                    let next = Some(p.last().unwrap().id);
                    if next == cur {
                        break; // no progress (a defect in the code under test): do not walk forever
                    }
                    cur = next;
                    out.extend(p);
                }
                _ => break,
            }
        }
        out
    }

    fn all_voters(&self) -> Vec<(String, u64)> {
        let mut out: Vec<(String, u64)> = vec![];
        let mut cur: Option<String> = None;
        for _ in 0..1000 {
            match self.q::<VoterListResponse>(&QueryMsg::ListVoters { start_after: cur.clone(), limit: Some(30) }) {
                Some(r) if !r.voters.is_empty() => {
                    let next = Some(r.voters.last().unwrap().addr.clone());
                    if next == cur {
                        break; // no progress (a defect in the code under test): do not walk forever
                    }
                    cur = next;
                    out.extend(r.voters.into_iter().map(|v| (v.addr, v.weight)));
                }
                _ => break,
            }
        }
        out
    }

    /// all ballots of a proposal as `voter:weight:vote` (page size 30)
    fn all_votes(&self, id: u64) -> Vec<String> {
        let mut out: Vec<String> = vec![];
        let mut cur: Option<String> = None;
        for _ in 0..1000 {
            match self.list_votes(id, cur.clone(), Some(30)) {
                Some(p) if !p.is_empty() => {
                    let next = Some(p.last().unwrap().split(':').next().unwrap().to_string());
                    if next == cur {
                        break; // no progress (a defect in the code under test): do not walk forever
                    }
                    cur = next;
                    out.extend(p);
                }
                _ => break,
            }
        }
        out
    }

    fn list_votes(&self, id: u64, after: Option<String>, limit: Option<u32>) -> Option<Vec<String>> {
        self.q::<VoteListResponse>(&QueryMsg::ListVotes { proposal_id: id, start_after: after, limit })
            .map(|r| r.votes.iter().map(|v| format!("{}:{}:{}", v.voter, v.weight, render_vote(v.vote))).collect())
    }

    fn list_voters(&self, after: Option<String>, limit: Option<u32>) -> Option<Vec<String>> {
        self.q::<VoterListResponse>(&QueryMsg::ListVoters { start_after: after, limit })
            .map(|r| r.voters.iter().map(|v| format!("{}:{}", v.addr, v.weight)).collect())
    }

    fn actors(&self) -> Vec<Addr> {
        let mut v = self.pool.clone();
        v.push(self.me.clone());
        v
    }

    fn observe(&self, salt: &str) -> String {
        if self.contract.is_none() {
            return "obs uninit=1".to_string();
        }
        let c = self.contract.clone().unwrap();
        let mut rng = Rng::new(hash_str(salt) ^ self.seed);
        let mut lim = || -> Option<u32> {
            match rng.below(7) {
                0 => None,
                1 => Some(1),
                2 => Some(2),
                3 => Some(3),
                4 => Some(30),
                5 => Some(100),
                _ => Some(7),
            }
        };
        let (thr, total) = match self.q::<ThresholdResponse>(&QueryMsg::Threshold {}) {
            Some(t) => render_thr(&t),
            None => ("?".to_string(), 0),
        };
        // voters: paged listing + point queries
        let l = lim();
        let mut voters: Vec<String> = vec![];
        let mut cur: Option<String> = None;
        for _ in 0..1000 {
            match self.q::<VoterListResponse>(&QueryMsg::ListVoters { start_after: cur.clone(), limit: l }) {
                Some(r) if !r.voters.is_empty() => {
                    let next = Some(r.voters.last().unwrap().addr.clone());
                    if next == cur {
                        break; // no progress (a defect in the code under test): do not walk forever
                    }
                    cur = next;
                    voters.extend(r.voters.iter().map(|v| format!("{}:{}", v.addr, v.weight)));
                }
                _ => break,
            }
        }
        let pvoters: Vec<String> = self
            .actors()
            .iter()
            .map(|a| {
                let w = self.q::<VoterResponse>(&QueryMsg::Voter { address: a.to_string() }).and_then(|r| r.weight);
                format!("{}:{}", a, opt_str(&w))
            })
            .collect();
        // proposals: ascending pages, descending pages, point queries
        let l = lim();
        let mut props: Vec<ProposalResponse> = vec![];
        let mut cur = None;
        for _ in 0..1000 {
            match self.list_props(cur, l) {
                Some(p) if !p.is_empty() => {
                    let next = Some(p.last().unwrap().id);
                    if next == cur {
                        break; // no progress (a defect in the code under test): do not walk forever
                    }
                    cur = next;
                    props.extend(p);
                }
                _ => break,
            }
        }
        let l = lim();
        let mut rprops: Vec<String> = vec![];
        let mut cur = None;
        for _ in 0..1000 {
            match self.rev_props(cur, l) {
                Some(p) if !p.is_empty() => {
                    let next = Some(p.last().unwrap().id);
                    if next == cur {
                        break; // no progress (a defect in the code under test): do not walk forever
                    }
                    cur = next;
                    rprops.extend(p.iter().map(|x| self.render_prop(x)));
                }
                _ => break,
            }
        }
        let maxid = props.iter().map(|p| p.id).max().unwrap_or(0);
        let mut pprops: Vec<String> = vec![];
        for id in 1..=maxid + 1 {
            match self.q::<ProposalResponse>(&QueryMsg::Proposal { proposal_id: id }) {
                Some(p) => pprops.push(self.render_prop(&p)),
                None => pprops.push(format!("{id}|none")),
            }
        }
        // ballots: paged listing per proposal + point queries; stored record (raw query)
        let mut votes: Vec<String> = vec![];
        let mut pvotes: Vec<String> = vec![];
        let mut raw: Vec<String> = vec![];
        let mut nvotes: Vec<(usize, u64)> = vec![];
        for p in &props {
            let l = lim();
            let mut cur: Option<String> = None;
            let mut listed: Vec<String> = vec![];
            for _ in 0..1000 {
                match self.q::<VoteListResponse>(&QueryMsg::ListVotes { proposal_id: p.id, start_after: cur.clone(), limit: l }) {
                    Some(r) if !r.votes.is_empty() => {
                        let next = Some(r.votes.last().unwrap().voter.clone());
                        if next == cur {
                            break; // no progress (a defect in the code under test): do not walk forever
                        }
                        cur = next;
                        votes.extend(r.votes.iter().map(|v| format!("{}>{}:{}:{}", p.id, v.voter, v.weight, render_vote(v.vote))));
                        listed.extend(r.votes.iter().map(|v| v.voter.clone()));
                    }
                    _ => break,
                }
            }
            nvotes.push((listed.len(), p.id));
            for a in self.actors() {
                // wide: point queries only for the voters the listing returned
                if self.wide && !listed.iter().any(|v| v == a.as_str()) {
                    continue;
                }
                if let Some(VoteResponse { vote: Some(v) }) =
                    self.q::<VoteResponse>(&QueryMsg::Vote { proposal_id: p.id, voter: a.to_string() })
                {
                    pvotes.push(format!("{}>{}:{}:{}", v.proposal_id, v.voter, v.weight, render_vote(v.vote)));
                }
            }
            match PROPOSALS.query(&self.app.wrap(), c.clone(), p.id) {
                Ok(Some(sp)) => raw.push(format!(
                    "{}|{}|{}:{}:{}:{}|{}",
                    p.id,
                    render_status(sp.status),
                    sp.votes.yes,
                    sp.votes.no,
                    sp.votes.abstain,
                    sp.votes.veto,
                    sp.start_height
                )),
                _ => raw.push(format!("{}|none", p.id)),
            }
        }
        // bank
        let mut bal: Vec<String> = vec![];
        for a in self.actors() {
            for d in DENOMS {
                let b = self.app.wrap().query_balance(a.to_string(), d).map(|c| c.amount.u128()).unwrap_or(0);
                if b != 0 {
                    bal.push(format!("{a}:{d}:{b}"));
                }
            }
        }
        let sink_ok = self
            .sink
            .as_ref()
            .and_then(|s| SINK_OK.query(&self.app.wrap(), s.clone()).ok())
            .unwrap_or(true);
        // C20 self-check of the listings (ListVotes: the three proposals with the most ballots)
        let short = |ps: Vec<ProposalResponse>| -> Vec<String> {
            ps.iter().map(|p| format!("{}:{}", p.id, render_status(p.status))).collect()
        };
        let mut pagediff: Vec<String> = vec![];
        if let Some(d) = paging_audit("list_proposals", &|c, l| self.list_props(c.and_then(|x| x.parse().ok()), l).map(short)) {
            pagediff.push(d);
        }
        if let Some(d) = paging_audit("reverse_proposals", &|c, l| self.rev_props(c.and_then(|x| x.parse().ok()), l).map(short)) {
            pagediff.push(d);
        }
        if let Some(d) = paging_audit("list_voters", &|c, l| self.list_voters(c, l)) {
            pagediff.push(d);
        }
        nvotes.sort_by(|a, b| b.0.cmp(&a.0).then(a.1.cmp(&b.1)));
        for (_, id) in nvotes.iter().take(3) {
            if let Some(d) = paging_audit("list_votes", &|c, l| self.list_votes(*id, c, l)) {
                pagediff.push(d);
            }
        }
        pagediff.dedup();
        // what no query shows (raw reads): the configured maximal voting period, the proposal counter.  With
        // them the observation determines the whole contract state (model resynchronisation).
        let maxp = match CONFIG.query(&self.app.wrap(), c.clone()) {
            Ok(cfg) => render_dur(&cfg.max_voting_period),
            Err(_) => "?".to_string(),
        };
        let count = PROPOSAL_COUNT.query(&self.app.wrap(), c.clone()).unwrap_or(0);
        format!(
            "obs pagediff={} thr={} total={} voters={} pvoters={} props={} rprops={} pprops={} votes={} pvotes={} raw={} bal={} sink={} maxp={} count={}",
            pagediff.join(","),
            thr,
            total,
            voters.join(","),
            pvoters.join(","),
            props.iter().map(|p| self.render_prop(p)).collect::<Vec<_>>().join(","),
            rprops.join(","),
            pprops.join(","),
            votes.join(","),
            pvotes.join(","),
            raw.join(","),
            bal.join(","),
            if sink_ok { 1 } else { 0 },
            maxp,
            count
        )
    }

    // ---- generator helpers
    /// `cw3fixedwide`: many voters with small weights, a long voting period
    fn gen_inst_wide(&self, rng: &mut Rng) -> String {
        let cands: Vec<Addr> = self.pool[..self.pool.len() - 1].to_vec();
        let n = if rng.chance(5, 6) { 33 + rng.below(4) as usize } else { 1 + rng.below(cands.len() as u64) as usize };
        let start = rng.below(cands.len() as u64) as usize;
        let mut total: u64 = 0;
        let mut voters: Vec<String> = vec![];
        for i in 0..n.min(cands.len()) {
            let w = if rng.chance(1, 40) { 0 } else { 1 + rng.below(3) };
            total += w;
            voters.push(format!("+{}:{}", cands[(start + i * 7) % cands.len()], w));
        }
        let t = total.max(1);
        let thr = match rng.below(4) {
            0 => format!("count:{}", 1 + rng.below(t)),
            1 => format!("count:{t}"),
            2 => format!("pct:{}", *rng.pick(&[500_000_000_000_000_000u128, 600_000_000_000_000_000, 1_000_000_000_000_000_000])),
            _ => format!("quorum:{}:{}", 500_000_000_000_000_000u128, *rng.pick(&[300_000_000_000_000_000u128, 800_000_000_000_000_000])),
        };
        let maxp = if rng.chance(2, 3) { format!("h{}", 500 + rng.below(2000)) } else { format!("t{}", 50_000 + rng.below(50_000)) };
        format!("inst voters={} thr={} maxp={} funds={} funds2={}", voters.join(","), thr, maxp, rng.below(120), 0)
    }

    /// `cw3fixedwide`: an explicit page request (cursor: none, an existing key, a non-key)
    fn gen_page_query(&self, rng: &mut Rng, next_id: u64, voters: &[(String, u64)], focus: u64) -> String {
        let lim = *rng.pick(&["-", "0", "1", "9", "10", "11", "29", "30", "31", "32", "100"]);
        let idc = match rng.below(8) {
            0 | 1 => "-".to_string(),
            2 => "0".to_string(),
            3 => (next_id + rng.below(7)).to_string(),
            4 if rng.chance(1, 3) => u64::MAX.to_string(),
            _ => (1 + rng.below(next_id.max(2) - 1)).to_string(),
        };
        let ac = match rng.below(8) {
            0 | 1 => "-".to_string(),
            2 => rng.pick(&self.pool).to_string(),
            3 => "cosmwasm1m".to_string(),
            _ if !voters.is_empty() => rng.pick(voters).0.clone(),
            _ => "-".to_string(),
        };
        match rng.below(8) {
            0 | 1 => format!("query list_proposals after={idc} limit={lim}"),
            2 | 3 => format!("query reverse_proposals before={idc} limit={lim}"),
            4 | 5 => {
                let id = if rng.chance(3, 4) { focus } else { rng.below(next_id + 1) };
                format!("query list_votes id={id} after={ac} limit={lim}")
            }
            _ => format!("query list_voters after={ac} limit={lim}"),
        }
    }

    fn gen_inst(&self, rng: &mut Rng) -> String {
        let n = 1 + rng.below(6) as usize;
        let mut voters: Vec<String> = vec![];
        let mut total: u128 = 0;
        let mut cands: Vec<Addr> = self.pool[..self.pool.len() - 1].to_vec(); // the last pool address stays an outsider
        if rng.chance(1, 4) {
            cands.push(self.me.clone());
        }
        let mut used: Vec<String> = vec![];
        let n = if rng.chance(1, 40) { 0 } else { n.min(cands.len()) };
        for i in 0..n {
            let a = if rng.chance(1, 25) && !used.is_empty() {
                rng.pick(&used).clone() // duplicate
            } else if rng.chance(1, 40) {
                if rng.chance(1, 3) {
                    "-".to_string() // a blank row: the empty address (seeded change C06-20)
                } else {
                    format!("-{}", invalid_addr(rng, &self.pool))
                }
            } else {
                format!("+{}", cands[(i + (self.seed as usize)) % cands.len()])
            };
            let w: u64 = match rng.below(20) {
                0 | 1 | 2 => 0,
                3 => *rng.pick(&[u64::MAX, u64::MAX - 1, u64::MAX / 2, 1u64 << 63, u64::MAX - total.min(u64::MAX as u128) as u64]),
                4 => 1 + rng.below(1000),
                _ => 1 + rng.below(5),
            };
            total += w as u128;
            used.push(a.clone());
            voters.push(format!("{a}:{w}"));
        }
        let t = total.min(u64::MAX as u128) as u64;
        const ONE: u128 = 1_000_000_000_000_000_000;
        let pcts: [u128; 12] = [
            ONE / 2,
            ONE / 2 + 1,
            510_000_000_000_000_000,
            600_000_000_000_000_000,
            666_666_666_666_666_667,
            500_000_100_000_000_000, // 0.5000001: 'strictly more than half' with 7 decimals
            750_000_000_000_000_000,
            ONE,
            999_999_999_999_999_999,
            ONE / 2 - 1,
            ONE + 1,
            333_333_333_333_333_333,
        ];
        let good_pct = |rng: &mut Rng| -> u128 { pcts[rng.below(9) as usize] };
        let thr = match rng.below(3) {
            0 => {
                let k = match rng.below(10) {
                    0 => 0,
                    1 => t.saturating_add(1),
                    2 => t,
                    3 => 1,
                    4 => t / 2 + 1,
                    5 => t / 2,
                    _ => 1 + rng.below(t.max(1)),
                };
                format!("count:{k}")
            }
            1 => {
                let p = if rng.chance(1, 12) { *rng.pick(&pcts) } else { good_pct(rng) };
                format!("pct:{p}")
            }
            _ => {
                let th = if rng.chance(1, 15) { *rng.pick(&pcts) } else { good_pct(rng) };
                let q = match rng.below(14) {
                    0 => 0,
                    1 => ONE + 1,
                    2 => 1,
                    3 => ONE,
                    4 => 333_333_333_333_333_333,
                    5 => 10_000_000_000_000_000,
                    6 => ONE / 2,
                    7 => 300_000_000_000_000_000,
                    _ => *rng.pick(&[ONE / 4, ONE / 5, 400_000_000_000_000_000, 600_000_000_000_000_000, 800_000_000_000_000_000]),
                };
                format!("quorum:{th}:{q}")
            }
        };
        let maxp = match rng.below(120) {
            0 => format!("h{}", u64::MAX - self.height - 3 + rng.below(5)),
            1 => format!("t{}", (u64::MAX - self.time) / 1_000_000_000 - 30 + rng.below(32)),
            2 => format!("t{}", u64::MAX / 1_000_000_000 + 1),
            3 | 4 => "h0".to_string(),
            x if x < 66 => format!("h{}", 1 + rng.below(8)),
            _ => format!("t{}", 3 + rng.below(60)),
        };
        let f1 = if rng.chance(1, 6) { 0 } else { rng.below(120) };
        let f2 = if rng.chance(1, 2) { 0 } else { rng.below(30) };
        format!("inst voters={} thr={} maxp={} funds={} funds2={}", voters.join(","), thr, maxp, f1, f2)
    }

    fn gen_latest(&self, rng: &mut Rng) -> String {
        let h = self.height;
        let t = self.time;
        let mut k = rng.below(30);
        // mostly the same kind as max_voting_period (a height and a time are incomparable)
        if rng.chance(6, 7) {
            let height_kind = self.maxp.starts_with('h');
            for _ in 0..20 {
                let is_h = matches!(k, 15..=21 | 29);
                let is_t = matches!(k, 22..=28);
                if (height_kind && is_t) || (!height_kind && is_h) {
                    k = rng.below(30);
                } else {
                    break;
                }
            }
        }
        match k {
            0..=13 => "-".to_string(),
            14 => "never".to_string(),
            15 => format!("h{}", h.saturating_sub(1)),
            16 => format!("h{h}"),
            17 | 18 => format!("h{}", h + 1),
            19 | 20 => format!("h{}", h + 1 + rng.below(9)),
            21 => format!("h{}", h + 1000),
            22 => format!("t{}", t.saturating_sub(1)),
            23 => format!("t{t}"),
            24 => format!("t{}", t + 1),
            25 | 26 | 27 => format!("t{}", t + (1 + rng.below(60)) * 1_000_000_000),
            28 => format!("t{}", t + 1_000_000_000_000_000),
            _ => format!("h{}", h + 2),
        }
    }

    fn gen_msgs(&self, rng: &mut Rng, next_id: u64) -> String {
        let n = match rng.below(10) {
            0 | 1 => 0,
            2..=6 => 1,
            7 | 8 => 2,
            _ => 3,
        };
        let mybal = |d: &str| -> u128 {
            self.app.wrap().query_balance(self.me.to_string(), d).map(|c| c.amount.u128()).unwrap_or(0)
        };
        let mut v = vec![];
        for _ in 0..n {
            let id = match rng.below(6) {
                0 => next_id,
                1 => next_id + 1,
                _ => 1 + rng.below(next_id.max(1)),
            };
            let m = match rng.below(20) {
                0..=8 => {
                    let d = if rng.chance(4, 5) { DENOMS[0] } else { DENOMS[1] };
                    let b = mybal(d);
                    let amt = match rng.below(10) {
                        0 => 0,
                        1 => b,
                        2 => b + 1,
                        3 => b / 2 + 1,
                        _ => 1 + rng.below(25) as u128,
                    };
                    let to = if rng.chance(1, 12) { self.me.clone() } else { rng.pick(&self.pool).clone() };
                    format!("bank:{to}:{amt}:{d}")
                }
                9 | 10 => format!("sx:{id}"),
                11 => format!("sc:{id}"),
                12 | 13 => format!("sv:{}:{}", id, *rng.pick(&["yes", "no", "abstain", "veto"])),
                14 => format!("sp:{}", self.gen_latest(rng)),
                15..=18 => format!("other:g{}", rng.below(4)),
                _ => format!("nc:n{}", rng.below(3)),
            };
            v.push(m);
        }
        // the same message more than once (adjacent or not): "exactly as proposed" includes repeats
        if !v.is_empty() && rng.chance(1, 5) {
            let i = rng.below(v.len() as u64) as usize;
            let m = v[i].clone();
            if rng.chance(2, 3) {
                v.insert(i, m);
            } else {
                v.push(m);
            }
        }
        v.join(",")
    }
}

impl Scenario for FixedScen {
    fn start(&mut self, seed: u64, trace: u64) -> String {
        let api = MockApi::default();
        let p = pool(&api, if self.wide { 37 } else { 6 });
        self.height = 12345;
        self.time = 1571797419879305533;
        let me = self.predict_self();
        let header = format!(
            "scenario {} seed={} trace={} pool={} self={}",
            if self.wide { "cw3fixedwide wide=1" } else { "cw3fixed" },
            seed,
            trace,
            p.iter().map(|a| a.to_string()).collect::<Vec<_>>().join(","),
            me
        );
        self.reset(&header);
        header
    }

    fn reset(&mut self, header: &str) {
        let a = Args::parse(header);
        self.pool = a.list("pool").into_iter().map(Addr::unchecked).collect();
        self.me = Addr::unchecked(a.str("self"));
        self.seed = a.u64("seed") ^ a.u64("trace").wrapping_mul(0x9E3779B97F4A7C15);
        self.height = 12345;
        self.time = 1571797419879305533;
        self.contract = None;
        self.wide = a.get("wide") == Some("1");
        self.fresh_chain();
    }

    fn gen_op(&mut self, rng: &mut Rng, _step: usize) -> String {
        if self.contract.is_none() {
            if self.wide {
                self.mode = rng.below(2);
                return self.gen_inst_wide(rng);
            }
            return self.gen_inst(rng);
        }
        let props = self.all_props();
        let voters = self.all_voters();
        let next_id = props.len() as u64 + 1;
        if self.wide && rng.chance(19, 20) {
            let (height, time) = (self.height, self.time);
            let open_for_votes = |p: &ProposalResponse| -> bool {
                p.status != Status::Executed
                    && match p.expires {
                        Expiration::AtHeight(h) => height < h,
                        Expiration::AtTime(t) => time < t.nanos(),
                        Expiration::Never {} => true,
                    }
            };
            // the focus proposal: the first one still open for votes that not every voter has voted on
            let mut focus = 0u64;
            let mut focus_voted: Vec<String> = vec![];
            // … and the one with the most ballots among those looked at (target of the ListVotes page requests)
            let mut most = (0usize, 1u64);
            for p in props.iter().filter(|p| open_for_votes(p)).take(4) {
                let v: Vec<String> = self.all_votes(p.id).iter().map(|e| e.split(':').next().unwrap().to_string()).collect();
                if v.len() > most.0 {
                    most = (v.len(), p.id);
                }
                if v.len() < voters.iter().filter(|x| x.1 > 0).count() {
                    focus = p.id;
                    focus_voted = v;
                    break;
                }
            }
            let r = rng.below(100);
            if r < 4 {
                let dh = *rng.pick(&[0u64, 1, 1, 2]);
                let dt = *rng.pick(&[0u64, 1_000_000_000, 5_000_000_000]);
                return format!("env height={} time={}", self.height + dh, self.time + dt);
            }
            if r < 20 {
                return self.gen_page_query(rng, next_id, &voters, most.1);
            }
            let propose_pct = if self.mode == 0 { 85 } else { 10 };
            if focus == 0 || rng.below(100) < propose_pct {
                let snd = if voters.is_empty() { rng.pick(&self.pool).to_string() } else { rng.pick(&voters).0.clone() };
                let msgs = if rng.chance(1, 4) { self.gen_msgs(rng, next_id) } else { String::new() };
                let latest = if rng.chance(9, 10) { "-".to_string() } else { self.gen_latest(rng) };
                return format!("exec {} propose title=t{} desc=d{} msgs={} latest={}", snd, rng.below(5), rng.below(3), msgs, latest);
            }
            let fresh: Vec<&(String, u64)> = voters.iter().filter(|v| !focus_voted.contains(&v.0)).collect();
            let snd = if !fresh.is_empty() && rng.chance(14, 15) { rng.pick(&fresh).0.clone() } else { rng.pick(&self.pool).to_string() };
            let v = *rng.pick(&["yes", "yes", "no", "abstain", "veto", "no"]);
            let id = if rng.chance(9, 10) { focus } else { 1 + rng.below(next_id) };
            return format!("exec {snd} vote id={id} vote={v}");
        }
        let r = rng.below(100);
        if r < 12 {
            let dh = *rng.pick(&[0u64, 1, 1, 1, 2, 3, 5]);
            let dt = *rng.pick(&[0u64, 1, 1_000_000_000, 5_000_000_000, 5_000_000_000, 20_000_000_000, 70_000_000_000]);
            return format!("env height={} time={}", self.height + dh, self.time + dt);
        }
        if r < 19 {
            let lim = match rng.below(8) {
                0 => "-".to_string(),
                1 => "0".to_string(),
                2 => "31".to_string(),
                3 => "4000000000".to_string(),
                _ => rng.below(5).to_string(),
            };
            let idc = match rng.below(5) {
                0 => "-".to_string(),
                1 => "0".to_string(),
                2 => u64::MAX.to_string(),
                _ => rng.below(next_id + 2).to_string(),
            };
            let ac = match rng.below(4) {
                0 => "-".to_string(),
                1 => rng.pick(&self.pool).to_string(),
                2 => "cosmwasm1m".to_string(),
                _ => "-".to_string(),
            };
            let anyaddr = |rng: &mut Rng| -> String {
                if rng.chance(1, 10) {
                    format!("-{}", invalid_addr(rng, &self.pool))
                } else {
                    format!("+{}", rng.pick(&self.actors()))
                }
            };
            let id = rng.below(next_id + 1);
            return match rng.below(7) {
                0 => format!("query list_proposals after={idc} limit={lim}"),
                1 => format!("query reverse_proposals before={idc} limit={lim}"),
                2 => format!("query list_votes id={id} after={ac} limit={lim}"),
                3 => format!("query list_voters after={ac} limit={lim}"),
                4 => format!("query proposal id={id}"),
                5 => format!("query vote id={id} voter={}", anyaddr(rng)),
                _ => format!("query voter address={}", anyaddr(rng)),
            };
        }
        if r < 21 {
            return format!("fund amt={} denom={}", *rng.pick(&[0u64, 1, 5, 20, 100]), if rng.chance(3, 4) { DENOMS[0] } else { DENOMS[1] });
        }
        if r < 24 {
            return format!("sink ok={}", rng.below(2));
        }
        let member = |rng: &mut Rng| -> Addr {
            if voters.is_empty() {
                rng.pick(&self.pool).clone()
            } else {
                Addr::unchecked(rng.pick(&voters).0.clone())
            }
        };
        let anyone = |rng: &mut Rng| -> Addr { rng.pick(&self.pool).clone() };
        let height = self.height;
        let time = self.time;
        let expired = |p: &ProposalResponse| -> bool {
            match p.expires {
                Expiration::AtHeight(h) => height >= h,
                Expiration::AtTime(t) => time >= t.nanos(),
                Expiration::Never {} => false,
            }
        };
        let live: Vec<u64> = props.iter().filter(|p| p.status != Status::Executed && !expired(p)).map(|p| p.id).collect();
        let passed: Vec<u64> = props.iter().filter(|p| p.status == Status::Passed).map(|p| p.id).collect();
        let closable: Vec<u64> = props.iter().filter(|p| p.status == Status::Rejected && expired(p)).map(|p| p.id).collect();
        let pick_from = |rng: &mut Rng, c: &Vec<u64>| -> u64 {
            if !c.is_empty() && rng.chance(6, 7) {
                *rng.pick(c)
            } else if rng.chance(1, 8) {
                next_id + rng.below(2)
            } else if props.is_empty() {
                1
            } else {
                rng.pick(&props).id
            }
        };
        // what to do: propose when little is going on, execute/close when something is ready
        let mut r = rng.below(100);
        if live.len() < 2 && rng.chance(1, 2) {
            r = 0;
        } else if !passed.is_empty() && rng.chance(1, 4) {
            r = 70;
        } else if !closable.is_empty() && rng.chance(1, 8) {
            r = 90;
        }
        if r < 22 || props.is_empty() {
            let snd = if rng.chance(11, 12) { member(rng) } else { anyone(rng) };
            let msgs = self.gen_msgs(rng, next_id);
            return format!(
                "exec {} propose title=t{} desc=d{} msgs={} latest={}",
                snd,
                rng.below(5),
                rng.below(3),
                msgs,
                self.gen_latest(rng)
            );
        }
        if r < 68 {
            let id = pick_from(rng, &live);
            // prefer members that have not voted yet
            let voted: Vec<String> = self
                .q::<VoteListResponse>(&QueryMsg::ListVotes { proposal_id: id, start_after: None, limit: Some(30) })
                .map(|r| r.votes.into_iter().map(|v| v.voter).collect())
                .unwrap_or_default();
            let fresh: Vec<&(String, u64)> = voters.iter().filter(|v| !voted.contains(&v.0)).collect();
            let snd = if !fresh.is_empty() && rng.chance(5, 6) {
                Addr::unchecked(rng.pick(&fresh).0.clone())
            } else if rng.chance(1, 2) {
                member(rng)
            } else {
                anyone(rng)
            };
            let v = match rng.below(20) {
                0..=10 => "yes",
                11..=14 => "no",
                15..=17 => "abstain",
                _ => "veto",
            };
            return format!("exec {snd} vote id={id} vote={v}");
        }
        if r < 88 {
            let id = pick_from(rng, &passed);
            return format!("exec {} execute id={}", anyone(rng), id);
        }
        let id = pick_from(rng, &closable);
        format!("exec {} close id={}", anyone(rng), id)
    }

    /// Small scope: voters p0:1, p1:1, p2:2 (total 4), p5 is a stranger, the multisig holds 2 ucosm, maximal voting
    /// period of 2 blocks.  Op lines are fixed strings and `env` lines are absolute, so there is ONE `env` line (to the
    /// next block; a second one would let sequences run backwards in time); proposals with `latest` = the next block
    /// are expired after it, proposals with the default expiry (2 blocks) are still open in it, and a proposal made
    /// after it with `latest` = that block is created already expired.
    /// Variant 0: AbsoluteCount 2; 1: AbsolutePercentage 50 %; 2: ThresholdQuorum 50 % / 50 %.  p0 proposes (nothing,
    /// a bank send within / beyond the balance, a re-entrant execute / vote of the proposal itself), p1 and p2 cast every kind of vote on
    /// proposal 1, anybody executes / closes it.
    fn small_scope(&mut self, variant: u64) -> Option<SmallScope> {
        if self.wide {
            return None;
        }
        const HALF: u128 = 500_000_000_000_000_000;
        let thr = match variant {
            0 => "count:2".to_string(),
            1 => format!("pct:{HALF}"),
            2 => format!("quorum:{HALF}:{HALF}"),
            _ => return None,
        };
        let (p0, p1, p2, p3, p5) =
            (self.pool[0].clone(), self.pool[1].clone(), self.pool[2].clone(), self.pool[3].clone(), self.pool[5].clone());
        let (h, t) = (self.height, self.time);
        let inst = format!("inst voters=+{p0}:1,+{p1}:1,+{p2}:2 thr={thr} maxp=h2 funds=2 funds2=0");
        let mut al = vec![
            format!("exec {p0} propose title=t0 desc=d0 msgs= latest=h{}", h + 1),
            format!("exec {p0} propose title=t1 desc=d0 msgs=bank:{p3}:1:ucosm latest=-"),
            format!("exec {p0} propose title=t4 desc=d0 msgs=bank:{p3}:3:ucosm latest=-"),
            format!("exec {p0} propose title=t2 desc=d0 msgs=sx:1 latest=-"),
            format!("exec {p0} propose title=t3 desc=d0 msgs=sv:1:yes latest=h{}", h + 1),
            format!("exec {p5} propose title=t0 desc=d0 msgs= latest=-"),
        ];
        for v in ["yes", "no", "abstain", "veto"] {
            al.push(format!("exec {p1} vote id=1 vote={v}"));
        }
        for v in ["yes", "no", "abstain", "veto"] {
            al.push(format!("exec {p2} vote id=1 vote={v}"));
        }
        al.extend([
            format!("exec {p0} vote id=1 vote=no"),
            format!("exec {p2} vote id=2 vote=yes"),
            format!("exec {p5} vote id=1 vote=yes"),
            format!("exec {p0} execute id=1"),
            format!("exec {p5} execute id=1"),
            format!("exec {p0} close id=1"),
            format!("env height={} time={}", h + 1, t + 5_000_000_000),
        ]);
        Some(SmallScope { prefix: vec![inst], alphabet: al })
    }

    fn apply(&mut self, op: &str) -> Vec<String> {
        reset_call_budget();
        let a = Args::parse(op);
        let kind = a.pos.first().map(|s| s.as_str()).unwrap_or("");
        match kind {
            "env" => {
                self.height = a.u64("height");
                self.time = a.u64("time");
                self.set_block();
                vec![]
            }
            "inst" => {
                if self.contract.is_some() {
                    return vec!["> err".to_string(), self.observe(op)];
                }
                let (ms_id, _) = self.fresh_chain();
                let voters: Vec<Voter> = a
                    .list("voters")
                    .iter()
                    .map(|e| {
                        let mut p = e.rsplitn(2, ':');
                        let w: u64 = p.next().unwrap().parse().unwrap_or(0);
                        Voter { addr: addr_text(p.next().unwrap_or("")), weight: w }
                    })
                    .collect();
                let msg = InstantiateMsg {
                    voters,
                    threshold: parse_thr(&a.str("thr")),
                    max_voting_period: parse_dur(&a.str("maxp")).unwrap_or(Duration::Height(1)),
                };
                let mut funds = vec![];
                if a.u128("funds") > 0 {
                    funds.push(coin(a.u128("funds"), DENOMS[0]));
                }
                if a.u128("funds2") > 0 {
                    funds.push(coin(a.u128("funds2"), DENOMS[1]));
                }
                let funder = self.funder.clone();
                let app = &mut self.app;
                let r = catch(move || app.instantiate_contract(ms_id, funder, &msg, &funds, "multisig", None));
                match r {
                    Some(Ok(addr)) => {
                        let same = addr == self.me;
                        self.contract = Some(addr);
                        self.maxp = a.str("maxp");
                        vec![format!("> ok self={}", if same { "same" } else { "different" }), self.observe(op)]
                    }
                    _ => {
                        // a failed instantiation leaves nothing behind
                        self.fresh_chain();
                        vec!["> err".to_string(), self.observe(op)]
                    }
                }
            }
            "fund" => {
                let c = match &self.contract {
                    Some(c) => c.clone(),
                    None => return vec!["> err".to_string(), self.observe(op)],
                };
                let funder = self.funder.clone();
                let coins = vec![coin(a.u128("amt"), a.str("denom"))];
                let app = &mut self.app;
                let r = catch(move || app.send_tokens(funder, c, &coins));
                let ok = matches!(r, Some(Ok(_)));
                vec![if ok { "> ok".to_string() } else { "> err".to_string() }, self.observe(op)]
            }
            "sink" => {
                let s = match &self.sink {
                    Some(s) => s.clone(),
                    None => return vec!["> err".to_string(), self.observe(op)],
                };
                let funder = self.funder.clone();
                let ok = a.u64("ok") == 1;
                let app = &mut self.app;
                let r = catch(move || app.execute_contract(funder, s, &SinkMsg::Set { ok }, &[]));
                let ok = matches!(r, Some(Ok(_)));
                vec![if ok { "> ok".to_string() } else { "> err".to_string() }, self.observe(op)]
            }
            "exec" => {
                let c = match &self.contract {
                    Some(c) => c.clone(),
                    None => return vec!["> err".to_string(), self.observe(op)],
                };
                let snd = Addr::unchecked(a.pos.get(1).cloned().unwrap_or_default());
                let k = a.pos.get(2).map(|s| s.as_str()).unwrap_or("");
                let msg = match k {
                    "propose" => ExecuteMsg::Propose {
                        title: a.str("title"),
                        description: a.str("desc"),
                        msgs: a.list("msgs").iter().map(|m| self.parse_msg(m)).collect(),
                        latest: a.opt("latest").and_then(|e| parse_exp(&e)),
                    },
                    "vote" => ExecuteMsg::Vote { proposal_id: a.u64("id"), vote: parse_vote(&a.str("vote")) },
                    "execute" => ExecuteMsg::Execute { proposal_id: a.u64("id") },
                    "close" => ExecuteMsg::Close { proposal_id: a.u64("id") },
                    _ => return vec!["> err badop=1".to_string(), self.observe(op)],
                };
                let app = &mut self.app;
                let r = catch(move || app.execute_contract(snd, c, &msg, &[]));
                let line = match r {
                    Some(Ok(_)) => "> ok".to_string(),
                    Some(Err(_)) => "> err".to_string(),
                    None => "> err panic=1".to_string(),
                };
                vec![line, self.observe(op)]
            }
            "query" => {
                let k = a.pos.get(1).map(|s| s.as_str()).unwrap_or("");
                let limit = a.opt_u32("limit");
                let short = |ps: Vec<ProposalResponse>| -> String {
                    ps.iter().map(|p| format!("{}:{}", p.id, render_status(p.status))).collect::<Vec<_>>().join(",")
                };
                let res: Option<String> = match k {
                    "list_proposals" => self.list_props(a.opt_u64("after"), limit).map(short),
                    "reverse_proposals" => self.rev_props(a.opt_u64("before"), limit).map(short),
                    "list_votes" => self
                        .q::<VoteListResponse>(&QueryMsg::ListVotes { proposal_id: a.u64("id"), start_after: a.opt("after"), limit })
                        .map(|r| {
                            r.votes
                                .iter()
                                .map(|v| format!("{}:{}:{}", v.voter, v.weight, render_vote(v.vote)))
                                .collect::<Vec<_>>()
                                .join(",")
                        }),
                    "list_voters" => self
                        .q::<VoterListResponse>(&QueryMsg::ListVoters { start_after: a.opt("after"), limit })
                        .map(|r| r.voters.iter().map(|v| format!("{}:{}", v.addr, v.weight)).collect::<Vec<_>>().join(",")),
                    "proposal" => self
                        .q::<ProposalResponse>(&QueryMsg::Proposal { proposal_id: a.u64("id") })
                        .map(|p| self.render_prop(&p)),
                    "vote" => self
                        .q::<VoteResponse>(&QueryMsg::Vote { proposal_id: a.u64("id"), voter: addr_text(&a.str("voter")) })
                        .map(|r| match r.vote {
                            Some(v) => format!("{}:{}", v.weight, render_vote(v.vote)),
                            None => "-".to_string(),
                        }),
                    "voter" => self
                        .q::<VoterResponse>(&QueryMsg::Voter { address: addr_text(&a.str("address")) })
                        .map(|r| opt_str(&r.weight)),
                    _ => None,
                };
                match res {
                    Some(r) => vec![format!("> ok result={r}")],
                    None => vec!["> err".to_string()],
                }
            }
            _ => vec![],
        }
    }
}
