//! Shared pieces of the correspondence harness: PRNG, op-line parsing, a
//! clonable in-memory `Storage` (snapshot/restore = transaction atomicity in
//! direct mode), address pool.
#![allow(dead_code)]

use cosmwasm_std::testing::MockApi;
use cosmwasm_std::{Addr, Order, Record, Storage};
use std::collections::BTreeMap;
use std::ops::Bound;

/// SplitMix64: every random choice of a run derives from one seed.
#[derive(Clone)]
pub struct Rng(pub u64);

impl Rng {
    pub fn new(seed: u64) -> Self {
        Rng(seed)
    }
    pub fn next(&mut self) -> u64 {
        self.0 = self.0.wrapping_add(0x9E3779B97F4A7C15);
        let mut z = self.0;
        z = (z ^ (z >> 30)).wrapping_mul(0xBF58476D1CE4E5B9);
        z = (z ^ (z >> 27)).wrapping_mul(0x94D049BB133111EB);
        z ^ (z >> 31)
    }
    /// uniform in 0..n (n > 0)
    pub fn below(&mut self, n: u64) -> u64 {
        self.next() % n
    }
    pub fn chance(&mut self, num: u64, den: u64) -> bool {
        self.below(den) < num
    }
    pub fn pick<'a, T>(&mut self, xs: &'a [T]) -> &'a T {
        &xs[self.below(xs.len() as u64) as usize]
    }
    pub fn u128(&mut self) -> u128 {
        ((self.next() as u128) << 64) | self.next() as u128
    }
}

pub fn hash_str(s: &str) -> u64 {
    // FNV-1a
    let mut h: u64 = 0xcbf29ce484222325;
    for b in s.as_bytes() {
        h ^= *b as u64;
        h = h.wrapping_mul(0x100000001b3);
    }
    h
}

/// `key=value` arguments of an op line.
pub struct Args {
    pub pos: Vec<String>,
    pub kv: Vec<(String, String)>,
}

impl Args {
    pub fn parse(line: &str) -> Args {
        let mut pos = vec![];
        let mut kv = vec![];
        for tok in line.split_whitespace() {
            if let Some(i) = tok.find('=') {
                kv.push((tok[..i].to_string(), tok[i + 1..].to_string()));
            } else {
                pos.push(tok.to_string());
            }
        }
        Args { pos, kv }
    }
    pub fn get(&self, k: &str) -> Option<&str> {
        self.kv.iter().find(|(a, _)| a == k).map(|(_, v)| v.as_str())
    }
    pub fn str(&self, k: &str) -> String {
        self.get(k).unwrap_or("").to_string()
    }
    pub fn opt(&self, k: &str) -> Option<String> {
        match self.get(k) {
            None | Some("-") => None,
            Some(v) => Some(v.to_string()),
        }
    }
    pub fn u128(&self, k: &str) -> u128 {
        self.get(k).and_then(|v| v.parse().ok()).unwrap_or(0)
    }
    pub fn u64(&self, k: &str) -> u64 {
        self.get(k).and_then(|v| v.parse().ok()).unwrap_or(0)
    }
    pub fn opt_u128(&self, k: &str) -> Option<u128> {
        self.opt(k).and_then(|v| v.parse().ok())
    }
    pub fn opt_u64(&self, k: &str) -> Option<u64> {
        self.opt(k).and_then(|v| v.parse().ok())
    }
    pub fn opt_u32(&self, k: &str) -> Option<u32> {
        self.opt(k).and_then(|v| v.parse().ok())
    }
    pub fn list(&self, k: &str) -> Vec<String> {
        let s = self.str(k);
        if s.is_empty() {
            vec![]
        } else {
            s.split(',').map(|x| x.to_string()).collect()
        }
    }
}

/// Strip the `+`/`-` validity marker of an address literal.
pub fn addr_text(s: &str) -> String {
    if s.starts_with('+') || s.starts_with('-') {
        s[1..].to_string()
    } else {
        s.to_string()
    }
}

/// Render an address literal with the result of `MockApi::addr_validate`.
pub fn mark(api: &MockApi, s: &str) -> String {
    use cosmwasm_std::Api;
    if api.addr_validate(s).is_ok() {
        format!("+{s}")
    } else {
        format!("-{s}")
    }
}

pub fn parse_exp(s: &str) -> Option<cw_utils::Expiration> {
    use cosmwasm_std::Timestamp;
    if s == "never" {
        Some(cw_utils::Expiration::Never {})
    } else if let Some(h) = s.strip_prefix('h') {
        h.parse().ok().map(cw_utils::Expiration::AtHeight)
    } else if let Some(t) = s.strip_prefix('t') {
        t.parse().ok().map(|n| cw_utils::Expiration::AtTime(Timestamp::from_nanos(n)))
    } else {
        None
    }
}

pub fn render_exp(e: &cw_utils::Expiration) -> String {
    match e {
        cw_utils::Expiration::AtHeight(h) => format!("h{h}"),
        cw_utils::Expiration::AtTime(t) => format!("t{}", t.nanos()),
        cw_utils::Expiration::Never {} => "never".to_string(),
    }
}

pub fn parse_dur(s: &str) -> Option<cw_utils::Duration> {
    if let Some(h) = s.strip_prefix('h') {
        h.parse().ok().map(cw_utils::Duration::Height)
    } else if let Some(t) = s.strip_prefix('t') {
        t.parse().ok().map(cw_utils::Duration::Time)
    } else {
        None
    }
}

pub fn render_dur(d: &cw_utils::Duration) -> String {
    match d {
        cw_utils::Duration::Height(h) => format!("h{h}"),
        cw_utils::Duration::Time(t) => format!("t{t}"),
    }
}

pub fn opt_str<T: ToString>(o: &Option<T>) -> String {
    match o {
        None => "-".to_string(),
        Some(v) => v.to_string(),
    }
}

/// Percent-encoding of free text carried in a `key=value` token: every byte outside `[A-Za-z0-9_.]`
/// becomes `%XX`; the empty string is the word `empty` (and the literal text "empty" is `%65mpty`).
pub fn text_enc(s: &str) -> String {
    if s.is_empty() {
        return "empty".to_string();
    }
    if s == "empty" {
        return "%65mpty".to_string();
    }
    let mut out = String::new();
    for b in s.bytes() {
        if b.is_ascii_alphanumeric() || b == b'_' || b == b'.' {
            out.push(b as char);
        } else {
            out.push_str(&format!("%{:02X}", b));
        }
    }
    out
}

pub fn text_dec(s: &str) -> String {
    if s == "empty" {
        return String::new();
    }
    let b = s.as_bytes();
    let mut out: Vec<u8> = vec![];
    let mut i = 0;
    while i < b.len() {
        if b[i] == b'%' && i + 2 < b.len() && s.is_char_boundary(i + 1) && s.is_char_boundary(i + 3) {
            if let Ok(v) = u8::from_str_radix(&s[i + 1..i + 3], 16) {
                out.push(v);
                i += 3;
                continue;
            }
        }
        out.push(b[i]);
        i += 1;
    }
    String::from_utf8_lossy(&out).into_owned()
}

pub fn opt_text_enc(o: &Option<String>) -> String {
    match o {
        None => "-".to_string(),
        Some(s) => text_enc(s),
    }
}

/// Byte payload on the wire: hex digits, optionally followed by `.<bb>x<n>` segments (`n` copies of
/// byte `bb`), e.g. `89504e47.00x5000`.
pub fn parse_payload(s: &str) -> Vec<u8> {
    let mut out = vec![];
    for (i, seg) in s.split('.').enumerate() {
        if i > 0 {
            if let Some((b, n)) = seg.split_once('x') {
                if let (Ok(b), Ok(n)) = (u8::from_str_radix(b, 16), n.parse::<usize>()) {
                    out.extend(std::iter::repeat(b).take(n));
                    continue;
                }
            }
        }
        let h = seg.as_bytes();
        let mut j = 0;
        while j + 1 < h.len() {
            if let Ok(v) = u8::from_str_radix(&seg[j..j + 2], 16) {
                out.push(v);
            }
            j += 2;
        }
    }
    out
}

pub fn hex(b: &[u8]) -> String {
    b.iter().map(|x| format!("{:02x}", x)).collect()
}

/// Canonical rendering of stored bytes in an observation: hex up to 48 bytes, else `#<len>.<fnv1a-64>`.
pub fn render_data(b: &[u8]) -> String {
    if b.len() <= 48 {
        hex(b)
    } else {
        let mut h: u64 = 0xcbf29ce484222325;
        for x in b {
            h ^= *x as u64;
            h = h.wrapping_mul(0x100000001b3);
        }
        format!("#{}.{:016x}", b.len(), h)
    }
}

/// Clonable in-memory storage.
#[derive(Clone, Default)]
pub struct MemStore {
    pub data: BTreeMap<Vec<u8>, Vec<u8>>,
}

impl Storage for MemStore {
    fn get(&self, key: &[u8]) -> Option<Vec<u8>> {
        self.data.get(key).cloned()
    }
    fn range<'a>(
        &'a self,
        start: Option<&[u8]>,
        end: Option<&[u8]>,
        order: Order,
    ) -> Box<dyn Iterator<Item = Record> + 'a> {
        let lo = match start {
            Some(s) => Bound::Included(s.to_vec()),
            None => Bound::Unbounded,
        };
        let hi = match end {
            Some(e) => Bound::Excluded(e.to_vec()),
            None => Bound::Unbounded,
        };
        if let (Bound::Included(a), Bound::Excluded(b)) = (&lo, &hi) {
            if a >= b {
                return Box::new(std::iter::empty());
            }
        }
        let it = self.data.range((lo, hi)).map(|(k, v)| (k.clone(), v.clone()));
        match order {
            Order::Ascending => Box::new(it),
            Order::Descending => Box::new(it.rev()),
        }
    }
    fn set(&mut self, key: &[u8], value: &[u8]) {
        self.data.insert(key.to_vec(), value.to_vec());
    }
    fn remove(&mut self, key: &[u8]) {
        self.data.remove(key);
    }
}

/// The pool of actor addresses of a trace: `n` valid bech32 addresses.
pub fn pool(api: &MockApi, n: usize) -> Vec<Addr> {
    (0..n).map(|i| api.addr_make(&format!("actor{i}"))).collect()
}

pub const INVALID_ADDR: &str = "NotAnAddress";

/// A string that is almost `a`: `a` without its last character, only its first half, or `a` plus one character.
pub fn near_miss(rng: &mut Rng, a: &str) -> cosmwasm_std::Addr {
    let n = a.len();
    cosmwasm_std::Addr::unchecked(match rng.below(3) {
        0 if n > 1 => a[..n - 1].to_string(),
        1 if n > 3 => a[..n / 2].to_string(),
        _ => format!("{a}q"),
    })
}

/// An address literal that `addr_validate` refuses: plain garbage, or a pool address written in upper case (bech32
/// decodes it, but it is not the normalised spelling — code that "helpfully" lower-cases first would accept it and
/// meet the lower-case spelling of the same account).
pub fn invalid_addr(rng: &mut Rng, pool: &[cosmwasm_std::Addr]) -> String {
    if !pool.is_empty() && rng.chance(1, 3) {
        rng.pick(pool).as_str().to_uppercase()
    } else {
        INVALID_ADDR.to_string()
    }
}

/// One scenario = one contract (or group of contracts) driven by op lines.
pub trait Scenario {
    /// Start a new trace; returns the `scenario …` header line.
    fn start(&mut self, seed: u64, trace: u64) -> String;
    /// Reset from a header line (replay).
    fn reset(&mut self, header: &str);
    /// Produce the next op line, looking only at the implementation's state.
    fn gen_op(&mut self, rng: &mut Rng, step: usize) -> String;
    /// Execute one op line against the real code; returns the `> …` and `obs …` lines.
    fn apply(&mut self, op: &str) -> Vec<String>;
    /// Small-scope enumeration (`harness enum`): variant `v` of a tiny world — the op lines that set it up and
    /// the alphabet of op lines of which *every* sequence up to the requested depth is run.  Called right after
    /// `start`, so the lines may name the pool.  `None` = no such variant (variants are numbered 0, 1, … without gaps).
    fn small_scope(&mut self, _variant: u64) -> Option<SmallScope> {
        None
    }
}

/// See `Scenario::small_scope`.  Alphabet lines must not depend on the state (they are fixed strings); a few actors,
/// amounts around 0/1/2, self-targets, the current and the next block.  The world that `start` builds must be the
/// same for every trace of a variant (the enumeration skips all sequences that share a prefix whose last op left
/// the state unchanged — a world that varies with the trace number would make that unsound); `env` lines that do
/// not move to a later block than the one reached are skipped by the enumeration (blocks never go back).
pub struct SmallScope {
    pub prefix: Vec<String>,
    pub alphabet: Vec<String>,
}

/// Run `f`, mapping a panic to `None`.
pub fn catch<T>(f: impl FnOnce() -> T) -> Option<T> {
    std::panic::catch_unwind(std::panic::AssertUnwindSafe(f)).ok()
}

/// C20 self-check of one listing, independent of the model: page through it with
/// limit 1, the default limit and an oversized limit (cursor = key of the last
/// returned item, keys are the text before the first ':'); every page must respect
/// `min(limit or 10, 30)`, never return the item named by the (exclusive) cursor, and all three walks must
/// return the same sequence without repeating a key.  Returns a description of the first inconsistency.
/// Upper bound on the pages of one listing walk (the widest scenario lists about 150 items one by one).
pub const MAX_WALK_PAGES: usize = 600;

/// Cursors already used in one listing walk: a cursor that comes back means the walk goes round in circles (a defect in
/// the code under test, e.g. a page topped up with another owner's entries) - stop instead of writing gigabytes.
#[derive(Default)]
pub struct WalkGuard {
    seen: std::collections::HashSet<String>,
}
impl WalkGuard {
    pub fn fresh(&mut self, c: &Option<String>) -> bool {
        match c {
            Some(c) => self.seen.insert(c.clone()),
            None => true,
        }
    }
}

pub fn paging_audit(name: &str, f: &dyn Fn(Option<String>, Option<u32>) -> Option<Vec<String>>) -> Option<String> {
    let mut walks: Vec<Vec<String>> = vec![];
    for limit in [Some(1u32), None, Some(1000u32)] {
        let cap = limit.unwrap_or(10).min(30) as usize;
        let mut out: Vec<String> = vec![];
        let mut cursor: Option<String> = None;
        let mut guard = WalkGuard::default();
        for _ in 0..MAX_WALK_PAGES {
            match f(cursor.clone(), limit) {
                Some(p) if !p.is_empty() => {
                    if p.len() > cap {
                        return Some(format!("{name}:page-of-{}-exceeds-{}", p.len(), cap));
                    }
                    // the cursor is exclusive: the item it names must not come back
                    if let Some(c) = &cursor {
                        if p.iter().any(|e| e.split(':').next().unwrap() == c.as_str()) {
                            return Some(format!("{name}:cursor-item-returned-again"));
                        }
                    }
                    cursor = Some(p.last().unwrap().split(':').next().unwrap().to_string());
                    if !guard.fresh(&cursor) {
                        return Some(format!("{name}:cursor-comes-back-walk-never-ends"));
                    }
                    out.extend(p);
                }
                _ => break,
            }
        }
        walks.push(out);
    }
    if walks[0] != walks[1] || walks[1] != walks[2] {
        return Some(format!("{name}:walks-differ-{}-{}-{}", walks[0].len(), walks[1].len(), walks[2].len()));
    }
    let mut keys: Vec<&str> = walks[0].iter().map(|e| e.split(':').next().unwrap()).collect();
    let n = keys.len();
    keys.dedup();
    if keys.len() != n {
        return Some(format!("{name}:item-listed-twice"));
    }
    None
}

thread_local! {
    /// Number of handler invocations of the contract under test inside the current top-level
    /// transaction.  cw-multi-test has no gas, so unbounded re-entrancy would overflow the stack of
    /// the harness; a real chain runs out of gas.  The budget is far above anything correct code needs.
    pub static CALL_BUDGET: std::cell::Cell<u32> = const { std::cell::Cell::new(0) };
}
pub const MAX_CALLS_PER_TX: u32 = 64;

/// Call at the start of every top-level transaction.
pub fn reset_call_budget() {
    CALL_BUDGET.with(|c| c.set(0));
}

/// Call at the start of every handler invocation; `true` = budget exhausted (stands for out of gas).
pub fn call_budget_exhausted() -> bool {
    CALL_BUDGET.with(|c| {
        c.set(c.get() + 1);
        c.get() > MAX_CALLS_PER_TX
    })
}

/// `paging_audit` plus cursors that are NOT keys of the listing (e.g. addresses that are not members):
/// a page requested after such a cursor must be exactly the part of the full listing whose keys are
/// greater than the cursor (string order), cut at the page size.
pub fn paging_audit_cursors(
    name: &str,
    f: &dyn Fn(Option<String>, Option<u32>) -> Option<Vec<String>>,
    cursors: &[String],
) -> Option<String> {
    if let Some(d) = paging_audit(name, f) {
        return Some(d);
    }
    // the full listing, walked with the default page size
    let mut full: Vec<String> = vec![];
    let mut cursor: Option<String> = None;
    let mut guard = WalkGuard::default();
    for _ in 0..MAX_WALK_PAGES {
        match f(cursor.clone(), None) {
            Some(p) if !p.is_empty() => {
                let next = p.last().unwrap().split(':').next().unwrap().to_string();
                if cursor.as_deref() == Some(next.as_str()) || !guard.fresh(&Some(next.clone())) {
                    break;
                }
                cursor = Some(next);
                full.extend(p);
            }
            _ => break,
        }
    }
    for c in cursors.iter().take(6) {
        if full.iter().any(|e| e.split(':').next().unwrap() == c) {
            continue;
        }
        if let Some(page) = f(Some(c.clone()), Some(30)) {
            let expect: Vec<String> =
                full.iter().filter(|e| e.split(':').next().unwrap() > c.as_str()).take(30).cloned().collect();
            if page != expect {
                return Some(format!("{name}:page-after-non-key-cursor-{}-items-expected-{}", page.len(), expect.len()));
            }
        }
    }
    None
}
