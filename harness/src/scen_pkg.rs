//! Scenario `pkg`: direct calls of the library / helper code of `/repo/packages` and of two contract helper files that no
//! contract scenario reaches: `cw20::{Balance, Cw20Coin, Cw20CoinVerified, Denom, UncheckedDenom, Cw20Contract}`,
//! `cw3::Cw3Contract`, `cw4::Cw4Contract` (message builders, `hooks`, `admin`), `cw4_group::helpers::Cw4GroupContract`,
//! `cw1::Cw1Contract`, `cw20_ics20::amount::Amount`.
//! Every op is an independent evaluation on generated inputs (no state, no observation line); panics are outcomes.
//! Message builders: the emitted `WasmMsg::Execute` is printed as target / funds / the payload JSON (as text) and the
//! payload is parsed back into the message type (`rt=`).  Query wrappers run against a `MockQuerier` whose wasm handler
//! records the request and answers with the reply named on the op line.
// SCENARIO pkg crate::scen_pkg::PkgScen::new()
use crate::common::*;
use cosmwasm_std::testing::{mock_dependencies, MockApi, MockQuerier};
use cosmwasm_std::{
    from_json, to_json_binary, Addr, BankMsg, Binary, Coin, ContractResult, CosmosMsg, QuerierWrapper, SystemError, SystemResult,
    Uint128, WasmMsg, WasmQuery,
};
use cw20::{
    AllowanceResponse, Balance, BalanceResponse, Cw20Coin, Cw20CoinVerified, Cw20Contract, Cw20ExecuteMsg, Denom, MinterResponse,
    TokenInfoResponse, UncheckedDenom,
};
use cw20_ics20::amount::Amount;
use cw3::{Cw3Contract, Cw3ExecuteMsg, Vote};
use cw4::{AdminResponse, Cw4Contract, Cw4ExecuteMsg, HooksResponse, Member, MemberChangedHookMsg};
use cw4_group::helpers::Cw4GroupContract;
use cw_utils::{Expiration, NativeBalance};
use cosmwasm_schema::cw_serde;
use std::cell::RefCell;
use std::rc::Rc;

pub struct PkgScen {
    api: MockApi,
}

/// What a contract that receives cw20 `Send` notifications declares (`#[cw_serde]`: snake_case, `deny_unknown_fields`);
/// op `decode kind=receive`: the REAL `from_json` against `MsgWire.decodeReceive`.
#[cw_serde]
enum ReceiverExecuteMsg {
    Receive(cw20::Cw20ReceiveMsg),
}

/// What a contract registered as a cw4 hook declares; op `decode kind=hook` against `MsgWire.decodeHook`.
#[cw_serde]
enum HookExecuteMsg {
    MemberChangedHook(MemberChangedHookMsg),
}

fn opt_u64_str(x: &Option<u64>) -> String {
    match x {
        Some(v) => v.to_string(),
        None => "-".to_string(),
    }
}

/// op `decode kind=<receive|hook|transfer|transfer_from> data=<hex>`: `from_json::<T>` of the receiver-side message type
/// on the given bytes; `ok/<canonical rendering of the decoded value>` or `err`.  For `transfer` / `transfer_from`
/// `T` is `cw20::Cw20ExecuteMsg` itself and every *other* variant it decodes to is `err` as well (the model's decoders
/// answer "is it this call, and with which arguments").
fn decode_wire(kind: &str, data: &[u8]) -> Option<String> {
    let r = match kind {
        "receive" => catch(|| match from_json::<ReceiverExecuteMsg>(data) {
            Ok(ReceiverExecuteMsg::Receive(m)) => {
                format!("ok/{}/{}/{}", text_enc(&m.sender), m.amount.u128(), render_hex(m.msg.as_slice()))
            }
            Err(_) => "err".to_string(),
        }),
        "hook" => catch(|| match from_json::<HookExecuteMsg>(data) {
            Ok(HookExecuteMsg::MemberChangedHook(m)) => {
                let d: Vec<String> =
                    m.diffs.iter().map(|d| format!("{}:{}:{}", text_enc(&d.key), opt_u64_str(&d.old), opt_u64_str(&d.new))).collect();
                format!("ok/{}", if d.is_empty() { "-".to_string() } else { d.join("+") })
            }
            Err(_) => "err".to_string(),
        }),
        "transfer" => catch(|| match from_json::<Cw20ExecuteMsg>(data) {
            Ok(Cw20ExecuteMsg::Transfer { recipient, amount }) => format!("ok/{}/{}", text_enc(&recipient), amount.u128()),
            _ => "err".to_string(),
        }),
        "transfer_from" => catch(|| match from_json::<Cw20ExecuteMsg>(data) {
            Ok(Cw20ExecuteMsg::TransferFrom { owner, recipient, amount }) => {
                format!("ok/{}/{}/{}", text_enc(&owner), text_enc(&recipient), amount.u128())
            }
            _ => "err".to_string(),
        }),
        _ => return None,
    };
    Some(r.unwrap_or_else(|| "panic".to_string()))
}

fn b(x: bool) -> &'static str {
    if x {
        "true"
    } else {
        "false"
    }
}

/// `denom:amount,denom:amount` (denoms text-encoded), `-` = empty; `sep` separates the coins
fn render_coins(v: &[Coin], sep: &str) -> String {
    if v.is_empty() {
        return "-".to_string();
    }
    v.iter().map(|c| format!("{}:{}", text_enc(&c.denom), c.amount.u128())).collect::<Vec<_>>().join(sep)
}

fn parse_coins(s: &str, sep: char) -> Vec<Coin> {
    if s.is_empty() || s == "-" {
        return vec![];
    }
    s.split(sep)
        .map(|x| {
            let (d, a) = x.split_once(':').unwrap_or((x, "0"));
            Coin { denom: text_dec(d), amount: Uint128::new(a.parse().unwrap_or(0)) }
        })
        .collect()
}

fn parse_texts(s: &str, sep: char) -> Vec<String> {
    if s.is_empty() || s == "-" {
        return vec![];
    }
    s.split(sep).map(text_dec).collect()
}

fn render_texts(v: &[String], sep: &str) -> String {
    if v.is_empty() {
        return "-".to_string();
    }
    v.iter().map(|x| text_enc(x)).collect::<Vec<_>>().join(sep)
}

fn opt_text(a: &Args, k: &str) -> Option<String> {
    a.opt(k).map(|s| text_dec(&s))
}

fn parse_hex(s: &str) -> Vec<u8> {
    if s == "-" {
        vec![]
    } else {
        parse_payload(s)
    }
}

fn render_hex(d: &[u8]) -> String {
    if d.is_empty() {
        "-".to_string()
    } else {
        hex(d)
    }
}

/// `bank/<to>/<coins +>` | `wasm/<contract>/<hex>/<coins +>`, separated by `;`
fn parse_cosmos(s: &str) -> Vec<CosmosMsg> {
    if s.is_empty() || s == "-" {
        return vec![];
    }
    s.split(';')
        .map(|m| {
            let p: Vec<&str> = m.split('/').collect();
            let g = |i: usize| p.get(i).copied().unwrap_or("");
            match g(0) {
                "wasm" => {
                    WasmMsg::Execute { contract_addr: text_dec(g(1)), msg: Binary::from(parse_hex(g(2))), funds: parse_coins(g(3), '+') }.into()
                }
                _ => BankMsg::Send { to_address: text_dec(g(1)), amount: parse_coins(g(2), '+') }.into(),
            }
        })
        .collect()
}

fn render_cosmos(v: &[CosmosMsg]) -> String {
    if v.is_empty() {
        return "-".to_string();
    }
    v.iter()
        .map(|m| match m {
            CosmosMsg::Wasm(WasmMsg::Execute { contract_addr, msg, funds }) => {
                format!("wasm/{}/{}/{}", text_enc(contract_addr), render_hex(msg.as_slice()), render_coins(funds, "+"))
            }
            CosmosMsg::Bank(BankMsg::Send { to_address, amount }) => format!("bank/{}/{}", text_enc(to_address), render_coins(amount, "+")),
            _ => "other".to_string(),
        })
        .collect::<Vec<_>>()
        .join(";")
}

fn opt_exp(a: &Args, k: &str) -> Option<Expiration> {
    a.opt(k).and_then(|s| parse_exp(&s))
}

fn render_opt_exp(e: &Option<Expiration>) -> String {
    match e {
        None => "-".to_string(),
        Some(e) => render_exp(e),
    }
}

/// the emitted message: target, funds, payload as text
fn render_emitted(m: &CosmosMsg) -> Option<(String, Vec<u8>)> {
    match m {
        CosmosMsg::Wasm(WasmMsg::Execute { contract_addr, msg, funds }) => Some((
            format!("to={} funds={} json={}", text_enc(contract_addr), render_coins(funds, ","), text_enc(&String::from_utf8_lossy(msg.as_slice()))),
            msg.to_vec(),
        )),
        _ => None,
    }
}

/// what the mocked contract answers
#[derive(Clone)]
enum Reply {
    NoContract,
    QueryErr,
    Bytes(Vec<u8>),
}

fn parse_reply(s: &str) -> Reply {
    let p: Vec<&str> = s.split('/').collect();
    let g = |i: usize| p.get(i).copied().unwrap_or("");
    let bytes = |r: cosmwasm_std::StdResult<Binary>| Reply::Bytes(r.map(|b| b.to_vec()).unwrap_or_default());
    match g(0) {
        "nocontract" => Reply::NoContract,
        "fail" => Reply::QueryErr,
        "null" => Reply::Bytes(b"null".to_vec()),
        "balance" => bytes(to_json_binary(&BalanceResponse { balance: Uint128::new(g(1).parse().unwrap_or(0)) })),
        "tokeninfo" => bytes(to_json_binary(&TokenInfoResponse {
            name: text_dec(g(1)),
            symbol: text_dec(g(2)),
            decimals: g(3).parse().unwrap_or(0),
            total_supply: Uint128::new(g(4).parse().unwrap_or(0)),
        })),
        "allowance" => bytes(to_json_binary(&AllowanceResponse {
            allowance: Uint128::new(g(1).parse().unwrap_or(0)),
            expires: parse_exp(g(2)).unwrap_or(Expiration::Never {}),
        })),
        "minter" => bytes(to_json_binary(&MinterResponse {
            minter: text_dec(g(1)),
            cap: if g(2) == "-" { None } else { Some(Uint128::new(g(2).parse().unwrap_or(0))) },
        })),
        "hooks" => bytes(to_json_binary(&HooksResponse { hooks: parse_texts(g(1), '+') })),
        "admin" => bytes(to_json_binary(&AdminResponse { admin: if g(1) == "-" { None } else { Some(text_dec(g(1))) } })),
        _ => Reply::QueryErr,
    }
}

/// A querier that records the smart query it receives and answers with `reply`.
fn scripted(reply: Reply) -> (MockQuerier, Rc<RefCell<Vec<(String, Vec<u8>)>>>) {
    let seen: Rc<RefCell<Vec<(String, Vec<u8>)>>> = Rc::new(RefCell::new(vec![]));
    let seen2 = seen.clone();
    let mut q = MockQuerier::default();
    q.update_wasm(move |w: &WasmQuery| match w {
        WasmQuery::Smart { contract_addr, msg } => {
            seen2.borrow_mut().push((contract_addr.clone(), msg.to_vec()));
            match &reply {
                Reply::NoContract => SystemResult::Err(SystemError::NoSuchContract { addr: contract_addr.clone() }),
                Reply::QueryErr => SystemResult::Ok(ContractResult::Err("query failed".to_string())),
                Reply::Bytes(d) => SystemResult::Ok(ContractResult::Ok(Binary::from(d.clone()))),
            }
        }
        _ => SystemResult::Err(SystemError::UnsupportedRequest { kind: "not a smart query".to_string() }),
    });
    (q, seen)
}

/// `sent=<contract> qjson=<payload>` of the one recorded request (`-` when none, `many` when more than one)
fn render_seen(seen: &Rc<RefCell<Vec<(String, Vec<u8>)>>>) -> String {
    let s = seen.borrow();
    match s.len() {
        0 => "sent=- qjson=-".to_string(),
        1 => format!("sent={} qjson={}", text_enc(&s[0].0), text_enc(&String::from_utf8_lossy(&s[0].1))),
        _ => "sent=many qjson=many".to_string(),
    }
}

const TEXTS: &[&str] = &[
    "",
    "empty",
    "a",
    "uatom",
    "ucosm",
    "UATOM",
    "uAtom",
    "ibc/27394FB092D2ECCD56123C74F36E4C1F926001CEADA9CA97EA622B25F41E5EB2",
    "cw20:",
    "cw20",
    "cw20:a",
    "CW20:abc",
    "cw20:cw20:x",
    " cw20:x",
    "cw20:wasm1contract",
    "x, amount: 7",
    "a1",
    "a",
    "1",
    "quote\"d",
    "back\\slash",
    "line\nbreak",
    "tab\there",
    "ctl\u{1}\u{1f}",
    "del\u{7f}",
    "caf\u{e9}",
    "\u{65e5}\u{672c}",
    "\u{1f600}",
    "sp ace",
    "/slash/",
    "{\"transfer\":{}}",
    "null",
    "-",
    "+plus",
    "a,b;c/d:e=f",
    "%41",
];

impl PkgScen {
    pub fn new() -> Self {
        PkgScen { api: MockApi::default() }
    }

    fn gen_text(&self, rng: &mut Rng) -> String {
        match rng.below(10) {
            0..=5 => rng.pick(TEXTS).to_string(),
            6 => self.api.addr_make(*rng.pick(&["alice", "bob", "token", "group"])).to_string(),
            7 => format!("d{}", rng.below(4)),
            8 => format!("cw20:{}", rng.pick(TEXTS)),
            _ => {
                let n = rng.below(6);
                (0..n).map(|_| *rng.pick(&['a', 'b', 'Z', '0', ':', '"', '\\', '\n', ' ', '\u{e9}', 'c', 'w', '2'])).collect()
            }
        }
    }

    /// an address-like text: mostly a valid bech32 address, else a near miss / arbitrary text
    fn gen_addr(&self, rng: &mut Rng) -> String {
        let good = self.api.addr_make(*rng.pick(&["alice", "bob", "carol", "token", "group", "multisig"])).to_string();
        match rng.below(12) {
            0..=6 => good,
            7 => good.to_uppercase(),
            8 => {
                // one character changed: checksum fails
                let mut s = good.into_bytes();
                let i = s.len() - 1 - rng.below(6) as usize;
                s[i] = if s[i] == b'q' { b'p' } else { b'q' };
                String::from_utf8(s).unwrap()
            }
            9 => String::new(),
            _ => self.gen_text(rng),
        }
    }

    fn gen_u128(&self, rng: &mut Rng) -> u128 {
        match rng.below(16) {
            0..=2 => 0,
            3 => 1,
            4 => u128::MAX,
            5 => u128::MAX - 1,
            6 => u64::MAX as u128,
            7 => u64::MAX as u128 + 1,
            8 => u64::MAX as u128 - 1,
            9 => 1u128 << 127,
            10 => rng.u128(),
            11 => rng.next() as u128,
            12 => 10u128.pow(rng.below(39) as u32),
            _ => rng.below(1000) as u128,
        }
    }

    fn gen_u64(&self, rng: &mut Rng) -> u64 {
        match rng.below(8) {
            0 => 0,
            1 => 1,
            2 => u64::MAX,
            3 => u64::MAX - 1,
            4 => rng.next(),
            5 => 1u64 << 53,
            _ => rng.below(100),
        }
    }

    /// coin lists with zero amounts, repeated denoms, unsorted denoms, sums around u128::MAX
    fn gen_coins(&self, rng: &mut Rng) -> Vec<Coin> {
        let n = match rng.below(10) {
            0 | 1 => 0,
            2 | 3 => 1,
            4 | 5 => 2,
            6 | 7 => 3,
            8 => 4 + rng.below(3),
            _ => 8 + rng.below(8),
        };
        let few = rng.chance(2, 3);
        let mut v: Vec<Coin> = (0..n)
            .map(|_| {
                let denom = if few { rng.pick(&["uatom", "ucosm", "a", "a1", "UATOM", "", "ub"]).to_string() } else { self.gen_text(rng) };
                Coin { denom, amount: Uint128::new(self.gen_u128(rng)) }
            })
            .collect();
        if n >= 2 && rng.chance(1, 4) {
            // an overflowing / exactly fitting pair of the same denom
            let d = v[0].denom.clone();
            let x = self.gen_u128(rng);
            v[0].amount = Uint128::new(x);
            let j = 1 + rng.below(n - 1) as usize;
            v[j] = Coin { denom: d, amount: Uint128::new((u128::MAX - x).wrapping_add(rng.below(3) as u128).wrapping_sub(1)) };
        }
        v
    }

    fn gen_exp(&self, rng: &mut Rng) -> Option<Expiration> {
        match rng.below(6) {
            0 | 1 => None,
            2 => Some(Expiration::Never {}),
            3 => Some(Expiration::AtHeight(self.gen_u64(rng))),
            _ => Some(Expiration::AtTime(cosmwasm_std::Timestamp::from_nanos(self.gen_u64(rng)))),
        }
    }

    fn gen_opt_text(&self, rng: &mut Rng) -> Option<String> {
        if rng.chance(1, 3) {
            None
        } else {
            Some(self.gen_text(rng))
        }
    }

    fn gen_bytes(&self, rng: &mut Rng) -> Vec<u8> {
        let n = match rng.below(8) {
            0 => 0,
            1 => 1,
            2 => 2,
            3 => 3,
            4 => 4,
            5 => 5 + rng.below(3),
            _ => rng.below(40),
        };
        let json = rng.chance(1, 3);
        (0..n)
            .map(|i| if json { b"{\"a\":\"b\",\"c\":{}}  "[i as usize % 18] } else { *rng.pick(&[0u8, 1, 0x7f, 0x80, 0xfb, 0xff, 0x3e, 0x3f]) ^ (rng.below(4) as u8) })
            .collect()
    }

    fn gen_cosmos(&self, rng: &mut Rng) -> Vec<CosmosMsg> {
        let n = match rng.below(6) {
            0 | 1 => 0,
            2 | 3 => 1,
            4 => 2,
            _ => 3,
        };
        (0..n)
            .map(|_| {
                if rng.chance(1, 2) {
                    BankMsg::Send { to_address: self.gen_addr(rng), amount: self.gen_coins(rng) }.into()
                } else if rng.chance(1, 2) {
                    // a message built by another helper
                    Cw20Contract(Addr::unchecked(self.gen_addr(rng)))
                        .call(Cw20ExecuteMsg::Transfer { recipient: self.gen_addr(rng), amount: Uint128::new(self.gen_u128(rng)) })
                        .unwrap()
                } else {
                    WasmMsg::Execute { contract_addr: self.gen_addr(rng), msg: Binary::from(self.gen_bytes(rng)), funds: self.gen_coins(rng) }.into()
                }
            })
            .collect()
    }

    fn gen_reply(&self, rng: &mut Rng, want: &str) -> String {
        let kind = if rng.chance(3, 5) {
            want
        } else {
            *rng.pick(&["nocontract", "fail", "null", "balance", "tokeninfo", "allowance", "minter", "hooks", "admin"])
        };
        match kind {
            "balance" => format!("balance/{}", self.gen_u128(rng)),
            "tokeninfo" => {
                format!("tokeninfo/{}/{}/{}/{}", text_enc(&self.gen_text(rng)), text_enc(&self.gen_text(rng)), rng.below(256), self.gen_u128(rng))
            }
            "allowance" => format!("allowance/{}/{}", self.gen_u128(rng), render_exp(&self.gen_exp(rng).unwrap_or(Expiration::Never {}))),
            "minter" => format!(
                "minter/{}/{}",
                text_enc(&self.gen_addr(rng)),
                if rng.chance(1, 2) { "-".to_string() } else { self.gen_u128(rng).to_string() }
            ),
            "hooks" => {
                let n = rng.below(4);
                let v: Vec<String> = (0..n).map(|_| self.gen_addr(rng)).collect();
                format!("hooks/{}", render_texts(&v, "+"))
            }
            "admin" => format!("admin/{}", opt_text_enc(&if rng.chance(1, 3) { None } else { Some(self.gen_addr(rng)) })),
            k => k.to_string(),
        }
    }
}

impl Scenario for PkgScen {
    fn start(&mut self, seed: u64, trace: u64) -> String {
        format!("scenario pkg seed={seed} trace={trace}")
    }

    fn reset(&mut self, _header: &str) {}

    fn gen_op(&mut self, rng: &mut Rng, _step: usize) -> String {
        let c = text_enc(&self.gen_addr(rng));
        match rng.below(20) {
            0 => format!("coin addr={} amount={}", text_enc(&self.gen_addr(rng)), self.gen_u128(rng)),
            1..=4 => match rng.below(8) {
                0 => "balance src=default".to_string(),
                1 | 2 => format!("balance src=cw20 addr={} amount={}", text_enc(&self.gen_addr(rng)), self.gen_u128(rng)),
                _ => format!("balance src=coins coins={}", render_coins(&self.gen_coins(rng), ",")),
            },
            5 => match rng.below(5) {
                0 => "denom kind=default s=empty".to_string(),
                1 | 2 => format!("denom kind=native s={}", text_enc(&self.gen_text(rng))),
                _ => format!("denom kind=cw20 s={}", text_enc(&self.gen_addr(rng))),
            },
            6..=8 => {
                let ctor = *rng.pick(&["native", "cw20", "parts", "parts"]);
                let s = if ctor == "cw20" && rng.chance(1, 2) { self.gen_addr(rng) } else { self.gen_text(rng) };
                format!("amount ctor={} a={} s={}", ctor, self.gen_u128(rng), text_enc(&s))
            }
            9..=11 => {
                let r = text_enc(&self.gen_addr(rng));
                let o = text_enc(&self.gen_addr(rng));
                let amt = self.gen_u128(rng);
                let exp = render_opt_exp(&self.gen_exp(rng));
                let data = render_hex(&self.gen_bytes(rng));
                match rng.below(11) {
                    0 => format!("call20 c={c} f=transfer r={r} amt={amt}"),
                    1 => format!("call20 c={c} f=burn amt={amt}"),
                    2 => format!("call20 c={c} f=send r={r} amt={amt} data={data}"),
                    3 => format!("call20 c={c} f=increase_allowance r={r} amt={amt} exp={exp}"),
                    4 => format!("call20 c={c} f=decrease_allowance r={r} amt={amt} exp={exp}"),
                    5 => format!("call20 c={c} f=transfer_from o={o} r={r} amt={amt}"),
                    6 => format!("call20 c={c} f=send_from o={o} r={r} amt={amt} data={data}"),
                    7 => format!("call20 c={c} f=burn_from o={o} amt={amt}"),
                    8 => format!("call20 c={c} f=mint r={r} amt={amt}"),
                    9 => format!("call20 c={c} f=update_minter m={}", opt_text_enc(&self.gen_opt_text(rng))),
                    _ => format!(
                        "call20 c={c} f=update_marketing p={} d={} m={}",
                        opt_text_enc(&self.gen_opt_text(rng)),
                        opt_text_enc(&self.gen_opt_text(rng)),
                        opt_text_enc(&self.gen_opt_text(rng))
                    ),
                }
            }
            12 | 13 => {
                let via = *rng.pick(&["helper", "encode"]);
                let id = self.gen_u64(rng);
                match rng.below(5) {
                    0 => format!("cw3 c={c} via={via} f=vote id={id} vote={}", rng.pick(&["yes", "no", "abstain", "veto"])),
                    1 => format!("cw3 c={c} via={via} f=execute id={id}"),
                    2 => format!("cw3 c={c} via={via} f=close id={id}"),
                    _ => format!(
                        "cw3 c={c} via={via} f=propose title={} desc={} msgs={} earliest={} latest={}",
                        text_enc(&self.gen_text(rng)),
                        text_enc(&self.gen_text(rng)),
                        render_cosmos(&self.gen_cosmos(rng)),
                        render_opt_exp(&self.gen_exp(rng)),
                        render_opt_exp(&self.gen_exp(rng))
                    ),
                }
            }
            14 => match rng.below(3) {
                0 => format!("cw4 c={c} f=add_hook a={}", text_enc(&self.gen_addr(rng))),
                1 => format!("cw4 c={c} f=remove_hook a={}", text_enc(&self.gen_addr(rng))),
                _ => format!("cw4 c={c} f=update_admin a={}", opt_text_enc(&if rng.chance(1, 3) { None } else { Some(self.gen_addr(rng)) })),
            },
            15 => {
                let nr = rng.below(4);
                let na = rng.below(4);
                let remove: Vec<String> = (0..nr).map(|_| self.gen_addr(rng)).collect();
                let add: Vec<String> = (0..na).map(|_| format!("{}:{}", text_enc(&self.gen_addr(rng)), self.gen_u64(rng))).collect();
                format!("cw4g c={c} remove={} add={}", render_texts(&remove, ","), if add.is_empty() { "-".to_string() } else { add.join(",") })
            }
            16 => format!("cw1 c={c} msgs={}", render_cosmos(&self.gen_cosmos(rng))),
            17 | 18 => {
                let (f, want) = *rng.pick(&[
                    ("balance", "balance"),
                    ("meta", "tokeninfo"),
                    ("allowance", "allowance"),
                    ("minter", "minter"),
                    ("minter", "null"),
                    ("has_allowance", "allowance"),
                    ("is_mintable", "minter"),
                    ("is_mintable", "null"),
                    ("hooks", "hooks"),
                    ("admin", "admin"),
                ]);
                let scen = if f == "hooks" || f == "admin" { "q4" } else { "q20" };
                format!(
                    "{scen} c={c} f={f} a={} b={} reply={}",
                    text_enc(&self.gen_addr(rng)),
                    text_enc(&self.gen_addr(rng)),
                    self.gen_reply(rng, want)
                )
            }
            _ => {
                let reply = self.gen_reply(rng, "tokeninfo");
                if rng.chance(1, 4) {
                    format!("intochecked kind=native s=+{} reply={reply}", text_enc(&self.gen_text(rng)))
                } else {
                    let s = self.gen_addr(rng);
                    let m = if cosmwasm_std::Api::addr_validate(&self.api, &s).is_ok() { '+' } else { '-' };
                    format!("intochecked kind=cw20 s={m}{} reply={reply}", text_enc(&s))
                }
            }
        }
    }

    /// Small scope: every op is an independent evaluation, so depth 1 is complete; the alphabet is a fixed list of
    /// the smallest inputs of every op kind (amounts 0/1, empty / one / two coins, the `cw20:` prefix cases, every
    /// message kind once, every reply kind against every query wrapper).
    fn small_scope(&mut self, variant: u64) -> Option<SmallScope> {
        if variant > 0 {
            return None;
        }
        let mut al: Vec<String> = vec![];
        for amt in [0u128, 1] {
            al.push(format!("coin addr=a amount={amt}"));
            al.push(format!("balance src=cw20 addr=a amount={amt}"));
            for s in ["empty", "uatom", "cw20%3A", "cw20%3Aa", "cw20", "CW20%3Aa"] {
                for ctor in ["native", "cw20", "parts"] {
                    al.push(format!("amount ctor={ctor} a={amt} s={s}"));
                }
            }
        }
        al.push(format!("amount ctor=parts a={} s=x", u64::MAX));
        al.push(format!("amount ctor=parts a={} s=x", u64::MAX as u128 + 1));
        al.push("balance src=default".into());
        for coins in ["-", "a:0", "a:1", "a:0,b:0", "a:1,a:1", "b:1,a:1", "a:1,b:0,a:2", "a1:2", "a:12"] {
            al.push(format!("balance src=coins coins={coins}"));
        }
        al.push(format!("balance src=coins coins=a:{},a:1", u128::MAX));
        al.push(format!("balance src=coins coins=a:{},a:1", u128::MAX - 1));
        for (k, s) in [("default", "empty"), ("native", "empty"), ("native", "a"), ("cw20", "empty"), ("cw20", "a")] {
            al.push(format!("denom kind={k} s={s}"));
        }
        for f in ["transfer r=r amt=1", "burn amt=0", "send r=r amt=1 data=00", "increase_allowance r=r amt=1 exp=-",
            "decrease_allowance r=r amt=1 exp=h1", "transfer_from o=o r=r amt=1", "send_from o=o r=r amt=1 data=-",
            "burn_from o=o amt=1", "mint r=r amt=1", "update_minter m=-", "update_minter m=m", "update_marketing p=- d=d m=-"]
        {
            al.push(format!("call20 c=c f={f}"));
        }
        for via in ["helper", "encode"] {
            al.push(format!("cw3 c=c via={via} f=vote id=1 vote=yes"));
            al.push(format!("cw3 c=c via={via} f=execute id=0"));
            al.push(format!("cw3 c=c via={via} f=close id=1"));
            al.push(format!("cw3 c=c via={via} f=propose title=t desc=empty msgs=- earliest=- latest=never"));
            al.push(format!("cw3 c=c via={via} f=propose title=t desc=d msgs=bank/x/a:1;wasm/y/00/- earliest=t1 latest=h2"));
        }
        for f in ["add_hook a=a", "remove_hook a=a", "update_admin a=-", "update_admin a=a"] {
            al.push(format!("cw4 c=c f={f}"));
        }
        al.push("cw4g c=c remove=- add=-".into());
        al.push("cw4g c=c remove=a,b add=a:0,c:1".into());
        al.push("cw1 c=c msgs=-".into());
        al.push("cw1 c=c msgs=bank/x/-".into());
        let replies = ["nocontract", "fail", "null", "balance/1", "tokeninfo/n/s/6/1", "allowance/1/never", "minter/m/-", "minter/m/1", "hooks/-", "hooks/h", "admin/-", "admin/a"];
        for r in replies {
            for f in ["balance", "meta", "allowance", "minter", "has_allowance", "is_mintable"] {
                al.push(format!("q20 c=c f={f} a=a b=b reply={r}"));
            }
            for f in ["hooks", "admin"] {
                al.push(format!("q4 c=c f={f} a=a b=b reply={r}"));
            }
            al.push(format!("intochecked kind=cw20 s=-x reply={r}"));
            let good = self.api.addr_make("token").to_string();
            al.push(format!("intochecked kind=cw20 s=+{good} reply={r}"));
        }
        al.push("intochecked kind=native s=+empty reply=nocontract".into());
        // the receiver-side `from_json` against the MsgWire decoders (the full directed set: corpus/C09/msgdecode_directed.ops)
        for (kind, json) in [
            ("receive", r#"{"receive":{"sender":"s","amount":"1","msg":"YQ=="}}"#),
            ("receive", r#" { "receive" : { "msg":"YQ" , "amount":"+07","sender":"s" } } "#),
            ("receive", r#"{"receive":{"sender":"s","amount":"1","msg":"","x":1}}"#),
            ("receive", r#"{"receive":{"sender":"s","amount":1,"msg":""}}"#),
            ("receive", r#"{"receive":{"sender":"s","amount":"1"}}"#),
            ("hook", r#"{"member_changed_hook":{"diffs":[{"key":"a","old":null,"new":5},{"key":"b","old":18446744073709551615}]}}"#),
            ("hook", r#"{"member_changed_hook":{"diffs":[,{"key":"a"}]}}"#),
            ("hook", r#"{"member_changed_hook":{"diffs":[{"key":"a","old":07}]}}"#),
            ("hook", r#"{"member_changed_hook":{"diffs":[{"key":"a","old":18446744073709551616}]}}"#),
            ("hook", r#"{"member_changed_hook":{"diffs":[]}}"#),
            ("transfer", r#"{"transfer":{"recipient":"r","amount":"5"}}"#),
            ("transfer", r#"{"transfer":{"amount":"340282366920938463463374607431768211455","recipient":""}}"#),
            ("transfer", r#"{"transfer":{"recipient":"r","amount":"340282366920938463463374607431768211456"}}"#),
            ("transfer", r#"{"transfer_from":{"owner":"o","recipient":"r","amount":"5"}}"#),
            ("transfer", r#"{"burn":{"amount":"5"}}"#),
            ("transfer_from", r#"{"transfer_from":{"owner":"o","recipient":"r","amount":"5"}}"#),
            ("transfer_from", r#"{"transfer_from":{"recipient":"r","amount":"5"}}"#),
            ("transfer_from", r#"{"transfer_from":{"owner":"o","recipient":"r","amount":"5"}} x"#),
        ] {
            al.push(format!("decode kind={kind} data={}", hex(json.as_bytes())));
        }
        Some(SmallScope { prefix: vec![], alphabet: al })
    }

    fn apply(&mut self, op: &str) -> Vec<String> {
        let a = Args::parse(op);
        let kind = a.pos.first().map(|s| s.as_str()).unwrap_or("");
        let t = |k: &str| text_dec(&a.str(k));
        let bad = || vec!["> err badop".to_string()];
        match kind {
            "coin" => {
                let c = Cw20Coin { address: t("addr"), amount: Uint128::new(a.u128("amount")) };
                let v = Cw20CoinVerified { address: Addr::unchecked(t("addr")), amount: Uint128::new(a.u128("amount")) };
                vec![format!(
                    "> ok empty={} display={} vempty={} vdisplay={}",
                    b(c.is_empty()),
                    text_enc(&c.to_string()),
                    b(v.is_empty()),
                    text_enc(&v.to_string())
                )]
            }
            "balance" => {
                let bal: Balance = match a.str("src").as_str() {
                    "default" => Balance::default(),
                    "cw20" => Balance::from(Cw20CoinVerified { address: Addr::unchecked(t("addr")), amount: Uint128::new(a.u128("amount")) }),
                    "coins" => Balance::from(parse_coins(&a.str("coins"), ',')),
                    _ => return bad(),
                };
                let render = |x: &Balance| match x {
                    Balance::Native(NativeBalance(v)) => format!("native/{}", render_coins(v, ",")),
                    Balance::Cw20(c) => format!("cw20/{}/{}", text_enc(c.address.as_str()), c.amount.u128()),
                };
                let normed = catch(|| {
                    let mut x = bal.clone();
                    x.normalize();
                    x
                });
                let (norm, nempty, ndisplay) = match &normed {
                    Some(x) => (render(x), b(x.is_empty()).to_string(), text_enc(&x.to_string())),
                    None => ("panic".to_string(), "-".to_string(), "-".to_string()),
                };
                vec![format!(
                    "> ok val={} empty={} display={} norm={} nempty={} ndisplay={}",
                    render(&bal),
                    b(bal.is_empty()),
                    text_enc(&bal.to_string()),
                    norm,
                    nempty,
                    ndisplay
                )]
            }
            "denom" => {
                let d = match a.str("kind").as_str() {
                    "default" => Denom::default(),
                    "native" => Denom::Native(t("s")),
                    "cw20" => Denom::Cw20(Addr::unchecked(t("s"))),
                    _ => return bad(),
                };
                let val = match &d {
                    Denom::Native(s) => format!("native/{}", text_enc(s)),
                    Denom::Cw20(x) => format!("cw20/{}", text_enc(x.as_str())),
                };
                vec![format!("> ok val={} empty={}", val, b(d.is_empty()))]
            }
            "amount" => {
                let n = a.u128("a");
                let s = t("s");
                let x = match a.str("ctor").as_str() {
                    "native" => Amount::native(n, &s),
                    "cw20" => Amount::cw20(n, &s),
                    "parts" => Amount::from_parts(s, Uint128::new(n)),
                    _ => return bad(),
                };
                let val = match &x {
                    Amount::Native(c) => format!("native/{}/{}", text_enc(&c.denom), c.amount.u128()),
                    Amount::Cw20(c) => format!("cw20/{}/{}", text_enc(&c.address), c.amount.u128()),
                };
                let u = match catch(|| x.u64_amount()) {
                    Some(Ok(v)) => v.to_string(),
                    Some(Err(_)) => "err".to_string(),
                    None => "panic".to_string(),
                };
                let back = Amount::from_parts(x.denom(), x.amount());
                vec![format!(
                    "> ok val={} denom={} amount={} u64={} empty={} rt={}",
                    val,
                    text_enc(&x.denom()),
                    x.amount().u128(),
                    u,
                    b(x.is_empty()),
                    b(back == x)
                )]
            }
            "call20" => {
                let amt = Uint128::new(a.u128("amt"));
                let data = Binary::from(parse_hex(&a.str("data")));
                let msg = match a.str("f").as_str() {
                    "transfer" => Cw20ExecuteMsg::Transfer { recipient: t("r"), amount: amt },
                    "burn" => Cw20ExecuteMsg::Burn { amount: amt },
                    "send" => Cw20ExecuteMsg::Send { contract: t("r"), amount: amt, msg: data },
                    "increase_allowance" => Cw20ExecuteMsg::IncreaseAllowance { spender: t("r"), amount: amt, expires: opt_exp(&a, "exp") },
                    "decrease_allowance" => Cw20ExecuteMsg::DecreaseAllowance { spender: t("r"), amount: amt, expires: opt_exp(&a, "exp") },
                    "transfer_from" => Cw20ExecuteMsg::TransferFrom { owner: t("o"), recipient: t("r"), amount: amt },
                    "send_from" => Cw20ExecuteMsg::SendFrom { owner: t("o"), contract: t("r"), amount: amt, msg: data },
                    "burn_from" => Cw20ExecuteMsg::BurnFrom { owner: t("o"), amount: amt },
                    "mint" => Cw20ExecuteMsg::Mint { recipient: t("r"), amount: amt },
                    "update_minter" => Cw20ExecuteMsg::UpdateMinter { new_minter: opt_text(&a, "m") },
                    "update_marketing" => {
                        Cw20ExecuteMsg::UpdateMarketing { project: opt_text(&a, "p"), description: opt_text(&a, "d"), marketing: opt_text(&a, "m") }
                    }
                    _ => return bad(),
                };
                let h = Cw20Contract(Addr::unchecked(t("c")));
                match catch(|| h.call(msg.clone())) {
                    Some(Ok(m)) => match render_emitted(&m) {
                        Some((txt, payload)) => {
                            let rt = from_json::<Cw20ExecuteMsg>(&payload).map(|x| x == msg).unwrap_or(false);
                            vec![format!("> ok {} rt={}", txt, b(rt))]
                        }
                        None => vec!["> ok to=other".to_string()],
                    },
                    _ => vec!["> err".to_string()],
                }
            }
            "cw3" => {
                let h = Cw3Contract(Addr::unchecked(t("c")));
                let id = a.u64("id");
                let vote = match a.str("vote").as_str() {
                    "no" => Vote::No,
                    "abstain" => Vote::Abstain,
                    "veto" => Vote::Veto,
                    _ => Vote::Yes,
                };
                let msgs = parse_cosmos(&a.str("msgs"));
                let (earliest, latest) = (opt_exp(&a, "earliest"), opt_exp(&a, "latest"));
                let msg: Cw3ExecuteMsg = match a.str("f").as_str() {
                    "vote" => Cw3ExecuteMsg::Vote { proposal_id: id, vote },
                    "execute" => Cw3ExecuteMsg::Execute { proposal_id: id },
                    "close" => Cw3ExecuteMsg::Close { proposal_id: id },
                    "propose" => Cw3ExecuteMsg::Propose { title: t("title"), description: t("desc"), msgs: msgs.clone(), earliest, latest },
                    _ => return bad(),
                };
                let built = if a.str("via") == "encode" {
                    catch(|| h.encode_msg(msg.clone()))
                } else {
                    match a.str("f").as_str() {
                        "vote" => catch(|| h.vote(id, vote)),
                        "execute" => catch(|| h.execute(id)),
                        "close" => catch(|| h.close(id)),
                        _ => catch(|| h.proposal(t("title"), t("desc"), msgs.clone(), earliest, latest)),
                    }
                };
                match built {
                    Some(Ok(m)) => match render_emitted(&m) {
                        Some((txt, payload)) => {
                            let rt = from_json::<Cw3ExecuteMsg>(&payload).map(|x| x == msg).unwrap_or(false);
                            vec![format!("> ok {} rt={}", txt, b(rt))]
                        }
                        None => vec!["> ok to=other".to_string()],
                    },
                    _ => vec!["> err".to_string()],
                }
            }
            "cw4" => {
                let h = Cw4Contract::new(Addr::unchecked(t("c")));
                let (built, msg) = match a.str("f").as_str() {
                    "add_hook" => (catch(|| h.add_hook(t("a"))), Cw4ExecuteMsg::AddHook { addr: t("a") }),
                    "remove_hook" => (catch(|| h.remove_hook(t("a"))), Cw4ExecuteMsg::RemoveHook { addr: t("a") }),
                    "update_admin" => (catch(|| h.update_admin(opt_text(&a, "a"))), Cw4ExecuteMsg::UpdateAdmin { admin: opt_text(&a, "a") }),
                    _ => return bad(),
                };
                match built {
                    Some(Ok(m)) => match render_emitted(&m) {
                        Some((txt, payload)) => {
                            let rt = from_json::<Cw4ExecuteMsg>(&payload).map(|x| x == msg).unwrap_or(false);
                            vec![format!("> ok {} rt={}", txt, b(rt))]
                        }
                        None => vec!["> ok to=other".to_string()],
                    },
                    _ => vec!["> err".to_string()],
                }
            }
            "cw4g" => {
                let h = Cw4GroupContract::new(Addr::unchecked(t("c")));
                let remove = parse_texts(&a.str("remove"), ',');
                let adds = a.str("add");
                let add: Vec<Member> = if adds.is_empty() || adds == "-" {
                    vec![]
                } else {
                    adds.split(',')
                        .map(|x| {
                            let (ad, w) = x.split_once(':').unwrap_or((x, "0"));
                            Member { addr: text_dec(ad), weight: w.parse().unwrap_or(0) }
                        })
                        .collect()
                };
                let msg = cw4_group::msg::ExecuteMsg::UpdateMembers { remove: remove.clone(), add: add.clone() };
                match catch(|| h.update_members(remove.clone(), add.clone())) {
                    Some(Ok(m)) => match render_emitted(&m) {
                        Some((txt, payload)) => {
                            let rt = from_json::<cw4_group::msg::ExecuteMsg>(&payload).map(|x| x == msg).unwrap_or(false);
                            vec![format!("> ok {} rt={}", txt, b(rt))]
                        }
                        None => vec!["> ok to=other".to_string()],
                    },
                    _ => vec!["> err".to_string()],
                }
            }
            "cw1" => {
                let h = cw1::Cw1Contract(Addr::unchecked(t("c")));
                let msgs = parse_cosmos(&a.str("msgs"));
                let msg: cw1::Cw1ExecuteMsg = cw1::Cw1ExecuteMsg::Execute { msgs: msgs.clone() };
                match catch(|| h.execute(msgs.clone())) {
                    Some(Ok(m)) => match render_emitted(&m) {
                        Some((txt, payload)) => {
                            let rt = from_json::<cw1::Cw1ExecuteMsg>(&payload).map(|x| x == msg).unwrap_or(false);
                            vec![format!("> ok {} rt={}", txt, b(rt))]
                        }
                        None => vec!["> ok to=other".to_string()],
                    },
                    _ => vec!["> err".to_string()],
                }
            }
            "q20" => {
                let h = Cw20Contract(Addr::unchecked(t("c")));
                let (q, seen) = scripted(parse_reply(&a.str("reply")));
                let w: QuerierWrapper = QuerierWrapper::new(&q);
                let res = match a.str("f").as_str() {
                    "balance" => catch(|| h.balance(&w, t("a")).map(|x| x.u128().to_string())),
                    "meta" => catch(|| {
                        h.meta(&w).map(|x| format!("{}/{}/{}/{}", text_enc(&x.name), text_enc(&x.symbol), x.decimals, x.total_supply.u128()))
                    }),
                    "allowance" => catch(|| h.allowance(&w, t("a"), t("b")).map(|x| format!("{}/{}", x.allowance.u128(), render_exp(&x.expires)))),
                    "minter" => catch(|| {
                        h.minter(&w).map(|x| match x {
                            None => "none".to_string(),
                            Some(m) => format!("{}/{}", text_enc(&m.minter), opt_str(&m.cap.map(|c| c.u128()))),
                        })
                    }),
                    "has_allowance" => catch(|| Ok(b(h.has_allowance(&w)).to_string())),
                    "is_mintable" => catch(|| Ok(b(h.is_mintable(&w)).to_string())),
                    _ => return bad(),
                };
                let res: String = match res {
                    Some(Ok(s)) => s,
                    Some(Err(_)) => "err".to_string(),
                    None => "panic".to_string(),
                };
                vec![format!("> ok {} res={}", render_seen(&seen), res)]
            }
            "q4" => {
                let h = Cw4Contract::new(Addr::unchecked(t("c")));
                let (q, seen) = scripted(parse_reply(&a.str("reply")));
                let w: QuerierWrapper = QuerierWrapper::new(&q);
                let res = match a.str("f").as_str() {
                    "hooks" => catch(|| h.hooks(&w).map(|x| render_texts(&x, "+"))),
                    "admin" => catch(|| h.admin(&w).map(|x| opt_text_enc(&x))),
                    _ => return bad(),
                };
                let res: String = match res {
                    Some(Ok(s)) => s,
                    Some(Err(_)) => "err".to_string(),
                    None => "panic".to_string(),
                };
                vec![format!("> ok {} res={}", render_seen(&seen), res)]
            }
            "intochecked" => {
                let raw = a.str("s");
                let s = text_dec(&addr_text(&raw));
                let d = match a.str("kind").as_str() {
                    "native" => UncheckedDenom::Native(s),
                    "cw20" => UncheckedDenom::Cw20(s),
                    _ => return bad(),
                };
                let (q, seen) = scripted(parse_reply(&a.str("reply")));
                let mut deps = mock_dependencies();
                deps.querier = q;
                let res = match catch(|| d.into_checked(deps.as_ref())) {
                    Some(Ok(Denom::Native(x))) => format!("native/{}", text_enc(&x)),
                    Some(Ok(Denom::Cw20(x))) => format!("cw20/{}", text_enc(x.as_str())),
                    Some(Err(_)) => "err".to_string(),
                    None => "panic".to_string(),
                };
                vec![format!("> ok {} res={}", render_seen(&seen), res)]
            }
            "decode" => match decode_wire(&a.str("kind"), &parse_hex(&a.str("data"))) {
                Some(res) => vec![format!("> ok res={res}")],
                None => bad(),
            },
            _ => bad(),
        }
    }
}
