//! Scenario `ics20`: the real `cw20_ics20` entry points in APP MODE (cw-multi-test 2.0.0).
//!
//! * the contract is wrapped as `ContractWrapper::new(execute, instantiate, query).with_reply(reply)
//!   .with_migrate(migrate).with_sudo(adapter)`; `adapter` maps `Connect/Receive/Ack/Timeout` sudo
//!   messages to the real IBC entry points and converts `IbcReceiveResponse`/`IbcBasicResponse`
//!   into a `Response` (sub-messages kept, acknowledgement as `data`), so cw-multi-test runs the real
//!   `reply` with its own sub-message / rollback semantics;
//! * a recording `Ibc` module accepts and logs `IbcMsg::SendPacket`;
//! * two cw20-base tokens; the second one fails `Transfer` while the fault flag is set; the bank is
//!   wrapped so that `Send` fails while the flag is set or when the recipient does not validate
//!   (cw-multi-test's own bank accepts any recipient string, a real chain does not);
//! * a legacy stub (same code, but `instantiate` writes a pre-0.12 / pre-0.13.1 storage layout)
//!   for the migration paths.
//!
//! Wire format (tie of lean/CwPlus/CwPlus/Base/Json.lean): `ibc recv … data=<hex>` delivers exactly those bytes
//! as `IbcPacket.data` (the printed fields `amt= denom= snd=` are then only a comment, `rcv=` still carries the
//! result of `addr_validate` on the receiver and `tv=` that on the cw20 address of the denomination); the generator
//! mostly sends the canonical JSON of the printed fields and, for more than 15 % of the packets, mutated JSON
//! (`mutate_packet_json`).  `ibc ack … ackdata=<hex>` delivers exactly those bytes as the acknowledgement.  Outcome
//! lines carry `pkt=<hex>[;<hex>]` (the data of every `IbcMsg::SendPacket`) and `ackraw=<hex>` (the acknowledgement
//! bytes the transaction produced: `IbcReceiveResponse.acknowledgement` or the `reply`'s data override).  Free text
//! (`to=`, `memo=`, receiver / memo inside `sent=`, `rcv=` / `memo=` of ack and timeout lines) is percent-encoded
//! (`text_enc`).  Old lines (`raw=1`, no `data=`) keep working.
// SCENARIO ics20 crate::scen_ics20::Ics20Scen::new()
// SCENARIO ics20wide crate::scen_ics20::Ics20Scen::new_wide()
//
// `ics20wide` (C20): 36 further valid addresses (header field `extra=`; `Allow` only validates the address) that the
// generator puts on the allow list (at instantiation and through `allow`), plus explicit `query list_allowed` page
// requests, so ListAllowed exceeds the default and the maximum page size.  The point queries `pallow` cover
// tokens ++ pool ++ extra on both sides.
use crate::common::*;
use cosmwasm_std::testing::{MockApi, MockStorage};
use cosmwasm_std::{
    coin, from_json, to_json_binary, Addr, Api, BankMsg, BankQuery, Binary, BlockInfo, Coin, CustomMsg, CustomQuery,
    DepsMut, Empty, Env, IbcAcknowledgement, IbcChannel, IbcChannelCloseMsg, IbcChannelConnectMsg, IbcChannelOpenMsg,
    IbcEndpoint, IbcMsg, IbcOrder, IbcPacket, IbcPacketAckMsg, IbcPacketReceiveMsg, IbcPacketTimeoutMsg, IbcQuery,
    IbcTimeout, MessageInfo, PortIdResponse, Querier, Response, StdError, Storage, SubMsg, Timestamp, Uint128,
};
use cw20::{BalanceResponse, Cw20Coin, Cw20ExecuteMsg, Cw20QueryMsg, Cw20ReceiveMsg};
use cw20_ics20::amount::Amount;
use cw20_ics20::contract::{execute, instantiate, migrate, query};
use cw20_ics20::ibc::{
    ibc_channel_close, ibc_channel_connect, ibc_channel_open, ibc_packet_ack, ibc_packet_receive, ibc_packet_timeout, reply,
    Ics20Ack, Ics20Packet,
};
use cw20_ics20::msg::{
    AllowMsg, AllowedResponse, ChannelResponse, ConfigResponse, ExecuteMsg, InitMsg, ListAllowedResponse,
    ListChannelsResponse, MigrateMsg, PortResponse, QueryMsg, TransferMsg,
};
use cw20_ics20::state::{AllowInfo, ChannelInfo, ChannelState, Config, ADMIN, ALLOW_LIST, CHANNEL_INFO, CHANNEL_STATE, CONFIG};
use cw20_ics20::ContractError;
use cw_multi_test::error::AnyResult;
use cw_multi_test::{
    App, AppBuilder, AppResponse, Bank, BankKeeper, BankSudo, ContractWrapper, CosmosRouter, DistributionKeeper,
    Executor, FailingModule, GovFailingModule, Ibc, Module, StakeKeeper, StargateFailingModule, SudoMsg, WasmKeeper,
};
use cw_storage_plus::Item;
use serde::de::DeserializeOwned;
use serde::{Deserialize, Serialize};
use std::cell::{Cell, RefCell};

thread_local! {
    /// fault injection: payout / refund sub-calls fail while set
    static FAULT: Cell<bool> = Cell::new(false);
    /// `IbcMsg::SendPacket`s accepted by the recording Ibc module: (channel, data, timeout ns)
    static SENT: RefCell<Vec<(String, Binary, Option<u64>)>> = RefCell::new(vec![]);
    /// sub-messages of the handler-level response of the IBC entry points (canonical text incl. gas limit)
    static SUBLOG: RefCell<Vec<String>> = RefCell::new(vec![]);
    /// the `msg` bytes (hex) of every `WasmMsg::Execute` among those sub-messages, in order (`subraw=`)
    static SUBRAW: RefCell<Vec<String>> = RefCell::new(vec![]);
    /// what the chain answers to `IbcQuery::PortId` (`None`: the query fails); set by `query port env=…`
    static PORT: RefCell<Option<String>> = RefCell::new(None);
}

// ---------------------------------------------------------------- recording Ibc module
pub struct RecordingIbc;

impl Module for RecordingIbc {
    type ExecT = IbcMsg;
    type QueryT = IbcQuery;
    type SudoT = Empty;

    fn execute<ExecC, QueryC>(
        &self,
        _api: &dyn Api,
        _storage: &mut dyn Storage,
        _router: &dyn CosmosRouter<ExecC = ExecC, QueryC = QueryC>,
        _block: &BlockInfo,
        _sender: Addr,
        msg: IbcMsg,
    ) -> AnyResult<AppResponse>
    where
        ExecC: CustomMsg + DeserializeOwned + 'static,
        QueryC: CustomQuery + DeserializeOwned + 'static,
    {
        match msg {
            IbcMsg::SendPacket { channel_id, data, timeout } => {
                SENT.with(|s| s.borrow_mut().push((channel_id, data, timeout.timestamp().map(|t| t.nanos()))));
                Ok(AppResponse::default())
            }
            other => Err(anyhow::anyhow!("unexpected ibc msg {other:?}")),
        }
    }

    fn query(
        &self,
        _api: &dyn Api,
        _storage: &dyn Storage,
        _querier: &dyn Querier,
        _block: &BlockInfo,
        request: IbcQuery,
    ) -> AnyResult<Binary> {
        match request {
            IbcQuery::PortId {} => match PORT.with(|p| p.borrow().clone()) {
                Some(p) => Ok(to_json_binary(&PortIdResponse::new(p))?),
                None => Err(anyhow::anyhow!("no port bound")),
            },
            other => Err(anyhow::anyhow!("unexpected ibc query {other:?}")),
        }
    }

    fn sudo<ExecC, QueryC>(
        &self,
        _api: &dyn Api,
        _storage: &mut dyn Storage,
        _router: &dyn CosmosRouter<ExecC = ExecC, QueryC = QueryC>,
        _block: &BlockInfo,
        _msg: Empty,
    ) -> AnyResult<AppResponse>
    where
        ExecC: CustomMsg + DeserializeOwned + 'static,
        QueryC: CustomQuery + DeserializeOwned + 'static,
    {
        Err(anyhow::anyhow!("no ibc sudo"))
    }
}
impl Ibc for RecordingIbc {}

// ---------------------------------------------------------------- bank with fault injection
pub struct FaultyBank(BankKeeper);

impl Module for FaultyBank {
    type ExecT = BankMsg;
    type QueryT = BankQuery;
    type SudoT = BankSudo;

    fn execute<ExecC, QueryC>(
        &self,
        api: &dyn Api,
        storage: &mut dyn Storage,
        router: &dyn CosmosRouter<ExecC = ExecC, QueryC = QueryC>,
        block: &BlockInfo,
        sender: Addr,
        msg: BankMsg,
    ) -> AnyResult<AppResponse>
    where
        ExecC: CustomMsg + DeserializeOwned + 'static,
        QueryC: CustomQuery + DeserializeOwned + 'static,
    {
        if let BankMsg::Send { to_address, .. } = &msg {
            if FAULT.with(|f| f.get()) {
                return Err(anyhow::anyhow!("injected bank fault"));
            }
            if api.addr_validate(to_address).is_err() {
                return Err(anyhow::anyhow!("invalid recipient"));
            }
        }
        self.0.execute(api, storage, router, block, sender, msg)
    }

    fn query(
        &self,
        api: &dyn Api,
        storage: &dyn Storage,
        querier: &dyn Querier,
        block: &BlockInfo,
        request: BankQuery,
    ) -> AnyResult<Binary> {
        self.0.query(api, storage, querier, block, request)
    }

    fn sudo<ExecC, QueryC>(
        &self,
        api: &dyn Api,
        storage: &mut dyn Storage,
        router: &dyn CosmosRouter<ExecC = ExecC, QueryC = QueryC>,
        block: &BlockInfo,
        msg: BankSudo,
    ) -> AnyResult<AppResponse>
    where
        ExecC: CustomMsg + DeserializeOwned + 'static,
        QueryC: CustomQuery + DeserializeOwned + 'static,
    {
        self.0.sudo(api, storage, router, block, msg)
    }
}
impl Bank for FaultyBank {}

type IcsApp = App<
    FaultyBank,
    MockApi,
    MockStorage,
    FailingModule<Empty, Empty, Empty>,
    WasmKeeper<Empty, Empty>,
    StakeKeeper,
    DistributionKeeper,
    RecordingIbc,
    GovFailingModule,
    StargateFailingModule,
>;

// ---------------------------------------------------------------- the IBC adapter (sudo entry point)
#[derive(Serialize, Deserialize, Clone, Debug)]
#[serde(rename_all = "snake_case")]
pub enum IbcSudo {
    Open(IbcChannelOpenMsg),
    Close(IbcChannelCloseMsg),
    Connect(IbcChannelConnectMsg),
    Receive(IbcPacketReceiveMsg),
    Ack(IbcPacketAckMsg),
    Timeout(IbcPacketTimeoutMsg),
}

/// Canonical text of a payout / refund sub-message: `to/amount/denom/gas/replyid`.
/// The numeric reply id is deliberately not rendered: it is private to the contract (cw-multi-test routes the reply
/// by the id the code itself chose), so renumbering the ids is a harmless change.
fn render_sub(m: &SubMsg) -> String {
    use cosmwasm_std::{CosmosMsg, WasmMsg};
    let gas = opt_str(&m.gas_limit);
    let on = match m.reply_on {
        cosmwasm_std::ReplyOn::Error => "",
        _ => "!replyon",
    };
    match &m.msg {
        CosmosMsg::Bank(BankMsg::Send { to_address, amount }) if amount.len() == 1 => {
            format!("{}/{}/{}/{}{}", to_address, amount[0].amount, slash_enc(&amount[0].denom), gas, on)
        }
        CosmosMsg::Wasm(WasmMsg::Execute { contract_addr, msg, funds }) if funds.is_empty() => {
            match from_json::<Cw20ExecuteMsg>(msg) {
                Ok(Cw20ExecuteMsg::Transfer { recipient, amount }) => {
                    format!("{}/{}/cw20:{}/{}{}", recipient, amount, contract_addr, gas, on)
                }
                _ => "wasm?".to_string(),
            }
        }
        _ => "other?".to_string(),
    }
}

fn log_subs(msgs: &[SubMsg]) {
    SUBLOG.with(|l| {
        let mut l = l.borrow_mut();
        for m in msgs {
            l.push(render_sub(m));
        }
    });
    // the wire: the JSON payload of a cw20 payout / refund (`send_amount`), byte for byte
    SUBRAW.with(|l| {
        let mut l = l.borrow_mut();
        for m in msgs {
            if let cosmwasm_std::CosmosMsg::Wasm(cosmwasm_std::WasmMsg::Execute { msg, .. }) = &m.msg {
                l.push(hex(msg.as_slice()));
            }
        }
    });
}

/// Attributes / events are dropped (never compared; cw-multi-test rejects empty attribute values,
/// which a malicious packet can produce).
fn adapter(deps: DepsMut, env: Env, msg: IbcSudo) -> Result<Response, ContractError> {
    match msg {
        IbcSudo::Open(m) => {
            // `Ok(None)`: the contract accepts the proposed version as it is
            // (an answer `Some(version)` would be a deviation from the model: reported as a failing op)
            match ibc_channel_open(deps, env, m)? {
                None => Ok(Response::new()),
                Some(_) => Err(ContractError::Std(StdError::generic_err("harness: unexpected Ibc3ChannelOpenResponse"))),
            }
        }
        IbcSudo::Close(m) => {
            let r = ibc_channel_close(deps, env, m)?;
            log_subs(&r.messages);
            Ok(Response::new().add_submessages(r.messages))
        }
        IbcSudo::Connect(m) => {
            let r = ibc_channel_connect(deps, env, m)?;
            log_subs(&r.messages);
            Ok(Response::new().add_submessages(r.messages))
        }
        IbcSudo::Receive(m) => {
            let r = match ibc_packet_receive(deps, env, m) {
                Ok(r) => r,
                Err(_) => unreachable!(),
            };
            log_subs(&r.messages);
            let mut res = Response::new().add_submessages(r.messages);
            if let Some(a) = r.acknowledgement {
                res = res.set_data(a);
            }
            Ok(res)
        }
        IbcSudo::Ack(m) => {
            let r = ibc_packet_ack(deps, env, m)?;
            log_subs(&r.messages);
            Ok(Response::new().add_submessages(r.messages))
        }
        IbcSudo::Timeout(m) => {
            let r = ibc_packet_timeout(deps, env, m)?;
            log_subs(&r.messages);
            Ok(Response::new().add_submessages(r.messages))
        }
    }
}

// ---------------------------------------------------------------- faulty cw20
fn faulty_cw20_execute(
    deps: DepsMut,
    env: Env,
    info: MessageInfo,
    msg: cw20_base::msg::ExecuteMsg,
) -> Result<Response, cw20_base::ContractError> {
    if FAULT.with(|f| f.get()) {
        if let cw20_base::msg::ExecuteMsg::Transfer { .. } = &msg {
            return Err(cw20_base::ContractError::Std(StdError::generic_err("injected cw20 fault")));
        }
    }
    cw20_base::contract::execute(deps, env, info, msg)
}

// ---------------------------------------------------------------- legacy stub
#[derive(Serialize, Deserialize, Clone, Debug)]
pub struct V1Config {
    pub default_timeout: u64,
    pub gov_contract: Addr,
}
const V1_CONFIG: Item<V1Config> = Item::new("ics20_config");

#[derive(Serialize, Deserialize, Clone, Debug)]
pub struct LegacyInit {
    pub name: String,
    pub version: String,
    pub v1: bool,
    pub default_timeout: u64,
    pub gov: String,
    pub default_gas_limit: Option<u64>,
    pub allow: Vec<(String, Option<u64>)>,
    pub channels: Vec<(String, String)>,
    pub state: Vec<(String, String, Uint128, Uint128)>,
}

/// What an old code version left behind, written directly.
fn legacy_instantiate(mut deps: DepsMut, _env: Env, _info: MessageInfo, msg: LegacyInit) -> Result<Response, ContractError> {
    cw2::set_contract_version(deps.storage, msg.name, msg.version)?;
    if msg.v1 {
        V1_CONFIG.save(deps.storage, &V1Config { default_timeout: msg.default_timeout, gov_contract: Addr::unchecked(&msg.gov) })?;
    } else {
        CONFIG.save(deps.storage, &Config { default_timeout: msg.default_timeout, default_gas_limit: msg.default_gas_limit })?;
        ADMIN.set(deps.branch(), Some(Addr::unchecked(&msg.gov)))?;
        for (a, g) in &msg.allow {
            ALLOW_LIST.save(deps.storage, &Addr::unchecked(a), &AllowInfo { gas_limit: *g })?;
        }
    }
    for (id, cp) in &msg.channels {
        CHANNEL_INFO.save(
            deps.storage,
            id,
            &ChannelInfo {
                id: id.clone(),
                counterparty_endpoint: IbcEndpoint { port_id: REMOTE_PORT.to_string(), channel_id: cp.clone() },
                connection_id: "connection-0".to_string(),
            },
        )?;
    }
    for (c, d, o, t) in &msg.state {
        CHANNEL_STATE.save(deps.storage, (c, d), &ChannelState { outstanding: *o, total_sent: *t })?;
    }
    Ok(Response::new())
}

// ---------------------------------------------------------------- scenario
const REMOTE_PORT: &str = "transfer";
const OUR_PORT: &str = "wasm.ics20";
/// `channel-10`: an id of which another local id (`channel-1`) is a text prefix
const CHANS: [&str; 4] = ["channel-0", "channel-1", "channel-2", "channel-10"];
// `gamm` / `gamm/pool/1`: a native denom that itself contains the voucher separator, next to the denom that is its
// first path segment (inside `/`-separated renderings a denom's own `/` is written `~`, see `slash_enc`)
// `UATOM`: a second coin that differs from another only in letter case (denoms are case sensitive)
// `factory/x/uatom`: a denom whose LAST path segment is another denom of the world
const DENOMS: [&str; 6] = ["uatom", "ustake", "gamm", "gamm/pool/1", "UATOM", "factory/x/uatom"];

/// a denom inside a `/`-separated rendering (`sent=`, `sub=`): its own `/` becomes `~`
fn slash_enc(d: &str) -> String {
    d.replace('/', "~")
}
/// every actor starts with this much of every native denom and every cw20 token (2^66)
const FUND: u128 = 1u128 << 66;
const U64MAX: u128 = u64::MAX as u128;

fn render_chan_info(i: &ChannelInfo) -> String {
    format!("{}|{}|{}|{}", i.id, i.counterparty_endpoint.port_id, i.counterparty_endpoint.channel_id, i.connection_id)
}

fn counterparty(ch: &str) -> String {
    // channel ids are numbered independently on each chain, so the other side's id of one of our channels is often the
    // local id of another: our channel-0 <-> their channel-1, our channel-1 <-> their channel-2; otherwise channel-N <-> channel-1N
    match ch {
        "channel-0" => "channel-1".to_string(),
        "channel-1" => "channel-2".to_string(),
        _ => format!("channel-1{}", &ch["channel-".len()..]),
    }
}

#[derive(Clone, Debug, PartialEq)]
struct Flight {
    chan: String,
    denom: String,
    amt: u128,
    snd: String,
    rcv: String,
    memo: Option<String>,
}

/// texts that need (or look like they need) escaping on the wire or on an op line
const WIRE_TEXTS: [&str; 20] = [
    "a\"b",
    "back\\slash",
    "line\nbreak",
    "tab\there",
    "\u{1}ctl\u{1f}",
    "\u{7f}del",
    "caf\u{e9}",
    "\u{65e5}\u{672c}",
    "\u{1f600}",
    "",
    "a/b",
    "sp ace",
    "-",
    "empty",
    "\u{8}\u{c}\r",
    "%41",
    "\\u0041",
    "{\"k\":[1,2]}",
    "\u{0}nul",
    "x=y,z;w|v~",
];

/// serde's own rendering of a JSON string
fn json_str(s: &str) -> String {
    String::from_utf8(to_json_binary(&s).unwrap().to_vec()).unwrap()
}

/// every character as a `\uXXXX` escape (surrogate pairs above the BMP): another spelling of the same string
fn json_str_all_escaped(s: &str) -> String {
    let mut out = String::from("\"");
    for u in s.encode_utf16() {
        out.push_str(&format!("\\u{:04x}", u));
    }
    out.push('"');
    out
}

fn render_obj(fields: &[(String, String)]) -> Vec<u8> {
    let body: Vec<String> = fields.iter().map(|(k, v)| format!("{}:{}", json_str(k), v)).collect();
    format!("{{{}}}", body.join(",")).into_bytes()
}

/// A mutated JSON encoding of the packet `(amt, denom, rcv, snd, memo)`.  Mutations that keep the document
/// acceptable keep the values of amount / denom / receiver (the op line's `amt= rcv= tv=` stay true); whether a
/// document is acceptable is for the code under test to say.
fn mutate_packet_json(rng: &mut Rng, amt: u128, denom: &str, rcv: &str, snd: &str, memo: Option<&str>) -> Vec<u8> {
    let mut f: Vec<(String, String)> = vec![
        ("amount".to_string(), json_str(&amt.to_string())),
        ("denom".to_string(), json_str(denom)),
        ("receiver".to_string(), json_str(rcv)),
        ("sender".to_string(), json_str(snd)),
    ];
    if let Some(m) = memo {
        f.push(("memo".to_string(), json_str(m)));
    }
    let n = f.len();
    let pos = rng.below(n as u64 + 1) as usize;
    let scalars = ["123", "true", "false", "null", "-1.5e3", "tru", "12abc", "\"str\"", "0", "nul l", "\"\"", "+", "1 2", "\u{e9}"];
    match rng.below(34) {
        // field order permuted
        0 | 1 => {
            let k = 1 + rng.below(n as u64 - 1) as usize;
            f.rotate_left(k);
            if rng.chance(1, 2) {
                f.swap(0, n - 1);
            }
            render_obj(&f)
        }
        // unknown extra field: scalar / nested object / array
        2 | 3 => {
            f.insert(pos, (format!("extra{}", rng.below(3)), rng.pick(&scalars).to_string()));
            render_obj(&f)
        }
        4 => {
            f.insert(pos, ("x".to_string(), "{\"a\":[1,2,{\"b\":null}],\"c\":\"d\",\"amount\":\"9\"}".to_string()));
            render_obj(&f)
        }
        5 => {
            let arr = *rng.pick(&["[1,\"two\",[3],{}]", "[]", "[,1]", "[1,]", "[1 2]", "[,\"a\" \"b\"]", "[[[[]]]]", "[\"a\\\"]\"]", "[1,,2]", "{\"a\":1,}", "{,}", "{\"a\" 1}", "{1:2}"]);
            f.insert(pos, ("x".to_string(), arr.to_string()));
            render_obj(&f)
        }
        // duplicate field
        6 | 7 => {
            let i = rng.below(n as u64) as usize;
            let mut d = f[i].clone();
            if rng.chance(1, 2) {
                d.1 = json_str("other");
            }
            f.insert(pos, d);
            render_obj(&f)
        }
        // missing field
        8 | 9 => {
            f.remove(rng.below(n as u64) as usize);
            render_obj(&f)
        }
        // memo: null
        10 => {
            f.retain(|(k, _)| k != "memo");
            f.insert(pos.min(f.len()), ("memo".to_string(), "null".to_string()));
            render_obj(&f)
        }
        // wrong types
        11 | 12 => {
            let i = rng.below(n as u64) as usize;
            f[i].1 = rng.pick(&["5", "null", "[\"a\"]", "{\"a\":1}", "true", "nul", "\"unterminated"]).to_string();
            render_obj(&f)
        }
        // numeric amount instead of a string
        13 => {
            f[0].1 = amt.to_string();
            render_obj(&f)
        }
        // amount spellings
        14 | 15 | 16 => {
            let a = amt.to_string();
            let v = match rng.below(16) {
                0 => format!("+{a}"),
                1 => format!("00{a}"),
                2 => format!("-{a}"),
                3 => String::new(),
                4 => format!(" {a}"),
                5 => format!("{a} "),
                6 => "340282366920938463463374607431768211455".to_string(),
                7 => "340282366920938463463374607431768211456".to_string(),
                8 => "18446744073709551616".to_string(),
                9 => format!("{a}e0"),
                10 => format!("0x{a}"),
                11 => "\u{661}\u{662}".to_string(),
                12 => "+".to_string(),
                13 => format!("++{a}"),
                14 => format!("+000000000000000000000000000000000000000000000000{a}"),
                _ => format!("{a}.0"),
            };
            f[0].1 = json_str(&v);
            // the digits as escapes: the same string
            if rng.chance(1, 4) {
                f[0].1 = json_str_all_escaped(&v);
            }
            render_obj(&f)
        }
        // truncated text
        17 | 18 => {
            let b = render_obj(&f);
            let cut = rng.below(b.len() as u64) as usize;
            b[..cut].to_vec()
        }
        // trailing garbage / trailing whitespace
        19 | 20 => {
            let mut b = render_obj(&f);
            b.extend_from_slice(rng.pick(&["x", "}", " {}", ",", " \n\t\r ", "\u{0}", "null", "\u{a0}"]).as_bytes());
            b
        }
        // whitespace between all tokens
        21 | 22 => {
            let ws = |rng: &mut Rng| rng.pick(&["", " ", "\n", "\t", "\r", " \r\n\t ", "\u{b}", "\u{c}", "\u{a0}"]).to_string();
            let exotic = rng.chance(1, 6);
            let w = |rng: &mut Rng| {
                let mut x = ws(rng);
                while !exotic && (x == "\u{b}" || x == "\u{c}" || x == "\u{a0}") {
                    x = ws(rng);
                }
                x
            };
            let mut out = w(rng);
            out.push('{');
            for (i, (k, v)) in f.iter().enumerate() {
                if i > 0 {
                    out.push_str(&w(rng));
                    out.push(',');
                }
                out.push_str(&w(rng));
                out.push_str(&json_str(k));
                out.push_str(&w(rng));
                out.push(':');
                out.push_str(&w(rng));
                out.push_str(v);
            }
            out.push_str(&w(rng));
            out.push('}');
            out.push_str(&w(rng));
            out.into_bytes()
        }
        // escape sequences (other spellings of the same strings, and broken ones)
        23 | 24 | 25 => {
            match rng.below(12) {
                0 => f[2].1 = json_str_all_escaped(rcv),
                1 => f[1].1 = json_str_all_escaped(denom),
                2 => f[3].1 = "\"re\\\"mo\\\\te\\n\\u0041\\/\\b\\f\\r\\t\"".to_string(),
                3 => f[3].1 = "\"\\ud83d\\ude00\"".to_string(),
                4 => f[3].1 = "\"\\ud83d\"".to_string(),
                5 => f[3].1 = "\"\\ude00\\ud83d\"".to_string(),
                6 => f[3].1 = rng.pick(&["\"\\x41\"", "\"\\u12\"", "\"\\u123g\"", "\"\\\"", "\"\\ud800\\u0041\\udc00\"", "\"\\ud800\\u0041\"", "\"\\ud800\\n\\udc00\"", "\"\\ud800\\ud800\"", "\"\\uD83D\\uDE00\\u00e9\\u20AC\""]).to_string(),
                // a raw control character: accepted without a backslash in the same string, refused with one
                7 => f[3].1 = "\"raw\ncontrol\u{1}\"".to_string(),
                8 => f[3].1 = "\"raw\ncontrol\\\\\"".to_string(),
                // escapes inside keys
                9 => f[0].0 = "amoun\u{74}".to_string(),
                10 => {
                    let b = render_obj(&f);
                    return String::from_utf8(b).unwrap().replacen("\"amount\"", "\"amoun\\u0074\"", 1).into_bytes();
                }
                _ => {
                    let b = render_obj(&f);
                    return String::from_utf8(b).unwrap().replacen("\"denom\"", "\"\\u0064enom\"", 1).into_bytes();
                }
            }
            render_obj(&f)
        }
        // empty data
        26 => vec![],
        // bytes that are not UTF-8: inside a string, inside a key, inside a skipped scalar, as whitespace
        27 | 28 => {
            let bad: &[u8] = *rng.pick(&[&[0xffu8][..], &[0xc0, 0x80][..], &[0xed, 0xa0, 0x80][..], &[0xf4, 0x90, 0x80, 0x80][..], &[0xe2, 0x82][..], &[0x80][..]]);
            let b = render_obj(&f);
            let text = String::from_utf8(b).unwrap();
            match rng.below(5) {
                0 => {
                    // inside the sender's string
                    let at = text.find("\"sender\":\"").unwrap() + 10;
                    let mut o = text.as_bytes()[..at].to_vec();
                    o.extend_from_slice(bad);
                    o.extend_from_slice(&text.as_bytes()[at..]);
                    o
                }
                1 => {
                    // an unknown field whose scalar value is not UTF-8
                    let mut o = text.as_bytes()[..text.len() - 1].to_vec();
                    o.extend_from_slice(b",\"x\":");
                    o.extend_from_slice(bad);
                    o.push(b'}');
                    o
                }
                2 => {
                    // an unknown field whose string value is not UTF-8
                    let mut o = text.as_bytes()[..text.len() - 1].to_vec();
                    o.extend_from_slice(b",\"x\":\"");
                    o.extend_from_slice(bad);
                    o.extend_from_slice(b"\"}");
                    o
                }
                3 => {
                    // an unknown key that is not UTF-8
                    let mut o = text.as_bytes()[..text.len() - 1].to_vec();
                    o.extend_from_slice(b",\"");
                    o.extend_from_slice(bad);
                    o.extend_from_slice(b"\":1}");
                    o
                }
                _ => {
                    let mut o = bad.to_vec();
                    o.extend_from_slice(text.as_bytes());
                    o
                }
            }
        }
        // not an object at the top
        29 => rng.pick(&["[]", "\"str\"", "null", "123", "{", "}", "{}", " ", "{\"amount\"}", "[{}]"]).as_bytes().to_vec(),
        // nesting up to and beyond the recursion limit inside an unknown field
        30 => {
            let depth = *rng.pick(&[1usize, 2, 125, 126, 127, 128, 200]);
            let (o, c) = if rng.chance(1, 2) { ("[", "]") } else { ("{\"a\":", "}") };
            f.insert(pos, ("deep".to_string(), format!("{}1{}", o.repeat(depth), c.repeat(depth))));
            render_obj(&f)
        }
        // punctuation
        31 | 32 => {
            let text = String::from_utf8(render_obj(&f)).unwrap();
            match rng.below(8) {
                0 => text.replacen('{', "{,", 1),
                1 => text.replacen(',', ",,", 1),
                2 => text.replacen('}', ",}", 1),
                3 => text.replacen(':', " ", 1),
                4 => text.replacen(':', "=", 1),
                5 => text.replace('"', "'"),
                6 => text.replacen(',', " ", 1),
                _ => text.replacen(':', "::", 1),
            }
            .into_bytes()
        }
        // a known key whose value is followed by junk up to the next delimiter
        _ => {
            let i = rng.below(n as u64) as usize;
            f[i].1 = format!("{} junk", f[i].1);
            render_obj(&f)
        }
    }
}

/// Acknowledgement bytes for `ibc ack … ackdata=`: `(class as the op line's comment, bytes)`
fn gen_ack_bytes(rng: &mut Rng) -> (&'static str, Vec<u8>) {
    let s: (&'static str, String) = match rng.below(28) {
        0 | 1 => ("1", "{\"result\":\"AQ==\"}".to_string()),
        2 => ("1", "{\"result\":\"MQ==\"}".to_string()),
        3 => ("1", " { \"result\" : \"AQ\" } ".to_string()),
        4 => ("1", "{\"result\":\"\"}".to_string()),
        5 => ("1", "{\"result\":\"AQ=\"}".to_string()),
        6 => ("raw", "{\"result\":\"AR==\"}".to_string()),
        7 => ("raw", "{\"result\":\"A\"}".to_string()),
        8 => ("raw", "{\"result\":\"A=Q=\"}".to_string()),
        9 => ("raw", "{\"result\":\"AQ===\"}".to_string()),
        10 => ("raw", "{\"result\":\"!!!!\"}".to_string()),
        11 => ("1", "{\"result\":\"QUJD\"}".to_string()),
        12 => ("1", "{\"result\":\"QUJDRA\"}".to_string()),
        13 => ("raw", "{\"result\":\"QUJDR\"}".to_string()),
        14 => ("raw", "{\"result\":\"QUJDRB==\"}".to_string()),
        15 | 16 => ("0", format!("{{\"error\":{}}}", json_str(*rng.pick(&WIRE_TEXTS)))),
        17 => ("0", "{\"error\":\"\"}".to_string()),
        18 => ("raw", "{\"error\":\"x\",\"result\":\"AQ==\"}".to_string()),
        19 => ("raw", "{\"error\":\"x\"} x".to_string()),
        20 => ("raw", "{\"other\":\"x\"}".to_string()),
        21 => ("raw", "\"result\"".to_string()),
        22 => ("raw", "{\"error\":5}".to_string()),
        23 => ("raw", "{\"Error\":\"x\"}".to_string()),
        24 => ("raw", String::new()),
        25 => ("raw", "{\"error\":\"x\",}".to_string()),
        26 => ("0", "\n{\"\\u0065rror\"\t:\r\"\\u0078\"}\n".to_string()),
        _ => ("raw", "{\"result\":null}".to_string()),
    };
    (s.0, s.1.into_bytes())
}

pub struct Ics20Scen {
    app: IcsApp,
    pool: Vec<Addr>,
    tokens: Vec<Addr>,
    reserve: Addr,
    code_real: u64,
    code_legacy: u64,
    contract: Option<Addr>,
    flights: Vec<Flight>,
    legacy: bool,
    /// generator: the trace started from a legacy state and was migrated once (a later, second migrate must not
    /// reconcile balances again)
    migrated: bool,
    seed: u64,
    /// native denom of the form `xcw20:<token0>`
    xdenom: String,
    header_denoms: Option<Vec<String>>,
    /// generator (wide): this trace fills one channel with the wide coins
    fill: bool,
    /// the channel ids of the trace header (observations cover exactly these)
    header_chans: Vec<String>,
    /// `ics20wide`: further addresses for the allow list (C20)
    extra: Vec<Addr>,
    wide: bool,
}

fn build_app() -> IcsApp {
    AppBuilder::new().with_bank(FaultyBank(BankKeeper::new())).with_ibc(RecordingIbc).build(|_, _, _| {})
}

impl Ics20Scen {
    pub fn new() -> Self {
        let mut s = Ics20Scen {
            app: build_app(),
            pool: vec![],
            tokens: vec![],
            reserve: Addr::unchecked("reserve"),
            code_real: 0,
            code_legacy: 0,
            contract: None,
            flights: vec![],
            legacy: false,
            migrated: false,
            seed: 0,
            xdenom: String::new(),
            header_denoms: None,
            fill: false,
            header_chans: vec![],
            extra: vec![],
            wide: false,
        };
        s.setup();
        s
    }

    pub fn new_wide() -> Self {
        let mut s = Self::new();
        s.wide = true;
        s
    }

    /// Fresh chain: actors with native funds, two cw20 tokens (the second one faulty), code uploaded.
    fn setup(&mut self) {
        FAULT.with(|f| f.set(false));
        SENT.with(|s| s.borrow_mut().clear());
        SUBLOG.with(|s| s.borrow_mut().clear());
        SUBRAW.with(|s| s.borrow_mut().clear());
        let mut app = build_app();
        let api = MockApi::default();
        let pool: Vec<Addr> = (0..4).map(|i| api.addr_make(&format!("actor{i}"))).collect();
        let reserve = api.addr_make("reserve");
        for a in pool.iter().chain(std::iter::once(&reserve)) {
            let amount: Vec<Coin> = DENOMS.iter().map(|d| coin(if *a == reserve { FUND * 16 } else { FUND }, *d)).collect();
            app.sudo(SudoMsg::Bank(BankSudo::Mint { to_address: a.to_string(), amount })).unwrap();
        }
        let good = app.store_code(Box::new(ContractWrapper::new(
            cw20_base::contract::execute,
            cw20_base::contract::instantiate,
            cw20_base::contract::query,
        )));
        let faulty = app.store_code(Box::new(ContractWrapper::new(
            faulty_cw20_execute,
            cw20_base::contract::instantiate,
            cw20_base::contract::query,
        )));
        let code_real = app.store_code(Box::new(
            ContractWrapper::new(execute, instantiate, query).with_reply(reply).with_migrate(migrate).with_sudo(adapter),
        ));
        let code_legacy = app.store_code(Box::new(
            ContractWrapper::new(execute, legacy_instantiate, query).with_reply(reply).with_migrate(migrate).with_sudo(adapter),
        ));
        let mut tokens = vec![];
        for (i, code) in [good, faulty].iter().enumerate() {
            let mut initial: Vec<Cw20Coin> =
                pool.iter().map(|a| Cw20Coin { address: a.to_string(), amount: Uint128::new(FUND) }).collect();
            initial.push(Cw20Coin { address: reserve.to_string(), amount: Uint128::new(FUND * 16) });
            let t = app
                .instantiate_contract(
                    *code,
                    reserve.clone(),
                    &cw20_base::msg::InstantiateMsg {
                        name: format!("Token{i}"),
                        symbol: "TOK".to_string(),
                        decimals: 6,
                        initial_balances: initial,
                        mint: None,
                        marketing: None,
                    },
                    &[],
                    format!("token{i}"),
                    None,
                )
                .unwrap();
            tokens.push(t);
        }
        // a third native denom that merely CONTAINS `cw20:<token>` (legal for a bank denom): it must stay native
        self.xdenom = format!("xcw20:{}", tokens[0]);
        for a in pool.iter().chain(std::iter::once(&reserve)) {
            let amount = vec![coin(if *a == reserve { FUND * 16 } else { FUND }, self.xdenom.clone())];
            app.sudo(SudoMsg::Bank(BankSudo::Mint { to_address: a.to_string(), amount })).unwrap();
        }
        // wide: 32 further native coins, so that one channel can come to hold more than 30 denominations (the
        // `Channel {id}` query lists a channel's balances without paging)
        if self.wide {
            for a in pool.iter().chain(std::iter::once(&reserve)) {
                let amount: Vec<Coin> = wide_denoms().iter().map(|d| coin(if *a == reserve { FUND * 16 } else { FUND }, d.clone())).collect();
                app.sudo(SudoMsg::Bank(BankSudo::Mint { to_address: a.to_string(), amount })).unwrap();
            }
        }
        self.app = app;
        self.pool = pool;
        self.tokens = tokens;
        self.reserve = reserve;
        self.code_real = code_real;
        self.code_legacy = code_legacy;
        self.contract = None;
        self.flights.clear();
        self.legacy = false;
        self.migrated = false;
    }

    fn api(&self) -> MockApi {
        MockApi::default()
    }

    fn q<T: DeserializeOwned>(&self, msg: &QueryMsg) -> Option<T> {
        let c = self.contract.clone()?;
        catch(|| self.app.wrap().query_wasm_smart::<T>(c, msg)).and_then(|r| r.ok())
    }

    fn bank_bal(&self, a: &Addr, d: &str) -> u128 {
        self.app.wrap().query_balance(a.to_string(), d).map(|c| c.amount.u128()).unwrap_or(0)
    }

    fn tok_bal(&self, t: &Addr, a: &Addr) -> u128 {
        self.app
            .wrap()
            .query_wasm_smart::<BalanceResponse>(t.clone(), &Cw20QueryMsg::Balance { address: a.to_string() })
            .map(|b| b.balance.u128())
            .unwrap_or(0)
    }

    /// (denom, outstanding, total_sent) of a channel, `None` if the query fails
    fn channel(&self, id: &str) -> Option<Vec<(String, u128, u128)>> {
        let r: ChannelResponse = self.q(&QueryMsg::Channel { id: id.to_string() })?;
        let part = |a: &Amount| (a.denom(), a.amount().u128());
        if r.balances.len() != r.total_sent.len() {
            return Some(vec![("?mismatch".to_string(), 0, 0)]);
        }
        Some(
            r.balances
                .iter()
                .zip(r.total_sent.iter())
                .map(|(b, t)| {
                    let (d, o) = part(b);
                    let (d2, tt) = part(t);
                    (if d == d2 { d } else { format!("?{d}!={d2}") }, o, tt)
                })
                .collect(),
        )
    }

    fn denoms(&self) -> Vec<String> {
        // a replayed trace names its denoms in the header
        if let Some(ds) = &self.header_denoms {
            return ds.clone();
        }
        let mut v: Vec<String> = DENOMS.iter().map(|d| d.to_string()).collect();
        v.push(self.xdenom.clone());
        if self.wide {
            v.extend(wide_denoms());
        }
        v
    }

    fn all_denoms(&self) -> Vec<String> {
        let mut v: Vec<String> = self.denoms();
        for t in &self.tokens {
            v.push(format!("cw20:{t}"));
        }
        v
    }

    fn holdings(&self, denom: &str) -> u128 {
        let c = match &self.contract {
            Some(c) => c.clone(),
            None => return 0,
        };
        match denom.strip_prefix("cw20:") {
            Some(t) => self.tok_bal(&Addr::unchecked(t), &c),
            None => self.bank_bal(&c, denom),
        }
    }

    fn observe(&self, salt: &str) -> String {
        if self.contract.is_none() {
            return "obs uninit=1".to_string();
        }
        let mut rng = Rng::new(hash_str(salt) ^ self.seed);
        let cfg: Option<ConfigResponse> = self.q(&QueryMsg::Config {});
        let (cfgs, gov) = match cfg {
            Some(c) => (
                format!("{}/{}", c.default_timeout, opt_str(&c.default_gas_limit)),
                if c.gov_contract.is_empty() { "-".to_string() } else { c.gov_contract },
            ),
            None => ("?".to_string(), "?".to_string()),
        };
        let admin: Option<cw_controllers::AdminResponse> = self.q(&QueryMsg::Admin {});
        let admin = match admin {
            Some(a) => a.admin.unwrap_or("-".to_string()),
            None => "?".to_string(),
        };
        // allow list by paging with a varying limit
        let limit = match rng.below(5) {
            0 => None,
            1 => Some(1),
            2 => Some(2),
            3 => Some(30),
            _ => Some(3),
        };
        let mut allow: Vec<String> = vec![];
        let mut cursor: Option<String> = None;
        for _ in 0..1000 {
            let r: Option<ListAllowedResponse> = self.q(&QueryMsg::ListAllowed { start_after: cursor.clone(), limit });
            match r {
                Some(p) if !p.allow.is_empty() => {
                    let next = Some(p.allow.last().unwrap().contract.clone());
                    for a in p.allow {
                        allow.push(format!("{}|{}", a.contract, opt_str(&a.gas_limit)));
                    }
                    if next == cursor {
                        break; // no progress (a defect in the code under test): do not walk forever
                    }
                    cursor = next;
                }
                _ => break,
            }
        }
        // C20 self-check of the listing (items rendered `contract:gas`, the cursor is the contract address)
        let pagediff = paging_audit("list_allowed", &|c, l| {
            self.q::<ListAllowedResponse>(&QueryMsg::ListAllowed { start_after: c, limit: l })
                .map(|r| r.allow.iter().map(|a| format!("{}:{}", a.contract, opt_str(&a.gas_limit))).collect())
        })
        .unwrap_or_default();
        let mut pallow = vec![];
        for a in self.tokens.iter().chain(self.pool.iter()).chain(self.extra.iter()) {
            let r: Option<AllowedResponse> = self.q(&QueryMsg::Allowed { contract: a.to_string() });
            pallow.push(match r {
                Some(r) => format!("{}|{}|{}", a, if r.is_allowed { 1 } else { 0 }, opt_str(&r.gas_limit)),
                None => format!("{a}|?"),
            });
        }
        let channels = match self.q::<ListChannelsResponse>(&QueryMsg::ListChannels {}) {
            Some(l) => l.channels.iter().map(render_chan_info).collect::<Vec<_>>().join(","),
            None => "?".to_string(),
        };
        let mut out = format!(
            "obs pagediff={} cfg={} gov={} admin={} allow={} pallow={} channels={}",
            pagediff,
            cfgs,
            gov,
            admin,
            allow.join(","),
            pallow.join(","),
            channels
        );
        for ch in &self.header_chans {
            let v = match self.channel(ch) {
                None => "-".to_string(),
                Some(es) => es.iter().map(|(d, o, t)| format!("{d}|{o}|{t}")).collect::<Vec<_>>().join(","),
            };
            out.push_str(&format!(" ch.{ch}={v}"));
        }
        let hold: Vec<String> = self.all_denoms().iter().map(|d| format!("{}|{}", d, self.holdings(d))).collect();
        out.push_str(&format!(" hold={}", hold.join(",")));
        let mut bal = vec![];
        for a in &self.pool {
            let mut parts = vec![a.to_string()];
            for d in self.denoms() {
                parts.push(self.bank_bal(a, &d).to_string());
            }
            for t in &self.tokens {
                parts.push(self.tok_bal(t, a).to_string());
            }
            bal.push(parts.join("|"));
        }
        out.push_str(&format!(" bal={}", bal.join(",")));
        // the cw2 item (raw read; `migrate` reads and writes it): with it the observation shows everything the
        // contract's later behaviour depends on (model resynchronisation)
        let cw2 = match self.contract.clone().map(|c| cw2::query_contract_info(&self.app.wrap(), c)) {
            Some(Ok(v)) => format!("{}@{}", v.contract, v.version),
            _ => "-".to_string(),
        };
        out.push_str(&format!(" cw2={cw2}"));
        out
    }

    /// Run one transaction; returns the outcome line.
    fn tx(&mut self, fault: bool, f: impl FnOnce(&mut IcsApp) -> AnyResult<AppResponse>) -> String {
        SENT.with(|s| s.borrow_mut().clear());
        SUBLOG.with(|s| s.borrow_mut().clear());
        SUBRAW.with(|s| s.borrow_mut().clear());
        FAULT.with(|x| x.set(fault));
        let app = &mut self.app;
        let r = catch(move || f(app));
        FAULT.with(|x| x.set(false));
        match r {
            Some(Ok(res)) => {
                let ack = match &res.data {
                    None => "-".to_string(),
                    Some(d) => match from_json::<Ics20Ack>(d) {
                        Ok(Ics20Ack::Result(_)) => "success".to_string(),
                        Ok(Ics20Ack::Error(_)) => "error".to_string(),
                        Err(_) => "-".to_string(),
                    },
                };
                let sent: Vec<String> = SENT.with(|s| {
                    s.borrow()
                        .iter()
                        .map(|(ch, data, to)| match from_json::<Ics20Packet>(data) {
                            Ok(p) => format!(
                                "{}/{}/{}/{}/{}/{}/{}",
                                ch,
                                slash_enc(&p.denom),
                                p.amount,
                                p.sender,
                                text_enc(&p.receiver),
                                opt_text_enc(&p.memo),
                                opt_str(to)
                            ),
                            Err(_) => "packet?".to_string(),
                        })
                        .collect()
                });
                let sub: Vec<String> = SUBLOG.with(|s| s.borrow().clone());
                // the wire: the bytes of every emitted packet and of the acknowledgement
                let pkt: Vec<String> = SENT.with(|s| s.borrow().iter().map(|(_, data, _)| hex(data.as_slice())).collect());
                let ackraw = match &res.data {
                    None => "-".to_string(),
                    Some(d) => hex(d.as_slice()),
                };
                let subraw: Vec<String> = SUBRAW.with(|s| s.borrow().clone());
                format!(
                    "> ok ack={} sent={} sub={} pkt={} ackraw={} subraw={}",
                    ack,
                    if sent.is_empty() { "-".to_string() } else { sent.join(";") },
                    if sub.is_empty() { "-".to_string() } else { sub.join(";") },
                    if pkt.is_empty() { "-".to_string() } else { pkt.join(";") },
                    ackraw,
                    if subraw.is_empty() { "-".to_string() } else { subraw.join("+") }
                )
            }
            Some(Err(_)) => "> err".to_string(),
            None => "> err panic=1".to_string(),
        }
    }

    fn mark(&self, s: &str) -> String {
        mark(&self.api(), s)
    }

    fn gen_addr(&self, rng: &mut Rng) -> String {
        if rng.chance(1, 12) {
            format!("-{INVALID_ADDR}")
        } else {
            format!("+{}", rng.pick(&self.pool))
        }
    }

    fn gen_gas(&self, rng: &mut Rng) -> String {
        match rng.below(6) {
            0 | 1 => "-".to_string(),
            2 => "0".to_string(),
            3 => (100_000 + rng.below(4) * 100_000).to_string(),
            4 => u64::MAX.to_string(),
            _ => (1 + rng.below(1_000_000)).to_string(),
        }
    }

    fn gen_allowlist(&self, rng: &mut Rng, strict: bool) -> String {
        let mut v = vec![];
        for t in &self.tokens {
            if rng.chance(2, 3) {
                v.push(format!("+{}|{}", t, self.gen_gas(rng)));
            }
        }
        if self.wide {
            // wide: a share (0, 1/4, …, all) of the extra addresses
            let share = rng.below(5);
            for x in &self.extra {
                if rng.below(4) < share {
                    v.push(format!("+{}|{}", x, self.gen_gas(rng)));
                }
            }
        }
        if !strict && rng.chance(1, 8) {
            v.push(format!("{}|{}", self.gen_addr(rng), self.gen_gas(rng)));
        }
        if !strict && rng.chance(1, 8) {
            // duplicate entry: later wins
            v.push(format!("+{}|{}", self.tokens[0], self.gen_gas(rng)));
        }
        v.join(",")
    }

    fn gen_inst(&self, rng: &mut Rng) -> String {
        if rng.chance(1, 5) {
            // legacy layouts: v1 (<= 0.12.0-alpha1), v2 (<= 0.13.0) and current-format ones
            let (ver, v1) = match rng.below(9) {
                0 | 1 => ("0.11.1", true),
                2 => ("0.12.0-alpha1", true),
                3 => ("0.11.0", true),
                4 => ("0.12.0", false),
                5 => ("0.13.0", false),
                6 => ("0.13.4", false),
                7 => ("2.0.0", false),
                _ => ("2.0.1", false),
            };
            let name = if rng.chance(1, 12) { "crates.io:other" } else { "crates.io:cw20-ics20" };
            let nch = match rng.below(6) {
                0 => 0,
                1 => 2,
                _ => 1,
            };
            let chans: Vec<&str> = CHANS.iter().take(nch).cloned().collect();
            let mut state = vec![];
            let mut hold = vec![];
            let denoms = self.all_denoms();
            for ch in &chans {
                for d in &denoms {
                    if rng.chance(1, 2) {
                        let out = 1 + rng.below(5000) as u128;
                        let total = out + rng.below(3000) as u128;
                        state.push(format!("{ch}|{d}|{out}|{total}"));
                        // in-flight tokens of the old bookkeeping: real balance >= outstanding (rarely below)
                        let h = match rng.below(8) {
                            0 => out.saturating_sub(1 + rng.below(3) as u128),
                            1 | 2 => out + 1 + rng.below(500) as u128,
                            _ => out,
                        };
                        // several channels share the contract's holdings
                        let mut found = false;
                        for e in hold.iter_mut() {
                            let e: &mut (String, u128) = e;
                            if e.0 == *d {
                                e.1 += h;
                                found = true;
                            }
                        }
                        if !found {
                            hold.push((d.clone(), h));
                        }
                    }
                }
            }
            let gas = if v1 { "-".to_string() } else { self.gen_gas(rng) };
            let allow = if v1 { String::new() } else { self.gen_allowlist(rng, true) };
            return format!(
                "inst_legacy name={} ver={} fmt={} timeout={} gov=+{} gas={} allow={} chans={} state={} hold={}",
                name,
                ver,
                if v1 { "v1" } else { "v2" },
                1 + rng.below(5000),
                rng.pick(&self.pool),
                gas,
                allow,
                chans.join(","),
                state.join(","),
                hold.iter().map(|(d, h)| format!("{d}|{h}")).collect::<Vec<_>>().join(",")
            );
        }
        let timeout = match rng.below(40) {
            0 => 0,
            1 => u64::MAX,
            2 => 18_446_744_073,
            3 => 18_446_744_073 - 1_571_797_420,
            _ => 1 + rng.below(100_000),
        };
        format!("inst gov={} timeout={} gas={} allow={}", self.gen_addr(rng), timeout, self.gen_gas(rng), self.gen_allowlist(rng, false))
    }

    fn connected(&self) -> Vec<String> {
        CHANS.iter().filter(|c| self.channel(c).is_some()).map(|c| c.to_string()).collect()
    }

    fn amount_near(&self, rng: &mut Rng, base: u128) -> u128 {
        match rng.below(12) {
            0 => 0,
            1 => 1,
            2 => base.saturating_sub(1),
            3 | 4 => base,
            5 => base.saturating_add(1),
            6 => base / 2,
            7 => *rng.pick(&[U64MAX, U64MAX + 1, U64MAX - 1]),
            _ => 1 + rng.below(5000) as u128,
        }
    }

    fn gen_transfer_msg(&self, rng: &mut Rng) -> String {
        let conn = self.connected();
        let chan = if conn.is_empty() || rng.chance(1, 15) { rng.pick(&CHANS).to_string() } else { rng.pick(&conn).clone() };
        let now_s = self.app.block_info().time.nanos() / 1_000_000_000;
        let timeout = match rng.below(30) {
            0 => "0".to_string(),
            1 => u64::MAX.to_string(),
            2 => "18446744073".to_string(),
            3 => (18_446_744_073 - now_s).to_string(),
            4 => (18_446_744_073 - now_s - 1).to_string(),
            5..=10 => (1 + rng.below(10_000)).to_string(),
            _ => "-".to_string(),
        };
        let memo = match rng.below(16) {
            0..=2 => format!("m{}", rng.below(5)),
            3 | 4 => text_enc(*rng.pick(&WIRE_TEXTS)),
            _ => "-".to_string(),
        };
        // (an empty remote address is refused by the runtime — empty attribute value —, not by the contract)
        let to = match rng.below(10) {
            0 => text_enc(*rng.pick(&WIRE_TEXTS)),
            _ => format!("remote{}", rng.below(3)),
        };
        let to = if to == "empty" { "remote0".to_string() } else { to };
        format!("chan={} to={} timeout={} memo={}", chan, to, timeout, memo)
    }

    fn gen_recv(&self, rng: &mut Rng) -> String {
        let conn = self.connected();
        let dest = if conn.is_empty() || rng.chance(1, 12) { rng.pick(&CHANS).to_string() } else { rng.pick(&conn).clone() };
        let cp = counterparty(&dest);
        if rng.chance(1, 20) {
            return format!("ibc recv chan={} sport={} schan={} raw=1 rcv={} tv=1 fail=0", dest, REMOTE_PORT, cp, self.gen_addr(rng));
        }
        // candidates: what is outstanding (mostly on a channel that has something to redeem)
        let mut cands: Vec<(String, String, u128)> = vec![];
        for c in &conn {
            for e in self.channel(c).unwrap_or_default() {
                if e.1 > 0 {
                    cands.push((c.clone(), e.0, e.1));
                }
            }
        }
        // the wire: a mutated encoding is mostly sent for a packet that would be paid out if it decodes, so that
        // the acknowledgement class shows what the decoder made of it
        let wire_mut = rng.chance(24, 100);
        let good = wire_mut && !cands.is_empty() && rng.chance(5, 6);
        let (dest, local, out) = if good || (!cands.is_empty() && rng.chance(9, 10)) {
            rng.pick(&cands).clone()
        } else {
            let state = self.channel(&dest).unwrap_or_default();
            if !state.is_empty() && rng.chance(1, 2) {
                let e = rng.pick(&state);
                (dest, e.0.clone(), e.1)
            } else {
                (dest, rng.pick(&self.all_denoms()).clone(), 0)
            }
        };
        let cp = counterparty(&dest);
        let local = match if good { 99 } else { rng.below(30) } {
            0 => "uforeign".to_string(),
            1 => format!("cw20:{}", self.pool[0]),
            2 => "cw20:NotAnAddress".to_string(),
            _ => local,
        };
        let denom = match if good { 99 } else { rng.below(24) } {
            0 => local.clone(),                                    // no prefix at all
            1 => format!("{}/{}", cp, local),                      // only one separator (unless the denom has one)
            2 => format!("otherport/{}/{}", cp, local),            // other port
            3 => format!("{}/channel-99/{}", REMOTE_PORT, local),  // other channel
            4 => format!("{}/{}/{}", REMOTE_PORT, counterparty(*rng.pick(&CHANS[..])), local),
            _ => format!("{}/{}/{}", REMOTE_PORT, cp, local),
        };
        let amt = match if good { 7 + rng.below(3) } else { rng.below(16) } {
            0 => out.saturating_add(1),
            1 | 2 | 3 => out,
            4 => 0,
            5 => out.saturating_add(1 + rng.below(1000) as u128),
            6 => out.saturating_sub(1),
            _ => {
                if out > 0 {
                    1 + (rng.u128() % out)
                } else {
                    1 + rng.below(100) as u128
                }
            }
        };
        let tv = match local.strip_prefix("cw20:") {
            Some(a) => self.api().addr_validate(a).is_ok(),
            None => true,
        };
        let fail = !good && rng.chance(1, 5);
        let rcv = if good { format!("+{}", rng.pick(&self.pool)) } else { self.gen_addr(rng) };
        let snd = format!("remote{}", rng.below(3));
        // the wire: the exact bytes of the packet data — mostly the canonical JSON of the fields, often mutated
        let data = match if wire_mut { 50 } else { rng.below(100) } {
            // old-style line: the harness serialises the printed fields itself
            0..=9 => String::new(),
            _ => {
                let memo = match rng.below(6) {
                    0 => Some(format!("m{}", rng.below(5))),
                    1 => Some(rng.pick(&WIRE_TEXTS).to_string()),
                    _ => None,
                };
                let snd_text = if rng.chance(1, 8) { rng.pick(&WIRE_TEXTS).to_string() } else { snd.clone() };
                let canon = to_json_binary(&Ics20Packet {
                    amount: Uint128::new(amt),
                    denom: denom.clone(),
                    receiver: addr_text(&rcv),
                    sender: snd_text.clone(),
                    memo: memo.clone(),
                })
                .unwrap()
                .to_vec();
                let bytes = if wire_mut { mutate_packet_json(rng, amt, &denom, &addr_text(&rcv), &snd_text, memo.as_deref()) } else { canon };
                format!(" data={}", if bytes.is_empty() { "-".to_string() } else { hex(&bytes) })
            }
        };
        format!(
            "ibc recv chan={} sport={} schan={} denom={} amt={} rcv={} snd={} tv={} fail={}{}",
            dest, REMOTE_PORT, cp, denom, amt, rcv, snd, tv as u8, fail as u8, data
        )
    }

    fn flight_args(&self, f: &Flight) -> String {
        let tv = match f.denom.strip_prefix("cw20:") {
            Some(a) => self.api().addr_validate(a).is_ok(),
            None => true,
        };
        format!(
            "chan={} denom={} amt={} snd={} rcv={} memo={} tv={}",
            f.chan,
            f.denom,
            f.amt,
            self.mark(&f.snd),
            f.rcv,
            f.memo.clone().unwrap_or("-".to_string()),
            tv as u8
        )
    }

    fn packet_of(&self, a: &Args) -> (String, Ics20Packet) {
        let p = Ics20Packet {
            amount: Uint128::new(a.u128("amt")),
            denom: a.str("denom"),
            receiver: text_dec(&a.str("rcv")),
            sender: addr_text(&a.str("snd")),
            memo: a.opt("memo").map(|m| text_dec(&m)),
        };
        (a.str("chan"), p)
    }

    fn transfer_msg_of(a: &Args) -> TransferMsg {
        TransferMsg {
            channel: a.str("chan"),
            remote_address: text_dec(&a.str("to")),
            timeout: a.opt_u64("timeout"),
            memo: a.opt("memo").map(|m| text_dec(&m)),
        }
    }

    fn parse_allow(s: &str) -> Vec<AllowMsg> {
        if s.is_empty() {
            return vec![];
        }
        s.split(',')
            .map(|e| {
                let (a, g) = e.split_once('|').unwrap_or((e, "-"));
                AllowMsg { contract: addr_text(a), gas_limit: g.parse().ok() }
            })
            .collect()
    }

    fn after_tx(&mut self, outcome: &str) {
        // successful transfers put their packets in flight
        if let Some(rest) = outcome.strip_prefix("> ok ") {
            let a = Args::parse(rest);
            if let Some(sent) = a.opt("sent") {
                for p in sent.split(';') {
                    let f: Vec<&str> = p.split('/').collect();
                    if f.len() == 7 {
                        self.flights.push(Flight {
                            chan: f[0].to_string(),
                            denom: f[1].replace('~', "/"),
                            amt: f[2].parse().unwrap_or(0),
                            snd: f[3].to_string(),
                            rcv: f[4].to_string(),
                            memo: if f[5] == "-" { None } else { Some(f[5].to_string()) },
                        });
                    }
                }
            }
        }
    }
}

/// `ics20wide`: the 32 further native coins `utok00` … `utok31`
fn wide_denoms() -> Vec<String> {
    (0..32).map(|i| format!("utok{i:02}")).collect()
}

impl Scenario for Ics20Scen {
    fn start(&mut self, seed: u64, trace: u64) -> String {
        self.header_denoms = None;
        self.header_chans = CHANS.iter().map(|c| c.to_string()).collect();
        self.setup();
        let api = MockApi::default();
        self.extra = if self.wide { (0..36).map(|i| api.addr_make(&format!("xtok{i}"))).collect() } else { vec![] };
        let header = format!(
            "scenario {} seed={} trace={} pool={} tokens={} faulty={} denoms={} chans={} fund={}",
            if self.wide {
                format!("ics20wide extra={}", self.extra.iter().map(|a| a.to_string()).collect::<Vec<_>>().join(","))
            } else {
                "ics20".to_string()
            },
            seed,
            trace,
            self.pool.iter().map(|a| a.to_string()).collect::<Vec<_>>().join(","),
            self.tokens.iter().map(|a| a.to_string()).collect::<Vec<_>>().join(","),
            self.tokens[1],
            self.denoms().join(","),
            CHANS.join(","),
            FUND
        );
        self.seed = seed;
        self.fill = trace % 3 != 1;
        header
    }

    fn reset(&mut self, header: &str) {
        let a = Args::parse(header);
        self.extra = a.list("extra").into_iter().map(Addr::unchecked).collect();
        self.wide = !self.extra.is_empty();
        self.setup();
        self.seed = a.u64("seed");
        let ds = a.list("denoms");
        self.header_denoms = if ds.is_empty() { None } else { Some(ds) };
        let cs = a.list("chans");
        self.header_chans = if cs.is_empty() { CHANS.iter().map(|c| c.to_string()).collect() } else { cs };
        self.extra = a.list("extra").into_iter().map(Addr::unchecked).collect();
        self.wide = !self.extra.is_empty();
    }

    fn gen_op(&mut self, rng: &mut Rng, _step: usize) -> String {
        if self.contract.is_none() {
            return self.gen_inst(rng);
        }
        let conn = self.connected();
        // what could be redeemed right now
        let mut redeemable = 0usize;
        for c in &conn {
            redeemable += self.channel(c).unwrap_or_default().iter().filter(|e| e.1 > 0).count();
        }
        if self.migrated && rng.chance(1, 20) {
            // a second migrate of an already migrated contract (e.g. to set the default gas limit)
            let gas = if rng.chance(1, 2) { "-".to_string() } else { self.gen_gas(rng) };
            return format!("migrate gas={gas}");
        }
        if self.legacy && rng.chance(1, 4) {
            self.legacy = false;
            self.migrated = true;
            let gas = if rng.chance(1, 2) { "-".to_string() } else { self.gen_gas(rng) };
            return format!("migrate gas={gas}");
        }
        if self.wide && self.fill && !conn.is_empty() && rng.chance(3, 4) {
            // fill story (two traces of three): one unit of each wide coin over the first connected channel, one after the other
            let chan = conn[0].clone();
            let have: Vec<String> = self.channel(&chan).unwrap_or_default().iter().map(|e| e.0.clone()).collect();
            if let Some(d) = wide_denoms().into_iter().find(|d| !have.contains(d)) {
                let snd = self.pool[0].clone();
                return format!("exec {snd} transfer funds={}|{d} chan={chan} to=remote0 timeout=- memo=-", 1 + rng.below(3));
            }
        }
        if self.wide && rng.chance(6, 10) {
            let listed: Vec<String> = {
                let mut v = vec![];
                let mut cursor: Option<String> = None;
                for _ in 0..100 {
                    match self.q::<ListAllowedResponse>(&QueryMsg::ListAllowed { start_after: cursor.clone(), limit: Some(30) }) {
                        Some(p) if !p.allow.is_empty() => {
                            let next = Some(p.allow.last().unwrap().contract.clone());
                            v.extend(p.allow.into_iter().map(|a| a.contract));
                            if next == cursor {
                                break;
                            }
                            cursor = next;
                        }
                        _ => break,
                    }
                }
                v
            };
            if rng.chance(2, 5) {
                let lim = *rng.pick(&["-", "0", "1", "9", "10", "11", "29", "30", "31", "32", "100"]);
                let after = match rng.below(8) {
                    0 | 1 => "-".to_string(),
                    2 => format!("+{}", rng.pick(&self.extra)),
                    3 => "-cosmwasm1m".to_string(),
                    4 => self.gen_addr(rng),
                    _ if !listed.is_empty() => format!("+{}", rng.pick(&listed)),
                    _ => "-".to_string(),
                };
                return format!("query list_allowed after={after} limit={lim}");
            }
            let admin: Option<cw_controllers::AdminResponse> = self.q(&QueryMsg::Admin {});
            if let Some(snd) = admin.and_then(|a| a.admin) {
                let fresh: Vec<&Addr> = self.extra.iter().filter(|x| !listed.contains(&x.to_string())).collect();
                let c = if !fresh.is_empty() && rng.chance(5, 6) { (*rng.pick(&fresh)).clone() } else { rng.pick(&self.extra).clone() };
                return format!("exec {snd} allow contract=+{c} gas={}", self.gen_gas(rng));
            }
        }
        let r = rng.below(100);
        if r < 4 {
            let b = self.app.block_info();
            let dh = *rng.pick(&[0u64, 1, 1, 2, 5]);
            let dt = *rng.pick(&[0u64, 1, 5_000_000_000, 20_000_000_000]);
            return format!("env height={} time={}", b.height + dh, b.time.nanos() + dt);
        }
        if r < 10 || (conn.len() < 2 && !self.legacy && r < 45) {
            let chan = rng.pick(&CHANS);
            let (ver, cver, order) = match rng.below(12) {
                0 => ("ics20-2", "ics20-1", "unordered"),
                1 => ("ics20-1", "ics20-2", "unordered"),
                2 => ("ics20-1", "ics20-1", "ordered"),
                3 => ("ics20-1", "-", "unordered"),
                _ => ("ics20-1", "ics20-1", "unordered"),
            };
            // the other side: mostly the default endpoint, sometimes another port / channel / connection
            // (a reconnect of a known channel overwrites the stored info)
            let peer = match rng.below(6) {
                0 => format!(" cport=otherport cchan=channel-{} conn=connection-{}", 40 + rng.below(3), rng.below(3)),
                1 => format!(" conn=connection-{}", 1 + rng.below(2)),
                _ => String::new(),
            };
            return match rng.below(8) {
                // handshake probes that never write: channel open (try / init) and close (init / confirm)
                0 | 1 => format!("ibc open chan={chan} ver={ver} cver={cver} order={order}{peer}"),
                2 => format!("ibc close chan={chan} ver=ics20-1 order=unordered init={}", rng.below(2)),
                _ => format!("ibc connect chan={chan} ver={ver} cver={cver} order={order}{peer}"),
            };
        }
        if r < 14 {
            return match rng.below(6) {
                0 => format!("query port env={}", *rng.pick(&["-", "wasm.ics20", "wasm.cosmwasm1contract", "transfer"])),
                1 => "query list_channels".to_string(),
                2 => format!("query channel id={}", *rng.pick(&["channel-0", "channel-1", "channel-2", "channel-10", "channel-9"])),
                3 => "query config".to_string(),
                4 => "query admin".to_string(),
                _ => {
                    let chan = rng.pick(&CHANS);
                    format!("ibc close chan={chan} ver=ics20-1 order=unordered init={}", rng.below(2))
                }
            };
        }
        if r < 18 {
            // governance
            let admin: Option<cw_controllers::AdminResponse> = self.q(&QueryMsg::Admin {});
            let admin = admin.and_then(|a| a.admin);
            let snd = match &admin {
                Some(a) if rng.chance(3, 4) => a.clone(),
                _ => rng.pick(&self.pool).to_string(),
            };
            if rng.chance(1, 4) {
                return format!("exec {snd} update_admin admin={}", self.gen_addr(rng));
            }
            let c = if rng.chance(4, 5) { format!("+{}", rng.pick(&self.tokens)) } else { self.gen_addr(rng) };
            // gas limits around the current one
            let cur: Option<AllowedResponse> = self.q(&QueryMsg::Allowed { contract: addr_text(&c) });
            let gas = match cur.and_then(|r| r.gas_limit) {
                Some(g) if rng.chance(2, 3) => match rng.below(4) {
                    0 => g.saturating_sub(1).to_string(),
                    1 => g.to_string(),
                    2 => g.saturating_add(1).to_string(),
                    _ => "-".to_string(),
                },
                _ => self.gen_gas(rng),
            };
            return format!("exec {snd} allow contract={c} gas={gas}");
        }
        if r < 21 {
            let gas = if rng.chance(1, 2) { "-".to_string() } else { self.gen_gas(rng) };
            return format!("migrate gas={gas}");
        }
        if r < 26 {
            let lim = match rng.below(8) {
                0 => "-".to_string(),
                1 => "0".to_string(),
                2 => "31".to_string(),
                3 => "4000000000".to_string(),
                _ => rng.below(4).to_string(),
            };
            let after = match rng.below(5) {
                0 | 1 => "-".to_string(),
                2 => format!("+{}", rng.pick(&self.tokens)),
                3 => self.gen_addr(rng),
                _ => "-cosmwasm1m".to_string(),
            };
            return match rng.below(3) {
                0 => format!("query allowed contract={}", if rng.chance(1, 2) { format!("+{}", rng.pick(&self.tokens)) } else { self.gen_addr(rng) }),
                _ => format!("query list_allowed after={after} limit={lim}"),
            };
        }
        if r < 56 || (redeemable == 0 && self.flights.is_empty() && r < 90) {
            // user transfers
            let snd = rng.pick(&self.pool).clone();
            let tm = self.gen_transfer_msg(rng);
            let k = rng.below(20);
            if k < 8 {
                let ds = self.denoms();
                let d: &str = rng.pick(&ds).as_str();
                let amt = { let base = 1 + rng.below(3000) as u128; self.amount_near(rng, base) };
                let funds = match rng.below(20) {
                    0 => "-".to_string(),
                    1 => format!("{amt}|{d},7|{}", if d == "uatom" { "ustake" } else { "uatom" }),
                    2 => format!("{}|{d}", self.bank_bal(&snd, d).saturating_add(1)),
                    _ => format!("{amt}|{d}"),
                };
                return format!("exec {snd} transfer funds={funds} {tm}");
            }
            if k < 18 {
                let t = rng.pick(&self.tokens).clone();
                let amt = match rng.below(25) {
                    0 => self.tok_bal(&t, &snd).saturating_add(1),
                    _ => { let base = 1 + rng.below(3000) as u128; self.amount_near(rng, base) },
                };
                let raw = if rng.chance(1, 25) { " raw=1" } else { "" };
                return format!("exec {snd} send token={t} amt={amt} {tm}{raw}");
            }
            // a non-token account calls the hook directly
            let funds = if rng.chance(1, 6) { "5|uatom".to_string() } else { "-".to_string() };
            let amt = { let base = 1 + rng.below(3000) as u128; self.amount_near(rng, base) };
            return format!("exec {snd} hook funds={funds} sender={} amt={amt} {tm}", self.gen_addr(rng));
        }
        if (r < 82 && (redeemable > 0 || r < 62)) || self.flights.is_empty() {
            return self.gen_recv(rng);
        }
        // acknowledgement or timeout for a packet in flight (exactly one per packet, any order)
        let i = rng.below(self.flights.len() as u64) as usize;
        let f = self.flights.remove(i);
        let fa = self.flight_args(&f);
        let fail = rng.chance(1, 5) as u8;
        match rng.below(14) {
            0 | 1 | 2 => format!("ibc ack {fa} ok=1 fail={fail}"),
            3 | 4 | 5 => format!("ibc ack {fa} ok=0 fail={fail}"),
            6 => format!("ibc ack {fa} ok=raw fail={fail}"),
            // the wire: exactly these acknowledgement bytes (`ok=` is then only a comment)
            7..=10 => {
                let (cls, bytes) = gen_ack_bytes(rng);
                format!("ibc ack {fa} ok={cls} fail={fail} ackdata={}", if bytes.is_empty() { "-".to_string() } else { hex(&bytes) })
            }
            _ => format!("ibc timeout {fa} fail={fail}"),
        }
    }

    /// Small scope: p0 sends, p1 governs, p2 receives / is the stranger; token0 is on the allow list, token1 (the faulty
    /// one) is not; two connected channels (ours `channel-0` = their `channel-1`, ours `channel-1` = their `channel-2`),
    /// amounts 1/2.  An `ibc recv` never fails as an op (bad packets are answered with an error acknowledgement), so
    /// the enumeration is not pruned behind it: to stay near 80k sequences at depth 4 every variant has its own
    /// alphabet (a story) instead of one alphabet of all lines.
    /// * variant 0 — default gas limit, token0 with its own (lower) limit: escrow and redemption of a native coin on
    ///   two channels and of token0 (send, vouchers coming home, wrong channel, more than outstanding, invalid
    ///   receiver, ack / timeout refunds, next block);
    /// * variant 1 — no default gas limit, token0 listed without limit: the allow list and its gate (new token, raise,
    ///   lower, stranger, hand-over of governance, default gas limit by migrate), cw20 sends / payouts / refunds of
    ///   both tokens (token1 refuses the payout), packets as exact bytes (`data=`: one undecodable, one with an
    ///   unknown field / another field order), wrong port;
    /// * variant 2 — a pre-0.12 (v1) storage layout with one channel and one native coin in flight under the old
    ///   rules, to be migrated (a second channel makes the migration impossible).
    fn small_scope(&mut self, variant: u64) -> Option<SmallScope> {
        if self.wide || variant > 2 {
            return None;
        }
        let (p0, p1, p2) = (self.pool[0].clone(), self.pool[1].clone(), self.pool[2].clone());
        let (t0, t1) = (self.tokens[0].clone(), self.tokens[1].clone());
        let (c0, c1) = (format!("cw20:{t0}"), format!("cw20:{t1}"));
        let b = self.app.block_info();
        let tm = "to=remote0 timeout=- memo=-";
        let connect = |c: &str| format!("ibc connect chan={c} ver=ics20-1 cver=ics20-1 order=unordered");
        let transfer = |amt: u128, chan: &str| format!("exec {p0} transfer funds={amt}|uatom chan={chan} {tm}");
        let send = |t: &Addr| format!("exec {p0} send token={t} amt=1 chan=channel-0 {tm}");
        // a voucher coming home over our channel-0 (their channel-1)
        let recv0 = |denom: &str, amt: u128, rcv: &str, fail: u8| {
            format!("ibc recv chan=channel-0 sport={REMOTE_PORT} schan=channel-1 denom={REMOTE_PORT}/channel-1/{denom} amt={amt} rcv={rcv} snd=remote0 tv=1 fail={fail}")
        };
        // the packet of `exec p0 transfer|send …` (receiver remote0, no memo)
        let flight = |chan: &str, denom: &str, amt: u128| format!("chan={chan} denom={denom} amt={amt} snd=+{p0} rcv=remote0 memo=- tv=1");
        let allow = |by: &Addr, t: &Addr, gas: &str| format!("exec {by} allow contract=+{t} gas={gas}");
        let env = format!("env height={} time={}", b.height + 1, b.time.nanos() + 5_000_000_000);
        let rcv = format!("+{p2}");
        match variant {
            0 => Some(SmallScope {
                prefix: vec![format!("inst gov=+{p1} timeout=100 gas=500000 allow=+{t0}|300000"), connect("channel-0"), connect("channel-1")],
                alphabet: vec![
                    transfer(1, "channel-0"),
                    transfer(2, "channel-0"),
                    transfer(1, "channel-1"),
                    send(&t0),
                    recv0("uatom", 1, &rcv, 0),
                    // more than outstanding unless 2 or more were sent
                    recv0("uatom", 2, &rcv, 0),
                    // arrives on channel-1 but names the voucher of channel-0 (their channel-1 is also OUR id of the other channel)
                    format!("ibc recv chan=channel-1 sport={REMOTE_PORT} schan=channel-2 denom={REMOTE_PORT}/channel-1/uatom amt=1 rcv={rcv} snd=remote0 tv=1 fail=0"),
                    // the payout fails: the receiver does not validate
                    recv0("uatom", 1, &format!("-{INVALID_ADDR}"), 0),
                    recv0(&c0, 1, &rcv, 0),
                    format!("ibc ack {} ok=1 fail=0", flight("channel-0", "uatom", 1)),
                    format!("ibc ack {} ok=0 fail=0", flight("channel-0", "uatom", 1)),
                    format!("ibc timeout {} fail=0", flight("channel-0", "uatom", 1)),
                    format!("ibc timeout {} fail=0", flight("channel-1", "uatom", 1)),
                    // the refund fails (the bank refuses): the packet is settled, the coin stays with the contract
                    format!("ibc timeout {} fail=1", flight("channel-0", "uatom", 1)),
                    env,
                    "query channel id=channel-0".to_string(),
                ],
            }),
            1 => Some(SmallScope {
                prefix: vec![format!("inst gov=+{p1} timeout=100 gas=- allow=+{t0}|-"), connect("channel-0"), connect("channel-1")],
                alphabet: vec![
                    send(&t0),
                    // not on the allow list (until the governance lists it / a default gas limit is set)
                    send(&t1),
                    // exact bytes: an unknown field, another field order, whitespace, `+1`
                    format!(
                        "ibc recv chan=channel-0 sport={REMOTE_PORT} schan=channel-1 denom={REMOTE_PORT}/channel-1/{c0} amt=1 rcv={rcv} snd=remote0 tv=1 fail=0 data={}",
                        hex(format!("{{ \"x\":[1,{{}}], \"receiver\":\"{p2}\",\"amount\":\"+1\",\"denom\":\"{REMOTE_PORT}/channel-1/{c0}\",\"sender\":\"remote0\",\"memo\":null }}").as_bytes())
                    ),
                    // token1 refuses the payout
                    recv0(&c1, 1, &rcv, 1),
                    // undecodable data, as exact bytes: the amount is given twice
                    format!(
                        "ibc recv chan=channel-0 sport={REMOTE_PORT} schan=channel-1 denom={REMOTE_PORT}/channel-1/{c0} amt=1 rcv={rcv} snd=remote0 tv=1 fail=0 data={}",
                        hex(format!("{{\"amount\":\"1\",\"amount\":\"1\",\"denom\":\"{REMOTE_PORT}/channel-1/{c0}\",\"receiver\":\"{p2}\",\"sender\":\"remote0\"}}").as_bytes())
                    ),
                    // wrong port
                    format!("ibc recv chan=channel-0 sport={REMOTE_PORT} schan=channel-1 denom=otherport/channel-1/{c0} amt=1 rcv={rcv} snd=remote0 tv=1 fail=0"),
                    format!("ibc ack {} ok=0 fail=0", flight("channel-0", &c0, 1)),
                    format!("ibc timeout {} fail=0", flight("channel-0", &c1, 1)),
                    // token1 refuses the refund
                    format!("ibc ack {} ok=0 fail=1", flight("channel-0", &c1, 1)),
                    allow(&p1, &t1, "200000"),
                    allow(&p1, &t1, "300000"),
                    allow(&p1, &t1, "100000"),
                    // listed without limit: a limit would be a lowering
                    allow(&p1, &t0, "200000"),
                    allow(&p2, &t1, "-"),
                    format!("exec {p1} update_admin admin=+{p2}"),
                    "migrate gas=600000".to_string(),
                    "query list_channels".to_string(),
                ],
            }),
            _ => Some(SmallScope {
                prefix: vec![format!(
                    "inst_legacy name=crates.io:cw20-ics20 ver=0.11.1 fmt=v1 timeout=100 gov=+{p1} gas=- allow= chans=channel-0 state=channel-0|uatom|1|2 hold=uatom|2"
                )],
                alphabet: vec![
                    "migrate gas=-".to_string(),
                    "migrate gas=500000".to_string(),
                    connect("channel-1"),
                    transfer(1, "channel-0"),
                    send(&t0),
                    recv0("uatom", 1, &rcv, 0),
                    recv0("uatom", 2, &rcv, 0),
                    recv0(&c0, 1, &rcv, 0),
                    format!("ibc ack {} ok=1 fail=0", flight("channel-0", "uatom", 1)),
                    format!("ibc ack {} ok=0 fail=0", flight("channel-0", "uatom", 1)),
                    format!("ibc timeout {} fail=0", flight("channel-0", "uatom", 2)),
                    allow(&p1, &t0, "-"),
                    format!("exec {p1} update_admin admin=+{p2}"),
                    "query config".to_string(),
                    "query channel id=channel-0".to_string(),
                ],
            }),
        }
    }

    fn apply(&mut self, op: &str) -> Vec<String> {
        let a = Args::parse(op);
        let kind = a.pos.first().map(|s| s.as_str()).unwrap_or("");
        match kind {
            "env" => {
                let mut b = self.app.block_info();
                b.height = a.u64("height");
                b.time = Timestamp::from_nanos(a.u64("time"));
                self.app.set_block(b);
                vec![]
            }
            "inst" => {
                if self.contract.is_some() {
                    return vec!["> err".to_string(), self.observe(op)];
                }
                let msg = InitMsg {
                    default_timeout: a.u64("timeout"),
                    gov_contract: addr_text(&a.str("gov")),
                    allowlist: Self::parse_allow(&a.str("allow")),
                    default_gas_limit: a.opt_u64("gas"),
                };
                let (code, admin) = (self.code_real, self.pool[0].clone());
                let r = catch(|| self.app.instantiate_contract(code, admin.clone(), &msg, &[], "ics20", Some(admin.to_string())));
                match r {
                    Some(Ok(addr)) => {
                        self.contract = Some(addr);
                        vec!["> ok".to_string(), self.observe(op)]
                    }
                    _ => vec!["> err".to_string(), self.observe(op)],
                }
            }
            "inst_legacy" => {
                if self.contract.is_some() {
                    return vec!["> err".to_string(), self.observe(op)];
                }
                let split3 = |e: &String| -> Vec<String> { e.split('|').map(|x| x.to_string()).collect() };
                let msg = LegacyInit {
                    name: a.str("name"),
                    version: a.str("ver"),
                    v1: a.str("fmt") == "v1",
                    default_timeout: a.u64("timeout"),
                    gov: addr_text(&a.str("gov")),
                    default_gas_limit: a.opt_u64("gas"),
                    allow: Self::parse_allow(&a.str("allow")).into_iter().map(|m| (m.contract, m.gas_limit)).collect(),
                    channels: a.list("chans").into_iter().map(|c| (c.clone(), counterparty(&c))).collect(),
                    state: a
                        .list("state")
                        .iter()
                        .map(|e| {
                            let p = split3(e);
                            (p[0].clone(), p[1].clone(), Uint128::new(p[2].parse().unwrap_or(0)), Uint128::new(p[3].parse().unwrap_or(0)))
                        })
                        .collect(),
                };
                let (code, admin) = (self.code_legacy, self.pool[0].clone());
                let addr = self.app.instantiate_contract(code, admin.clone(), &msg, &[], "ics20-legacy", Some(admin.to_string())).unwrap();
                // the tokens the old code held
                for e in a.list("hold") {
                    let (d, h) = e.split_once('|').unwrap();
                    let h: u128 = h.parse().unwrap_or(0);
                    if h == 0 {
                        continue;
                    }
                    match d.strip_prefix("cw20:") {
                        Some(t) => {
                            self.app
                                .execute_contract(
                                    self.reserve.clone(),
                                    Addr::unchecked(t),
                                    &Cw20ExecuteMsg::Transfer { recipient: addr.to_string(), amount: Uint128::new(h) },
                                    &[],
                                )
                                .unwrap();
                        }
                        None => {
                            self.app.send_tokens(self.reserve.clone(), addr.clone(), &[coin(h, d)]).unwrap();
                        }
                    }
                }
                self.contract = Some(addr);
                self.legacy = true;
                vec!["> ok".to_string(), self.observe(op)]
            }
            "migrate" => {
                let c = match &self.contract {
                    Some(c) => c.clone(),
                    None => return vec!["> err".to_string(), self.observe(op)],
                };
                let msg = MigrateMsg { default_gas_limit: a.opt_u64("gas") };
                let (admin, code) = (self.pool[0].clone(), self.code_real);
                let r = self.tx(false, |app| app.migrate_contract(admin, c, &msg, code));
                vec![r.split(" ack=").next().unwrap().to_string(), self.observe(op)]
            }
            "exec" => {
                let c = match &self.contract {
                    Some(c) => c.clone(),
                    None => return vec!["> err".to_string(), self.observe(op)],
                };
                let snd = Addr::unchecked(a.pos.get(1).cloned().unwrap_or_default());
                let k = a.pos.get(2).map(|s| s.as_str()).unwrap_or("");
                let funds: Vec<Coin> = a
                    .list("funds")
                    .iter()
                    .filter(|e| e.as_str() != "-")
                    .map(|e| {
                        let (amt, d) = e.split_once('|').unwrap_or(("0", e));
                        coin(amt.parse().unwrap_or(0), d)
                    })
                    .collect();
                let r = match k {
                    "transfer" => {
                        let msg = ExecuteMsg::Transfer(Self::transfer_msg_of(&a));
                        self.tx(false, |app| app.execute_contract(snd, c, &msg, &funds))
                    }
                    "send" => {
                        let inner = if a.get("raw").is_some() {
                            Binary::from(b"{\"garbage\":1}".to_vec())
                        } else {
                            to_json_binary(&Self::transfer_msg_of(&a)).unwrap()
                        };
                        let msg = Cw20ExecuteMsg::Send { contract: c.to_string(), amount: Uint128::new(a.u128("amt")), msg: inner };
                        let token = Addr::unchecked(a.str("token"));
                        self.tx(false, |app| app.execute_contract(snd, token, &msg, &[]))
                    }
                    "hook" => {
                        let msg = ExecuteMsg::Receive(Cw20ReceiveMsg {
                            sender: addr_text(&a.str("sender")),
                            amount: Uint128::new(a.u128("amt")),
                            msg: to_json_binary(&Self::transfer_msg_of(&a)).unwrap(),
                        });
                        self.tx(false, |app| app.execute_contract(snd, c, &msg, &funds))
                    }
                    "allow" => {
                        let msg = ExecuteMsg::Allow(AllowMsg { contract: addr_text(&a.str("contract")), gas_limit: a.opt_u64("gas") });
                        self.tx(false, |app| app.execute_contract(snd, c, &msg, &[]))
                    }
                    "update_admin" => {
                        let msg = ExecuteMsg::UpdateAdmin { admin: addr_text(&a.str("admin")) };
                        self.tx(false, |app| app.execute_contract(snd, c, &msg, &[]))
                    }
                    _ => "> err badop=1".to_string(),
                };
                self.after_tx(&r);
                vec![r, self.observe(op)]
            }
            "ibc" => {
                let c = match &self.contract {
                    Some(c) => c.clone(),
                    None => return vec!["> err".to_string(), self.observe(op)],
                };
                let k = a.pos.get(1).map(|s| s.as_str()).unwrap_or("");
                let fault = a.u64("fail") == 1;
                let relayer = Addr::unchecked("relayer");
                let timeout = IbcTimeout::with_timestamp(Timestamp::from_nanos(u64::MAX));
                let r = match k {
                    "connect" | "open" | "close" => {
                        let ch = a.str("chan");
                        let channel = IbcChannel::new(
                            IbcEndpoint { port_id: OUR_PORT.to_string(), channel_id: ch.clone() },
                            IbcEndpoint {
                                port_id: a.opt("cport").unwrap_or(REMOTE_PORT.to_string()),
                                channel_id: a.opt("cchan").unwrap_or(counterparty(&ch)),
                            },
                            if a.str("order") == "ordered" { IbcOrder::Ordered } else { IbcOrder::Unordered },
                            a.str("ver"),
                            a.opt("conn").unwrap_or("connection-0".to_string()),
                        );
                        match k {
                            "connect" => {
                                // with a counterparty version: OpenAck, without: OpenConfirm
                                let m = match a.opt("cver") {
                                    Some(v) => IbcChannelConnectMsg::new_ack(channel, v),
                                    None => IbcChannelConnectMsg::new_confirm(channel),
                                };
                                self.tx(false, |app| app.wasm_sudo(c, &IbcSudo::Connect(m)))
                            }
                            "open" => {
                                // with a counterparty version: OpenTry, without: OpenInit
                                let m = match a.opt("cver") {
                                    Some(v) => IbcChannelOpenMsg::new_try(channel, v),
                                    None => IbcChannelOpenMsg::new_init(channel),
                                };
                                self.tx(false, |app| app.wasm_sudo(c, &IbcSudo::Open(m)))
                            }
                            _ => {
                                let m = if a.u64("init") == 1 {
                                    IbcChannelCloseMsg::new_init(channel)
                                } else {
                                    IbcChannelCloseMsg::new_confirm(channel)
                                };
                                self.tx(false, |app| app.wasm_sudo(c, &IbcSudo::Close(m)))
                            }
                        }
                    }
                    "recv" => {
                        let data = if let Some(h) = a.get("data") {
                            // exactly these bytes
                            Binary::from(if h == "-" { vec![] } else { parse_payload(h) })
                        } else if a.get("raw").is_some() {
                            Binary::from(b"not json".to_vec())
                        } else {
                            to_json_binary(&Ics20Packet {
                                amount: Uint128::new(a.u128("amt")),
                                denom: a.str("denom"),
                                receiver: addr_text(&a.str("rcv")),
                                sender: a.str("snd"),
                                memo: None,
                            })
                            .unwrap()
                        };
                        let packet = IbcPacket::new(
                            data,
                            IbcEndpoint { port_id: a.str("sport"), channel_id: a.str("schan") },
                            IbcEndpoint { port_id: OUR_PORT.to_string(), channel_id: a.str("chan") },
                            7,
                            timeout,
                        );
                        let m = IbcPacketReceiveMsg::new(packet, relayer);
                        self.tx(fault, |app| app.wasm_sudo(c, &IbcSudo::Receive(m)))
                    }
                    "ack" | "timeout" => {
                        let (ch, p) = self.packet_of(&a);
                        let packet = IbcPacket::new(
                            to_json_binary(&p).unwrap(),
                            IbcEndpoint { port_id: OUR_PORT.to_string(), channel_id: ch.clone() },
                            IbcEndpoint { port_id: REMOTE_PORT.to_string(), channel_id: counterparty(&ch) },
                            9,
                            timeout,
                        );
                        if k == "ack" {
                            let ackdata = match a.str("ok").as_str() {
                                _ if a.get("ackdata").is_some() => {
                                    let h = a.str("ackdata");
                                    Binary::from(if h == "-" { vec![] } else { parse_payload(&h) })
                                }
                                "1" => to_json_binary(&Ics20Ack::Result(Binary::from(b"1".to_vec()))).unwrap(),
                                "0" => to_json_binary(&Ics20Ack::Error("remote failure".to_string())).unwrap(),
                                _ => Binary::from(b"garbage".to_vec()),
                            };
                            let m = IbcPacketAckMsg::new(IbcAcknowledgement::new(ackdata), packet, relayer);
                            self.tx(fault, |app| app.wasm_sudo(c, &IbcSudo::Ack(m)))
                        } else {
                            let m = IbcPacketTimeoutMsg::new(packet, relayer);
                            self.tx(fault, |app| app.wasm_sudo(c, &IbcSudo::Timeout(m)))
                        }
                    }
                    _ => "> err badop=1".to_string(),
                };
                // replayed op files: a packet that was acknowledged / timed out is no longer in flight
                if k == "ack" || k == "timeout" {
                    let (ch, p) = self.packet_of(&a);
                    let f = Flight {
                        chan: ch,
                        denom: p.denom,
                        amt: p.amount.u128(),
                        snd: p.sender,
                        rcv: text_enc(&p.receiver),
                        memo: p.memo.map(|m| text_enc(&m)),
                    };
                    if let Some(i) = self.flights.iter().position(|x| *x == f) {
                        self.flights.remove(i);
                    }
                }
                vec![r, self.observe(op)]
            }
            "query" => {
                let k = a.pos.get(1).map(|s| s.as_str()).unwrap_or("");
                let res: Option<String> = match k {
                    "allowed" => self
                        .q::<AllowedResponse>(&QueryMsg::Allowed { contract: addr_text(&a.str("contract")) })
                        .map(|r| format!("{}|{}", if r.is_allowed { 1 } else { 0 }, opt_str(&r.gas_limit))),
                    "list_allowed" => self
                        .q::<ListAllowedResponse>(&QueryMsg::ListAllowed {
                            start_after: a.opt("after").map(|s| addr_text(&s)),
                            limit: a.opt_u32("limit"),
                        })
                        .map(|r| r.allow.iter().map(|x| format!("{}|{}", x.contract, opt_str(&x.gas_limit))).collect::<Vec<_>>().join(",")),
                    "port" => {
                        // the op line carries the chain's answer to `IbcQuery::PortId`
                        PORT.with(|p| *p.borrow_mut() = a.opt("env"));
                        let r = self.q::<PortResponse>(&QueryMsg::Port {}).map(|r| r.port_id);
                        PORT.with(|p| *p.borrow_mut() = None);
                        r
                    }
                    "list_channels" => self
                        .q::<ListChannelsResponse>(&QueryMsg::ListChannels {})
                        .map(|r| r.channels.iter().map(render_chan_info).collect::<Vec<_>>().join(",")),
                    "channel" => self.q::<ChannelResponse>(&QueryMsg::Channel { id: a.str("id") }).map(|r| {
                        let es = self.channel(&a.str("id")).unwrap_or_default();
                        format!(
                            "{};{}",
                            render_chan_info(&r.info),
                            es.iter().map(|(d, o, t)| format!("{d}|{o}|{t}")).collect::<Vec<_>>().join(",")
                        )
                    }),
                    "config" => self.q::<ConfigResponse>(&QueryMsg::Config {}).map(|c| {
                        format!(
                            "{}/{}/{}",
                            c.default_timeout,
                            opt_str(&c.default_gas_limit),
                            if c.gov_contract.is_empty() { "-".to_string() } else { c.gov_contract }
                        )
                    }),
                    "admin" => self
                        .q::<cw_controllers::AdminResponse>(&QueryMsg::Admin {})
                        .map(|a| a.admin.unwrap_or("-".to_string())),
                    _ => None,
                };
                match res {
                    Some(r) => vec![format!("> ok result={r}")],
                    None => vec!["> err".to_string()],
                }
            }
            _ => vec![],
        }
    }
}
