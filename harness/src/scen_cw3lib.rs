//! Scenario `cw3lib`: direct calls of the cw3 proposal library
//! (`cw3::Proposal::{is_passed,is_rejected,current_status}`, `cw_utils::Threshold::validate`)
//! on constructed proposals.  Every op is a pure evaluation; panics are outcomes.
// SCENARIO cw3lib crate::scen_cw3lib::Cw3LibScen::new()
use crate::common::*;
use cosmwasm_std::testing::mock_env;
use cosmwasm_std::{Addr, BlockInfo, Decimal, Timestamp};
use cw3::{Proposal, Status, Votes};
use cw_utils::{Expiration, Threshold};

pub struct Cw3LibScen {
    block: BlockInfo,
}

const ONE: u128 = 1_000_000_000_000_000_000;
const E9: u128 = 1_000_000_000;

/// exact `ceil(w * a / 10^18)` (w < 2^64, a < 2^62: the product fits u128)
fn ceil_mul(w: u64, a: u128) -> u128 {
    (w as u128 * a + ONE - 1) / ONE
}

fn parse_thr(s: &str) -> Option<Threshold> {
    let parts: Vec<&str> = s.split(':').collect();
    match parts.as_slice() {
        ["count", k] => Some(Threshold::AbsoluteCount { weight: k.parse().ok()? }),
        ["pct", a] => Some(Threshold::AbsolutePercentage { percentage: Decimal::raw(a.parse().ok()?) }),
        ["quorum", t, q] => Some(Threshold::ThresholdQuorum {
            threshold: Decimal::raw(t.parse().ok()?),
            quorum: Decimal::raw(q.parse().ok()?),
        }),
        _ => None,
    }
}

fn parse_status(s: &str) -> Option<Status> {
    match s {
        "pending" => Some(Status::Pending),
        "open" => Some(Status::Open),
        "rejected" => Some(Status::Rejected),
        "passed" => Some(Status::Passed),
        "executed" => Some(Status::Executed),
        _ => None,
    }
}

fn render_status(s: Status) -> &'static str {
    match s {
        Status::Pending => "pending",
        Status::Open => "open",
        Status::Rejected => "rejected",
        Status::Passed => "passed",
        Status::Executed => "executed",
    }
}

fn b(o: Option<bool>) -> &'static str {
    match o {
        Some(true) => "true",
        Some(false) => "false",
        None => "panic",
    }
}

impl Cw3LibScen {
    pub fn new() -> Self {
        Cw3LibScen { block: mock_env().block }
    }

    fn gen_total(&self, rng: &mut Rng) -> u64 {
        match rng.below(16) {
            0 => rng.below(2) * rng.below(2),
            1 => 1 + rng.below(2) * rng.below(100),
            2 => 2 + rng.below(3),
            3 | 4 | 5 => 1 + rng.below(40),
            6 => 1 + rng.below(100_000),
            7 => (1u64 << 32) - 2 + rng.below(5),
            8 => (1u64 << 63) - 2 + rng.below(5),
            9 => u64::MAX,
            10 => u64::MAX - rng.below(3),
            11 => rng.next(),
            12 => (rng.next() >> rng.below(60)).max(5),
            13 => 10u64.pow(rng.below(20) as u32),
            14 => 15 + rng.below(16),
            _ => 1_000_000_000 * (1 + rng.below(5)) + rng.below(3),
        }
    }

    /// atomics of a percentage in [0.5, 1]; `nine` = at most 9 decimal places
    fn gen_pct_valid(&self, rng: &mut Rng) -> u128 {
        if rng.chance(1, 2) {
            // 9 significant decimals
            let p9: u128 = match rng.below(10) {
                0 => 500_000_000,
                1 => 1_000_000_000,
                2 => 510_000_000,
                3 => 666_666_667,
                4 => 666_666_666,
                5 => 750_000_000,
                6 => 500_000_001,
                7 => 999_999_999,
                8 => 500_000_000 + 10_000_000 * rng.below(51) as u128,
                _ => 500_000_000 + rng.below(500_000_001) as u128,
            };
            p9 * E9
        } else {
            match rng.below(8) {
                0 => ONE / 2 + 1,
                1 => ONE - 1,
                2 => 666_666_666_666_666_667,
                3 => 666_666_666_666_666_666,
                4 => 500_000_000_999_999_999,
                5 => 500_000_001_000_000_001,
                _ => ONE / 2 + (rng.u128() % (ONE / 2 + 1)),
            }
        }
    }

    fn gen_pct(&self, rng: &mut Rng) -> u128 {
        if rng.chance(1, 16) {
            // outside [0.5, 1]
            match rng.below(9) {
                0 => 0,
                1 => ONE / 10,
                2 => ONE / 2 - 1,
                3 => 499_999_999 * E9,
                4 => ONE + 1,
                5 => ONE + E9,
                6 => ONE + ONE / 2,
                7 => 2 * ONE,
                _ => rng.u128() % (ONE / 2),
            }
        } else {
            self.gen_pct_valid(rng)
        }
    }

    /// quorum atomics, mostly in (0, 1]
    fn gen_quorum(&self, rng: &mut Rng) -> u128 {
        if rng.chance(1, 16) {
            return *rng.pick(&[0u128, ONE + 1, ONE + E9, 2 * ONE]);
        }
        if rng.chance(1, 2) {
            let q9: u128 = match rng.below(9) {
                0 => 1,
                1 => 100_000_000,
                2 => 334_000_000,
                3 => 333_333_333,
                4 => 500_000_000,
                5 => 1_000_000_000,
                6 => 400_000_000,
                7 => 10_000_000 * (1 + rng.below(100)) as u128,
                _ => 1 + rng.below(1_000_000_000) as u128,
            };
            q9 * E9
        } else {
            match rng.below(6) {
                0 => 1,
                1 => ONE - 1,
                2 => 333_333_333_333_333_333,
                3 => 333_333_333_333_333_334,
                _ => 1 + (rng.u128() % ONE),
            }
        }
    }

    fn gen_thr(&self, rng: &mut Rng, total: u64) -> Threshold {
        match rng.below(3) {
            0 => {
                let k = if rng.chance(1, 12) {
                    // invalid: 0 or above the total
                    match rng.below(3) {
                        0 => 0,
                        1 => total.saturating_add(1),
                        _ => total.saturating_add(1 + rng.below(1000)),
                    }
                } else if total == 0 {
                    1
                } else {
                    match rng.below(6) {
                        0 => 1,
                        1 => total,
                        2 => total / 2 + 1,
                        3 => (total / 2).max(1),
                        4 => (total - total / 3).max(1),
                        _ => 1 + rng.below(total),
                    }
                };
                Threshold::AbsoluteCount { weight: k }
            }
            1 => Threshold::AbsolutePercentage { percentage: Decimal::raw(self.gen_pct(rng)) },
            _ => Threshold::ThresholdQuorum {
                threshold: Decimal::raw(self.gen_pct(rng)),
                quorum: Decimal::raw(self.gen_quorum(rng)),
            },
        }
    }

    fn render_thr(t: &Threshold) -> String {
        match t {
            Threshold::AbsoluteCount { weight } => format!("count:{weight}"),
            Threshold::AbsolutePercentage { percentage } => format!("pct:{}", percentage.atomics().u128()),
            Threshold::ThresholdQuorum { threshold, quorum } => {
                format!("quorum:{}:{}", threshold.atomics().u128(), quorum.atomics().u128())
            }
        }
    }

    /// a value near `x` (x-1, x, x+1, sometimes 0 / hi / random), clamped to `0..=hi`
    fn near(rng: &mut Rng, x: u128, hi: u64) -> u64 {
        let v: u128 = match rng.below(20) {
            0..=4 => x.saturating_sub(1),
            5..=10 => x,
            11..=15 => x + 1,
            16 => 0,
            17 => hi as u128,
            _ => {
                if hi == u64::MAX {
                    rng.next() as u128
                } else {
                    rng.below(hi + 1) as u128
                }
            }
        };
        v.min(hi as u128) as u64
    }

    fn upto(rng: &mut Rng, hi: u64) -> u64 {
        if hi == u64::MAX {
            rng.next()
        } else {
            rng.below(hi + 1)
        }
    }

    /// (yes, no, abstain, veto)
    fn gen_tally(&self, rng: &mut Rng, thr: &Threshold, total: u64, expired: bool) -> (u64, u64, u64, u64) {
        let mode = rng.below(20);
        if mode == 0 {
            // beyond the total: exercises the u64 underflow / overflow panics
            return match rng.below(5) {
                0 => (rng.next(), rng.next(), rng.next(), rng.next()),
                1 => (1u64 << 63, 1u64 << 63, 0, 0),
                2 => (0, 0, total.saturating_add(1), 0),
                3 => (total, 1, 0, 0),
                _ => (Self::upto(rng, total), Self::upto(rng, total), Self::upto(rng, total), Self::upto(rng, total)),
            };
        }
        if mode == 1 {
            // everybody abstains
            return (0, 0, total, 0);
        }
        if mode == 2 {
            // arbitrary split
            let yes = Self::upto(rng, total);
            let no = Self::upto(rng, total - yes);
            let abstain = Self::upto(rng, total - yes - no);
            let veto = Self::upto(rng, total - yes - no - abstain);
            return (yes, no, abstain, veto);
        }
        // boundary-directed splits
        let (t_atomics, q_atomics) = match thr {
            Threshold::AbsoluteCount { .. } => (0, 0),
            Threshold::AbsolutePercentage { percentage } => (percentage.atomics().u128(), 0),
            Threshold::ThresholdQuorum { threshold, quorum } => (threshold.atomics().u128(), quorum.atomics().u128()),
        };
        let t_c = ONE.saturating_sub(t_atomics);
        // participation (only matters for quorum): near the quorum boundary or everything
        let cast: u64 = match thr {
            Threshold::ThresholdQuorum { .. } if rng.chance(2, 3) => Self::near(rng, ceil_mul(total, q_atomics.min(2 * ONE)), total),
            _ => match rng.below(4) {
                0 => total,
                1 => total - total.min(1),
                _ => Self::upto(rng, total),
            },
        };
        let abstain: u64 = match rng.below(20) {
            0..=6 => 0,
            7 | 8 => cast.min(1),
            9 => cast,
            10 => cast - cast.min(1),
            11..=16 => Self::upto(rng, cast / 3),
            _ => Self::upto(rng, cast),
        };
        // the base of the percentage the library will use
        let base: u64 = match thr {
            Threshold::ThresholdQuorum { .. } if expired => cast - abstain,
            _ => total - abstain,
        };
        let rest = cast - abstain; // weight left for yes/no/veto
        let (yes, no): (u64, u64) = match thr {
            Threshold::AbsoluteCount { weight } => {
                if rng.chance(1, 2) {
                    let yes = Self::near(rng, *weight as u128, rest);
                    (yes, Self::upto(rng, rest - yes))
                } else {
                    // rejection boundary: no > total - weight
                    let no = Self::near(rng, (total.saturating_sub(*weight)) as u128 + 1, rest);
                    (Self::upto(rng, rest - no), no)
                }
            }
            _ => {
                if rng.chance(3, 5) {
                    let yes = Self::near(rng, ceil_mul(base, t_atomics.min(2 * ONE)), rest);
                    let no = if rng.chance(1, 2) { rest - yes } else { Self::upto(rng, rest - yes) };
                    (yes, no)
                } else {
                    let no = Self::near(rng, ceil_mul(base, t_c) + 1, rest);
                    let yes = if rng.chance(1, 2) { rest - no } else { Self::upto(rng, rest - no) };
                    (yes, no)
                }
            }
        };
        let left = rest - yes - no;
        let veto = match rng.below(3) {
            0 => 0,
            1 => left,
            _ => Self::upto(rng, left),
        };
        (yes, no, abstain, veto)
    }
}

impl Scenario for Cw3LibScen {
    fn start(&mut self, seed: u64, trace: u64) -> String {
        let header = format!("scenario cw3lib seed={seed} trace={trace}");
        self.reset(&header);
        header
    }

    fn reset(&mut self, _header: &str) {
        self.block = mock_env().block;
    }

    fn gen_op(&mut self, rng: &mut Rng, step: usize) -> String {
        if step == 0 || rng.chance(1, 25) {
            let (h, t) = match rng.below(6) {
                0 => (0, 0),
                1 => (1, 1),
                2 => (u64::MAX, u64::MAX),
                3 => (rng.next(), rng.next()),
                _ => (12_345 + rng.below(1000), 1_571_797_419_879_305_533 + rng.below(1_000_000_000_000)),
            };
            return format!("env height={h} time={t}");
        }
        let total = self.gen_total(rng);
        let thr = self.gen_thr(rng, total);
        if rng.chance(1, 10) {
            return format!("validate thr={} total={}", Self::render_thr(&thr), total);
        }
        let h = self.block.height;
        let t = self.block.time.nanos();
        let (expires, expired) = match rng.below(10) {
            0 => (Expiration::Never {}, false),
            1 => (Expiration::AtHeight(h), true),
            2 => (Expiration::AtHeight(h.saturating_sub(1 + rng.below(10))), true),
            3 => (Expiration::AtHeight(0), true),
            4 => (Expiration::AtTime(Timestamp::from_nanos(t)), true),
            5 => (Expiration::AtTime(Timestamp::from_nanos(t.saturating_sub(1 + rng.below(1_000_000_000)))), true),
            6 if h < u64::MAX => (Expiration::AtHeight(h + 1), false),
            7 if h < u64::MAX => (Expiration::AtHeight(h.saturating_add(1 + rng.below(100_000))), false),
            8 if t < u64::MAX => (Expiration::AtTime(Timestamp::from_nanos(t + 1)), false),
            9 if t < u64::MAX => (Expiration::AtTime(Timestamp::from_nanos(t.saturating_add(1 + rng.below(1_000_000_000_000)))), false),
            _ => (Expiration::Never {}, false),
        };
        let (yes, no, abstain, veto) = self.gen_tally(rng, &thr, total, expired);
        let status = if rng.chance(3, 4) {
            "open"
        } else {
            *rng.pick(&["pending", "open", "rejected", "passed", "executed"])
        };
        format!(
            "eval thr={} total={} yes={} no={} abstain={} veto={} status={} expires={}",
            Self::render_thr(&thr),
            total,
            yes,
            no,
            abstain,
            veto,
            status,
            render_exp(&expires)
        )
    }

    /// Small scope: one threshold per variant (three of each kind), total weights 0..3 and EVERY tally
    /// (yes, no, abstain, veto) whose sum stays within the total, on an open proposal that expires at the next block;
    /// the one `env` line of the alphabet moves to that block.  Every op is an independent evaluation — the block is
    /// the only state — so depth 2 (`env` then any op) is already complete; deeper runs repeat the same evaluations.
    /// Added: a few tallies beyond the total (the u64 underflow panics), the other stored statuses, `never` /
    /// time expiries, and `validate` of the threshold (and of invalid neighbours) against the totals 0..3.
    fn small_scope(&mut self, variant: u64) -> Option<SmallScope> {
        const THIRD_UP: u128 = 333_333_333_333_333_334;
        const THIRD_DOWN: u128 = 333_333_333_333_333_333;
        const TWO_THIRDS_UP: u128 = 666_666_666_666_666_667;
        // (threshold of the variant, invalid / neighbouring thresholds for `validate` only)
        let (thr, others): (String, Vec<String>) = match variant {
            0 => ("count:1".into(), vec!["count:0".into()]),
            1 => ("count:2".into(), vec![]),
            2 => ("count:3".into(), vec!["count:4".into()]),
            3 => (format!("pct:{}", ONE / 2), vec![format!("pct:{}", ONE / 2 - 1), "pct:0".into()]),
            4 => (format!("pct:{TWO_THIRDS_UP}"), vec![]),
            5 => (format!("pct:{ONE}"), vec![format!("pct:{}", ONE + 1)]),
            6 => (format!("quorum:{}:{}", ONE / 2, ONE / 2), vec![format!("quorum:{}:0", ONE / 2), format!("quorum:{}:{}", ONE / 2 - 1, ONE / 2)]),
            7 => (format!("quorum:{}:{}", ONE / 2, ONE), vec![format!("quorum:{}:{}", ONE / 2, ONE + 1)]),
            8 => (format!("quorum:{TWO_THIRDS_UP}:{THIRD_DOWN}"), vec![format!("quorum:{ONE}:{THIRD_UP}")]),
            _ => return None,
        };
        let h = self.block.height;
        let t = self.block.time.nanos();
        let next = format!("h{}", h + 1);
        let mut al = vec![format!("env height={} time={}", h + 1, t + 5_000_000_000)];
        for total in 0..=3u64 {
            al.push(format!("validate thr={thr} total={total}"));
        }
        for o in &others {
            for total in [0u64, 3] {
                al.push(format!("validate thr={o} total={total}"));
            }
        }
        let eval = |total: u64, y: u64, n: u64, a: u64, v: u64, status: &str, expires: &str| -> String {
            format!("eval thr={thr} total={total} yes={y} no={n} abstain={a} veto={v} status={status} expires={expires}")
        };
        for total in 0..=3u64 {
            for y in 0..=total {
                for n in 0..=total - y {
                    for a in 0..=total - y - n {
                        for v in 0..=total - y - n - a {
                            al.push(eval(total, y, n, a, v, "open", &next));
                        }
                    }
                }
            }
        }
        // beyond the total: `total - abstain`, `total - votes.total()` underflow
        al.push(eval(1, 2, 0, 0, 0, "open", &next));
        al.push(eval(1, 0, 0, 2, 0, "open", &next));
        al.push(eval(2, 1, 1, 1, 0, "open", &next));
        al.push(eval(0, 0, 1, 0, 0, "open", &next));
        // other stored statuses, a unanimous and an empty tally
        for st in ["pending", "rejected", "passed", "executed"] {
            al.push(eval(3, 3, 0, 0, 0, st, &next));
            al.push(eval(3, 0, 0, 0, 0, st, &next));
        }
        // other expiries: never; a time one nanosecond ahead (the `env` line passes it); the current height (expired)
        for (y, n) in [(3u64, 0u64), (2, 1), (1, 2), (0, 0)] {
            al.push(eval(3, y, n, 0, 0, "open", "never"));
            al.push(eval(3, y, n, 0, 0, "open", &format!("t{}", t + 1)));
            al.push(eval(3, y, n, 0, 0, "open", &format!("h{h}")));
        }
        Some(SmallScope { prefix: vec![], alphabet: al })
    }

    fn apply(&mut self, op: &str) -> Vec<String> {
        let a = Args::parse(op);
        let kind = a.pos.first().map(|s| s.as_str()).unwrap_or("");
        match kind {
            "env" => {
                self.block.height = a.u64("height");
                self.block.time = Timestamp::from_nanos(a.u64("time"));
                vec![]
            }
            "validate" => {
                let thr = match parse_thr(&a.str("thr")) {
                    Some(t) => t,
                    None => return vec!["> err badop".to_string()],
                };
                let total = a.u64("total");
                match catch(|| thr.validate(total)) {
                    Some(Ok(())) => vec!["> ok".to_string()],
                    _ => vec!["> err".to_string()],
                }
            }
            "eval" => {
                let (thr, status, expires) =
                    match (parse_thr(&a.str("thr")), parse_status(&a.str("status")), parse_exp(&a.str("expires"))) {
                        (Some(t), Some(s), Some(e)) => (t, s, e),
                        _ => return vec!["> err badop".to_string()],
                    };
                let prop = Proposal {
                    title: "t".to_string(),
                    description: "d".to_string(),
                    start_height: 1,
                    expires,
                    msgs: vec![],
                    status,
                    threshold: thr,
                    total_weight: a.u64("total"),
                    votes: Votes { yes: a.u64("yes"), no: a.u64("no"), abstain: a.u64("abstain"), veto: a.u64("veto") },
                    proposer: Addr::unchecked("proposer"),
                    deposit: None,
                };
                let block = self.block.clone();
                let passed = catch(|| prop.is_passed(&block));
                let rejected = catch(|| prop.is_rejected(&block));
                let status = catch(|| prop.current_status(&block));
                vec![format!(
                    "> ok passed={} rejected={} status={}",
                    b(passed),
                    b(rejected),
                    status.map(render_status).unwrap_or("panic")
                )]
            }
            _ => vec!["> err badop".to_string()],
        }
    }
}
