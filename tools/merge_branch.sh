#!/bin/sh
# Merge an agent branch into main, regenerate registries, rebuild, run the checks given.
#   tools/merge_branch.sh <branch> [Cxx ...]
set -e
B="$1"; shift
cd /verif
git merge --no-edit -X theirs "$B" 2>&1 | tail -3 || true
# generated files: always regenerate
python3 tools/gen_registry.py
(cd lean/CwPlus && lake build 2>&1 | grep -E "^error|Build completed" | head -20)
(cd harness && cargo build --offline -q 2>&1 | grep -E "^error" -A6 | head -30)
for id in "$@"; do ./check "$id" | tail -3; done
git add -A; git commit -qm "merge $B; regenerate registries; evidence" || true
