#!/usr/bin/env python3
"""Directed inputs for the cw20-ics20 wire format (Base/Json.lean), written twice from ONE table:

  corpus/C12/wire_directed.ops                         the bytes are delivered to the real `from_json` (harness)
  lean/CwPlus/CwPlus/Props/Ics20WireExamples.lean      the model's verdict on the same bytes, by `decide`

The expectation (`ok` with the decoded value / `err`) is stated here by hand; `decide` checks that the model
meets it, the replay of the corpus file (every `./check C12`) checks that serde does what the model does.
Run from the repository root:  python3 tools/gen_wire_corpus.py
"""
import os

ROOT = os.path.dirname(os.path.dirname(os.path.abspath(__file__)))
P = ["cosmwasm1wj4sdqg79pt6sanlk970g69vpdt0nvvl90qd873jzn0rtn778e2qzc2gz0",
     "cosmwasm1gndjljtes6kcasm6c94qsudnggqzvtmxl33wpttg30z0ccwkj8nsu8dvnd",
     "cosmwasm1tn0qxlkx3u92fh7aue45tzkgnrd62sfysgncygensxdt5lmtxzksuju42r",
     "cosmwasm15zeaplm03dd5h4kj7fkkn4zz5ggv0z8yakdp23ldm6apl0gylhrsk5m3jc"]
T = ["cosmwasm1mzdhwvvh22wrt07w59wxyd58822qavwkx5lcej7aqfkpqqlhaqfsgn6fq2",
     "cosmwasm1wug8sewp6cedgkmrmvhl3lf3tulagm9hnvy8p0rppz9yjw0g4wtqlrtkzd"]
HEADER = ("scenario ics20 seed=1 trace={tid} pool=" + ",".join(P) + " tokens=" + ",".join(T) + " faulty=" + T[1] +
          " denoms=uatom,ustake chans=channel-0,channel-1,channel-2 fund=73786976294838206464")

D = "transfer/channel-1/uatom"     # the voucher of our channel-0 (their channel-1)
R = P[1]
S = "remote0"


def obj(amount='"7"', denom=None, receiver=None, sender=None, memo=None, order="adrsm", extra=None, sep=",", colon=":"):
    """JSON text; `extra` = list of (position, raw text) inserted among the fields"""
    vals = {"a": ('"amount"', amount), "d": ('"denom"', denom if denom is not None else '"%s"' % D),
            "r": ('"receiver"', receiver if receiver is not None else '"%s"' % R),
            "s": ('"sender"', sender if sender is not None else '"%s"' % S), "m": ('"memo"', memo)}
    parts = []
    for c in order:
        k, v = vals[c]
        if v is not None:
            parts.append(k + colon + v)
    for pos, raw in (extra or []):
        parts.insert(pos, raw)
    return "{" + sep.join(parts) + "}"


def b(x):
    return x if isinstance(x, bytes) else x.encode("utf-8")


OK7 = (7, D, R, S, None)


def ok(amount=7, denom=D, receiver=R, sender=S, memo=None):
    return (amount, denom, receiver, sender, memo)


def uesc(s):
    out = ""
    for ch in s:
        cp = ord(ch)
        if cp >= 0x10000:
            cp -= 0x10000
            out += "\\u%04x\\u%04x" % (0xD800 + (cp >> 10), 0xDC00 + (cp & 0x3FF))
        else:
            out += "\\u%04x" % cp
    return '"' + out + '"'


MEMO = 'a"b\\c\nd\x01\u00e9'
MEMO_JSON = '"a\\"b\\\\c\\nd\\u0001\u00e9"'

# (name, comment, bytes, expectation)   expectation: tuple = ok value, None = error
PACKETS = [
    ("canonical", "what `to_json_binary` writes", obj(), OK7),
    ("memo_escapes", "an escape-needing memo: quote, backslash, newline, U+0001, a two-byte character", obj(memo=MEMO_JSON), ok(memo=MEMO)),
    ("memo_null", "explicit null = None", obj(memo="null"), OK7),
    ("memo_empty", "", obj(memo='""'), ok(memo="")),
    ("permuted", "field order is free", obj(memo='"m"', order="msrda"), ok(memo="m")),
    ("unknown_scalar", "no deny_unknown_fields: an unknown key is skipped", obj(extra=[(1, '"extra":123')]), OK7),
    ("unknown_nested", "nested object / array, also one that repeats a known key inside", obj(extra=[(0, '"x":{"a":[1,2,{"b":null}],"c":"d","amount":"9"}'), (3, '"y":[1,"two",[3],{}]')]), OK7),
    ("unknown_chomped", "a skipped scalar is not parsed, only chomped up to the next , } ]", obj(extra=[(2, '"x":12abc'), (4, '"y":tru'), (5, '"z":1 2')]), OK7),
    ("unknown_twice", "an unknown key may repeat", obj(extra=[(1, '"x":1'), (3, '"x":2')]), OK7),
    ("duplicate_amount", "a repeated known key is an error", obj(extra=[(1, '"amount":"7"')]), None),
    ("duplicate_memo", "", obj(memo='"m"', extra=[(0, '"memo":null')]), None),
    ("missing_sender", "the four non-optional fields are required", obj(order="adr"), None),
    ("missing_amount", "", obj(order="drs"), None),
    ("uppercase_key", "keys are case sensitive: `Amount` is an unknown key, `amount` is then missing", obj().replace('"amount"', '"Amount"'), None),
    ("amount_u64_plus_1", "18446744073709551616 decodes (the u64 limit is checked on sending only)", obj(amount='"18446744073709551616"'), ok(amount=18446744073709551616)),
    ("amount_u128_max", "2^128-1 decodes", obj(amount='"340282366920938463463374607431768211455"'), ok(amount=2**128 - 1)),
    ("amount_u128_over", "2^128 does not", obj(amount='"340282366920938463463374607431768211456"'), None),
    ("amount_plus", "u128::from_str accepts one leading +", obj(amount='"+7"'), OK7),
    ("amount_zeros", "... and leading zeros", obj(amount='"007"'), OK7),
    ("amount_plus_zeros", "", obj(amount='"+0000000000000000000000000000000000000000007"'), OK7),
    ("amount_minus", "", obj(amount='"-7"'), None),
    ("amount_minus_zero", "", obj(amount='"-0"'), None),
    ("amount_empty", "", obj(amount='""'), None),
    ("amount_only_plus", "", obj(amount='"+"'), None),
    ("amount_two_plus", "", obj(amount='"++7"'), None),
    ("amount_blank_before", "", obj(amount='" 7"'), None),
    ("amount_blank_after", "", obj(amount='"7 "'), None),
    ("amount_exponent", "", obj(amount='"7e0"'), None),
    ("amount_hex", "", obj(amount='"0x7"'), None),
    ("amount_arabic_digits", "only ASCII digits", obj(amount='"\u0667"'), None),
    ("amount_number", "the amount must be a JSON string", obj(amount="7"), None),
    ("amount_escaped_digit", "the digit as an escape is the same string", obj(amount='"\\u0037"'), OK7),
    ("ws_everywhere", "blank, \\n, \\t, \\r between all tokens and around the document", "\n { \"amount\" :\t\"7\" ,\r\n\"denom\": \"%s\" , \"receiver\" : \"%s\",\t\"sender\"\n:\n\"%s\" } \r\n" % (D, R, S), OK7),
    ("ws_vertical_tab", "0x0b is not whitespace", obj().replace(",", ",\x0b", 1), None),
    ("ws_formfeed", "0x0c is not whitespace", "\x0c" + obj(), None),
    ("ws_nbsp", "U+00A0 is not whitespace", obj() + "\u00a0", None),
    ("bom", "a byte order mark is not skipped", b"\xef\xbb\xbf" + b(obj()), None),
    ("trailing_ws", "only whitespace may follow", obj() + " \n\t\r", OK7),
    ("trailing_char", "", obj() + "x", None),
    ("trailing_brace", "", obj() + "}", None),
    ("trailing_object", "", obj() + " {}", None),
    ("trailing_nul", "", obj() + "\x00", None),
    ("truncated_1", "", obj()[:-1], None),
    ("truncated_2", "", obj()[:40], None),
    ("truncated_3", "", '{"amount":"7","denom":"', None),
    ("empty", "no data at all", "", None),
    ("only_ws", "", "  ", None),
    ("receiver_all_escaped", "every character of the receiver as \\uXXXX: the same string, the same payout", obj(receiver=uesc(R)), OK7),
    ("denom_all_escaped", "", obj(denom=uesc(D)), OK7),
    ("sender_short_escapes", "the eight short escapes and one \\u escape", obj(sender='"re\\"mo\\\\te\\n\\u0041\\/\\b\\f\\r\\t"'), ok(sender='re"mo\\te\nA/\x08\x0c\r\t')),
    ("surrogate_pair", "a surrogate pair is one character", obj(memo='"\\ud83d\\ude00"'), ok(memo="\U0001F600")),
    ("surrogate_upper_case_hex", "", obj(memo='"\\uD83D\\uDE00\\u00E9\\u20AC"'), ok(memo="\U0001F600\u00e9\u20ac")),
    ("surrogate_lone_high", "", obj(memo='"\\ud83d"'), None),
    ("surrogate_lone_high_then_text", "", obj(memo='"\\ud83dabc"'), None),
    ("surrogate_lone_low", "", obj(memo='"\\ude00"'), None),
    ("surrogate_reversed", "", obj(memo='"\\ude00\\ud83d"'), None),
    ("surrogate_high_high", "", obj(memo='"\\ud800\\ud800"'), None),
    ("surrogate_interrupted", "quirk of `unescape`: an escape between the two halves does not reset the pending high surrogate", obj(memo='"\\ud800\\u0041\\udc00"'), ok(memo="A\U00010000")),
    ("surrogate_interrupted_short", "... also a short escape", obj(memo='"\\ud800\\n\\udc00"'), ok(memo="\n\U00010000")),
    ("surrogate_then_escape_end", "... but the string must not end there", obj(memo='"\\ud800\\u0041"'), None),
    ("escape_bad_letter", "", obj(memo='"\\x41"'), None),
    ("escape_short_u", "", obj(memo='"\\u12"'), None),
    ("escape_bad_hex", "", obj(memo='"\\u123g"'), None),
    ("escape_backslash_at_end", "the closing quote is escaped: the string does not end", obj(memo='"abc\\"'), None),
    ("escape_nul", "\\u0000 is a character", obj(memo='"a\\u0000b"'), ok(memo="a\x00b")),
    ("raw_control_no_backslash", "quirk of `parse_string`: without a backslash in the string, raw control bytes are accepted", obj(sender='"li\nne\x01"'), ok(sender="li\nne\x01")),
    ("raw_control_with_backslash", "... with a backslash anywhere in the same string they are refused", obj(sender='"li\nne\\\\"'), None),
    ("raw_del", "0x7f is no control character for `unescape`", obj(sender='"a\x7f\\\\"'), ok(sender="a\x7f\\")),
    ("key_escaped", "keys are unescaped before they are compared", obj().replace('"amount"', '"amoun\\u0074"'), OK7),
    ("key_escaped_duplicate", "... so this is a duplicate", obj(extra=[(1, '"amoun\\u0074":"7"')]), None),
    ("nonutf8_in_string", "not UTF-8 inside a string value", b(obj()).replace(b'"remote0"', b'"rem\xffote0"'), None),
    ("nonutf8_overlong", "an overlong encoding is not UTF-8", b(obj()).replace(b'"remote0"', b'"rem\xc0\x80ote0"'), None),
    ("nonutf8_surrogate", "an encoded surrogate is not UTF-8", b(obj()).replace(b'"remote0"', b'"rem\xed\xa0\x80ote0"'), None),
    ("nonutf8_too_large", "beyond U+10FFFF", b(obj()).replace(b'"remote0"', b'"rem\xf4\x90\x80\x80ote0"'), None),
    ("nonutf8_truncated_char", "", b(obj()).replace(b'"remote0"', b'"rem\xe2\x82"'), None),
    ("nonutf8_skipped_scalar", "quirk: a skipped scalar is not looked at — bytes that are not UTF-8 pass", b(obj())[:-1] + b',"x":\xff\xfe}', OK7),
    ("nonutf8_skipped_string", "... a skipped string is validated", b(obj())[:-1] + b',"x":"\xff"}', None),
    ("nonutf8_unknown_key", "... and so is an unknown key", b(obj())[:-1] + b',"\xff":1}', None),
    ("nonutf8_leading", "", b"\x80" + b(obj()), None),
    ("utf8_four_bytes", "valid multi-byte characters pass verbatim", obj(memo='"\U0001F600\u65e5\u672c\u00e9"'), ok(memo="\U0001F600\u65e5\u672c\u00e9")),
    ("array_leading_comma", "quirk of `SeqAccess`: a leading comma in a skipped array is accepted", obj(extra=[(1, '"x":[,1]')]), OK7),
    ("array_leading_comma_no_sep", "... and then one missing separator too", obj(extra=[(1, '"x":[,"a" "b"]')]), OK7),
    ("array_trailing_comma", "", obj(extra=[(1, '"x":[1,]')]), None),
    ("array_double_comma", "", obj(extra=[(1, '"x":[1,,2]')]), None),
    ("array_missing_sep_strings", "", obj(extra=[(1, '"x":["a" "b"]')]), None),
    ("array_unclosed", "", obj(extra=[(4, '"x":[1')]), None),
    ("array_string_with_bracket", "", obj(extra=[(1, '"x":["a\\"]"]')]), OK7),
    ("object_leading_comma", "an object does not take a leading comma", obj(extra=[(1, '"x":{,}')]), None),
    ("object_trailing_comma", "", obj(extra=[(1, '"x":{"a":1,}')]), None),
    ("object_no_colon", "", obj(extra=[(1, '"x":{"a" 1}')]), None),
    ("object_numeric_key", "", obj(extra=[(1, '"x":{1:2}')]), None),
    ("object_empty", "", obj(extra=[(1, '"x":{}'), (2, '"y":[]')]), OK7),
    ("value_missing", "", obj(extra=[(1, '"x":')]), None),
    ("nest_126", "126 nested arrays inside the object: within the recursion limit of 128", obj(extra=[(1, '"x":' + "[" * 126 + "]" * 126)]), OK7),
    ("nest_127", "127: RecursionLimitExceeded", obj(extra=[(1, '"x":' + "[" * 127 + "]" * 127)]), None),
    ("nest_126_objects", "", obj(extra=[(1, '"x":' + '{"a":' * 126 + "1" + "}" * 126)]), OK7),
    ("nest_127_objects", "", obj(extra=[(1, '"x":' + '{"a":' * 127 + "1" + "}" * 127)]), None),
    ("type_denom_number", "", obj(denom="5"), None),
    ("type_receiver_null", "", obj(receiver="null"), None),
    ("type_sender_array", "", obj(sender='["a"]'), None),
    ("type_amount_object", "", obj(amount='{"a":1}'), None),
    ("type_memo_number", "", obj(memo="7"), None),
    ("type_memo_nul", "`nul` is not `null`", obj(memo="nul"), None),
    ("type_memo_nullx", "`null` must be followed by a delimiter", obj(memo="nullx"), None),
    ("top_array", "", "[]", None),
    ("top_string", "", '"str"', None),
    ("top_null", "", "null", None),
    ("top_number", "", "123", None),
    ("top_empty_object", "", "{}", None),
    ("punct_leading_comma", "", obj().replace("{", "{,", 1), None),
    ("punct_double_comma", "", obj().replace(",", ",,", 1), None),
    ("punct_trailing_comma", "", obj()[:-1] + ",}", None),
    ("punct_no_comma", "", obj().replace(",", " ", 1), None),
    ("punct_no_colon", "", obj().replace(":", " ", 1), None),
    ("punct_equals", "", obj().replace(":", "=", 1), None),
    ("punct_single_quotes", "", obj().replace('"', "'"), None),
    ("punct_two_colons", "", obj().replace(":", "::", 1), None),
    ("junk_after_value", "", obj(amount='"7" junk'), None),
]

ACKS = [
    ("ack_success_b1", "what `ack_success()` writes: base64 of b\"1\"", '{"result":"MQ=="}', "success"),
    ("ack_success_go", "what ibc-go writes: base64 of the byte 0x01", '{"result":"AQ=="}', "success"),
    ("ack_success_ws_nopad", "whitespace; padding is optional", ' { "result" : "AQ" } ', "success"),
    ("ack_success_one_pad", "", '{"result":"AQ="}', "success"),
    ("ack_success_empty", "", '{"result":""}', "success"),
    ("ack_success_abc", "", '{"result":"QUJD"}', "success"),
    ("ack_success_abcd", "", '{"result":"QUJDRA"}', "success"),
    ("ack_b64_trailing_bits", "unused bits of the last symbol must be zero", '{"result":"AR=="}', None),
    ("ack_b64_trailing_bits_2", "", '{"result":"QUJDRB=="}', None),
    ("ack_b64_one_symbol", "", '{"result":"A"}', None),
    ("ack_b64_five_symbols", "", '{"result":"QUJDR"}', None),
    ("ack_b64_pad_inside", "", '{"result":"A=Q="}', None),
    ("ack_b64_three_pads", "", '{"result":"AQ==="}', None),
    ("ack_b64_pad_after_quad", "", '{"result":"QUJD="}', None),
    ("ack_b64_bad_symbol", "", '{"result":"!!!!"}', None),
    ("ack_b64_url_alphabet", "the URL-safe alphabet is not accepted", '{"result":"-_-_"}', None),
    ("ack_b64_blank", "", '{"result":"AQ =="}', None),
    ("ack_result_null", "", '{"result":null}', None),
    ("ack_error", "", '{"error":"boom"}', "boom"),
    ("ack_error_empty", "", '{"error":""}', ""),
    ("ack_error_escapes", "", '{"error":"a\\"b\\\\c\\nd\\u0001\u00e9"}', 'a"b\\c\nd\x01\u00e9'),
    ("ack_error_escaped_key", "", '\n{"\\u0065rror"\t:\r"\\u0078"}\n', "x"),
    ("ack_two_entries", "exactly one entry", '{"error":"x","result":"AQ=="}', None),
    ("ack_trailing_comma", "", '{"error":"x",}', None),
    ("ack_trailing_char", "", '{"error":"x"} x', None),
    ("ack_trailing_brace", "", '{"error":"x"}}', None),
    ("ack_unknown_variant", "", '{"other":"x"}', None),
    ("ack_capital", "", '{"Error":"x"}', None),
    ("ack_unit_variant", "", '"result"', None),
    ("ack_error_number", "", '{"error":5}', None),
    ("ack_empty", "", "", None),
    ("ack_empty_object", "", "{}", None),
    ("ack_array", "", '["error","x"]', None),
    ("ack_nonutf8", "", b'{"error":"\xff"}', None),
]


def lean_str(s):
    out = ""
    for ch in s:
        cp = ord(ch)
        if ch == '"':
            out += '\\"'
        elif ch == "\\":
            out += "\\\\"
        elif ch == "\n":
            out += "\\n"
        elif ch == "\t":
            out += "\\t"
        elif ch == "\r":
            out += "\\r"
        elif cp < 0x20 or cp == 0x7f:
            out += "\\x%02x" % cp
        else:
            out += ch
    return '"' + out + '"'


def lean_bytes(raw):
    """a Lean term of type `Bytes`: `strBytes "…"` for UTF-8 input, else pieces"""
    try:
        return "(strBytes " + lean_str(raw.decode("utf-8")) + ")"
    except UnicodeDecodeError:
        pass
    # split into maximal UTF-8 runs and raw bytes
    pieces, i, run = [], 0, b""
    while i < len(raw):
        done = False
        for n in (1, 2, 3, 4):
            try:
                raw[i:i + n].decode("utf-8")
                if len(raw[i:i + n]) == n:
                    run += raw[i:i + n]
                    i += n
                    done = True
                    break
            except UnicodeDecodeError:
                continue
        if not done:
            if run:
                pieces.append("strBytes " + lean_str(run.decode("utf-8")))
                run = b""
            pieces.append("[0x%02x]" % raw[i])
            i += 1
    if run:
        pieces.append("strBytes " + lean_str(run.decode("utf-8")))
    return "(" + " ++ ".join(pieces) + ")"


def lean_opt(m):
    return "none" if m is None else "some " + lean_str(m)


def main():
    ops = ["# Directed inputs for the wire format of cw20-ics20 (generated by tools/gen_wire_corpus.py; the same bytes are",
           "# decided by the model in lean/CwPlus/CwPlus/Props/Ics20WireExamples.lean).  p0 escrows 1000000 uatom on",
           "# channel-0; every packet below asks for 7 of them for p1 (or is undecodable); every acknowledgement below",
           "# is for a packet of 1 uatom sent by p0.",
           HEADER.format(tid="wire1"),
           f"inst gov=+{P[0]} timeout=3600 gas=- allow=",
           "ibc connect chan=channel-0 ver=ics20-1 cver=ics20-1 order=unordered",
           f"exec {P[0]} transfer funds=1000000|uatom chan=channel-0 to=remote0 timeout=- memo=-",
           f"exec {P[0]} transfer funds=5|uatom chan=channel-0 to=re%22mo%5Cte%0A timeout=- memo=a%22b%5Cc%0Ad%01%C3%A9",
           f"exec {P[0]} transfer funds=5|uatom chan=channel-0 to=%F0%9F%98%80 timeout=- memo=empty",
           f"exec {P[0]} transfer funds=5|uatom chan=channel-0 to=%7F%00%08%0C%0D%09%1F%2F timeout=- memo=%E6%97%A5%E6%9C%AC"]
    lean = ["import CwPlus.Base.Json",
            "/-!",
            "Directed inputs for the wire format of cw20-ics20, decided by `decide` (generated by",
            "`tools/gen_wire_corpus.py`; the same bytes are in `corpus/C12/wire_directed.ops`, where the real",
            "`from_json` gets them).  `.toOption = none` = the input is refused.",
            "-/",
            "namespace CwPlus.Props.Ics20WireExamples",
            "open CwPlus.Json",
            "",
            "set_option maxRecDepth 100000",
            ""]
    for name, comment, raw, exp in PACKETS:
        raw = b(raw)
        ops.append(f"# {name}" + (f": {comment}" if comment else "") + (" -> ok" if exp else " -> refused"))
        ops.append(f"ibc recv chan=channel-0 sport=transfer schan=channel-1 denom={D} amt=7 rcv=+{R} snd={S} tv=1 fail=0 data={raw.hex() or '-'}")
        lean.append(f"/-- `{name}`" + (f": {comment}" if comment else "") + " -/")
        if exp:
            a, d, r, s, m = exp
            lean.append(f"example : decodePacketBytes {lean_bytes(raw)} =\n    .ok ⟨{a}, {lean_str(d)}, {lean_str(r)}, {lean_str(s)}, {lean_opt(m)}⟩ := by decide")
        else:
            lean.append(f"example : (decodePacketBytes {lean_bytes(raw)}).toOption = none := by decide")
    for name, comment, raw, exp in ACKS:
        raw = b(raw)
        cls = "raw" if exp is None else ("1" if exp == "success" else "0")
        ops.append(f"# {name}" + (f": {comment}" if comment else "") + (" -> refused" if exp is None else f" -> {'success' if cls == '1' else 'error'}"))
        ops.append(f"ibc ack chan=channel-0 denom=uatom amt=1 snd=+{P[0]} rcv=remote0 memo=- tv=1 ok={cls} fail=0 ackdata={raw.hex() or '-'}")
        lean.append(f"/-- `{name}`" + (f": {comment}" if comment else "") + " -/")
        if exp is None:
            lean.append(f"example : (decodeAckBytes {lean_bytes(raw)}).toOption = none := by decide")
        elif exp == "success":
            lean.append(f"example : decodeAckBytes {lean_bytes(raw)} = .ok .success := by decide")
        else:
            lean.append(f"example : decodeAckBytes {lean_bytes(raw)} = .ok (.error {lean_str(exp)}) := by decide")
    lean += ["", "end CwPlus.Props.Ics20WireExamples", ""]
    os.makedirs(os.path.join(ROOT, "corpus", "C12"), exist_ok=True)
    open(os.path.join(ROOT, "corpus", "C12", "wire_directed.ops"), "w").write("\n".join(ops) + "\n")
    open(os.path.join(ROOT, "lean", "CwPlus", "CwPlus", "Props", "Ics20WireExamples.lean"), "w").write("\n".join(lean))
    print(f"{len(PACKETS)} packets, {len(ACKS)} acknowledgements")


if __name__ == "__main__":
    main()
