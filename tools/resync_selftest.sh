#!/bin/sh
# Self-test of the drivers' `resync` functions on the tree under /repo (no defect needed):
#   tools/resync_selftest.sh <scenario> [traces] [ops] [seed]
# generates traces, adds `forceresync=1` to every trace header (the runner then rebuilds the model from
# EVERY observation, not only after a disagreement) and runs the driver.  An exact `resync` changes no
# verdict: every trace must still be OK, with inexact=0.  Prints the offending lines and a summary.
cd "$(dirname "$0")/.."
SC="$1"; N="${2:-200}"; OPS="${3:-60}"; SEED="${4:-1}"
T=$(mktemp)
./harness/target/debug/cwverif-harness gen "$SC" --seed "$SEED" --traces "$N" --ops "$OPS" 2>/dev/null \
  | sed 's/^scenario .*/& forceresync=1/' | ./lean/CwPlus/.lake/build/bin/driver > "$T"
grep -E "^T [0-9]+ (DISAGREE|ERROR)" "$T" | cut -c1-400 | head -${SHOW:-10}
awk -v sc="$SC" '/^T [0-9]+ (OK|FINDINGS) /{n++; for(i=1;i<=NF;i++){ if($i ~ /^resyncs=/){split($i,a,"=");r+=a[2]} if($i ~ /^inexact=/){split($i,a,"=");x+=a[2]} } }
  /^T [0-9]+ DISAGREE/{d++} /^T [0-9]+ MONITOR/{m++} END{printf "%s: traces=%d resyncs=%d inexact=%d disagree_lines=%d monitor_lines=%d\n", sc,n,r,x,d,m}' "$T"
rm -f "$T"
