#!/bin/bash
# A/B comparison of the runner with and without re-synchronisation on one trace file (harness output,
# typically generated against a seeded change):   tools/resync_ab.sh <trace file> [driver binary]
# Checks (exit 1 if one fails): the MONITOR lines are identical; every DISAGREE line of the run without
# resync is also printed by the run with resync (resync hides nothing found before resynchronising).
# Prints the number of DISAGREE lines and of compared ops of both runs.
F="$1"; D="${2:-$(dirname "$0")/../lean/CwPlus/.lake/build/bin/driver}"
A=$(mktemp); B=$(mktemp)
"$D" < "$F" > "$A"
sed 's/^scenario .*/& noresync=1/' "$F" | "$D" > "$B"
rc=0
if ! diff <(grep " MONITOR " "$A") <(grep " MONITOR " "$B") >/dev/null 2>&1; then echo "MONITOR lines differ"; rc=1; fi
lost=$(grep " DISAGREE " "$B" | sort | comm -13 <(grep " DISAGREE " "$A" | sort) - | wc -l)
[ "$lost" = 0 ] || { echo "$lost DISAGREE lines of the no-resync run are missing with resync"; rc=1; }
cnt() { awk '/ (OK|FINDINGS) /{for(i=1;i<=NF;i++) if($i ~ /^compared=/){split($i,a,"=");c+=a[2]}} END{print c+0}' "$1"; }
echo "with resync:    monitor=$(grep -c ' MONITOR ' "$A") disagree=$(grep -c ' DISAGREE ' "$A") compared=$(cnt "$A")"
echo "without resync: monitor=$(grep -c ' MONITOR ' "$B") disagree=$(grep -c ' DISAGREE ' "$B") compared=$(cnt "$B")"
rm -f "$A" "$B"
exit $rc
