#!/bin/bash
# Which lines of /repo's contracts and packages do the correspondence runs execute?  (diagnostic, never a verdict)
# Builds the harness with `-C instrument-coverage` on the nightly toolchain (its llvm-tools match its LLVM), runs the
# random generator of every scenario, the small-scope enumerations and the corpus, and writes docs/coverage.txt:
# the per-file summary plus every line of /repo that was never executed.
#   tools/coverage.sh [traces per scenario, default 150]
set -e
N=${1:-150}
W=/work/cov; mkdir -p $W; cd /verif/harness
LLVM_PROFILE_FILE=$W/build-%m-%p.profraw CARGO_NET_OFFLINE=true CARGO_TARGET_DIR=$W/target RUSTFLAGS="-C instrument-coverage" cargo +nightly build --release --offline 2>&1 | tail -1
H=$W/target/release/cwverif-harness
B=$(dirname $(rustc +nightly --print target-libdir))/bin
rm -f $W/*.profraw; i=0   # (also the profiles instrumented build scripts / proc macros wrote while compiling)
for sc in $(grep -ho '^// SCENARIO [a-z0-9]*' /verif/harness/src/scen_*.rs | awk '{print $3}'); do
  i=$((i+1)); LLVM_PROFILE_FILE=$W/g$i.profraw $H gen $sc --seed 1 --traces $N --ops 40 > /dev/null 2>&1 &
  d=3; [ $sc = cw3lib ] && d=2
  LLVM_PROFILE_FILE=$W/e$i.profraw $H enum $sc --depth $d > /dev/null 2>&1 &
done; wait
for f in /verif/corpus/*/*.ops; do i=$((i+1)); grep -vE "^(>|obs|#)" $f | LLVM_PROFILE_FILE=$W/c$i.profraw $H replay > /dev/null 2>&1; done
$B/llvm-profdata merge -sparse $W/*.profraw -o $W/all.profdata
OUT=/verif/docs/coverage.txt; mkdir -p /verif/docs
{ echo "# Lines of /repo executed by the correspondence runs (tools/coverage.sh $N; random traces of every scenario, seed 1,"
  echo "# small-scope enumerations at the quick depth, corpus).  Diagnostic only: it shows what the tie exercises, not that it is right."
  $B/llvm-cov report $H -instr-profile=$W/all.profdata --ignore-filename-regex='(\.cargo|rustc|rustup|/verif/)' 2>/dev/null | awk 'NF>=10 && $1 != "Filename" {printf "%-60s lines=%s missed=%s cover=%s\n", $1, $(NF-5), $(NF-4), $(NF-3)}'
  echo; echo "# never executed (file:line)"
  for f in $(cd /repo && ls contracts/*/src/*.rs packages/*/src/*.rs | grep -v -E "/(bin|testing|integration_tests|multitest)/"); do
    $B/llvm-cov show $H -instr-profile=$W/all.profdata /repo/$f 2>/dev/null | grep -E "^ +[0-9]+\| +0\|" | sed "s#^ *\([0-9]*\)| *0|#$f:\1: #"
  done
} > $OUT
rm -f $W/*.profraw
grep -c . $OUT
