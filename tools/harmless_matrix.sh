#!/bin/bash
# False-alarm control: run ALL 20 checks against every behaviour-preserving change in /verif/harmless/<id>/patch.diff
# (applied to a scratch copy of /repo, never to /repo itself).  Any VIOLATION line is a false alarm.
#   tools/harmless_matrix.sh [slot] [id ...]        (slot: 1..4 = which scratch copy /work/mutrepoN + /work/mtN to use)
SLOT=${1:-1}; shift; [ "$SLOT" = 1 ] && SLOT=""; export SLOT
cd /verif
IDS="$@"; [ -z "$IDS" ] && IDS=$(ls harmless | grep -v README)
for id in $IDS; do
  P=/verif/harmless/$id/patch.diff
  out=$(tools/mutcheck.sh $P C01 C02 C03 C04 C05 C06 C07 C08 C09 C10 C11 C12 C13 C14 C15 C16 C17 C18 C19 C20 2>&1)
  v=$(echo "$out" | grep -E "^VIOLATION" | sed 's/replay=[^ ]*//' | sort | uniq -c | tr '\n' ';')
  n=$(echo "$out" | grep -cE "^C[0-9]+: theorems")
  echo "$id: checks=$n violations: ${v:-none}"
done
echo DONE
