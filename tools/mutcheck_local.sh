#!/bin/sh
# Run checks against a patched COPY of /repo (never /repo itself, other work may be building against it).
#   tools/mutcheck.sh <patch.diff|none> C01 C13 ...
# Uses /work/mutrepo_resync (detached worktree of /repo) and /work/mt_resync (rsync copy of /verif with the
# harness' path dependencies pointed at /work/mutrepo_resync; keeps its own build directories).
set -e
PATCH="$1"; shift
MR=/work/mutrepo_resync${SLOT:-}; MT=/work/mt_resync${SLOT:-}
[ -d $MR ] || git -C /repo worktree add -q --detach $MR HEAD
git -C $MR checkout -q --detach "$(git -C /repo rev-parse HEAD)"
git -C $MR checkout -q -- .
git -C $MR clean -fdq -e target
if [ "$PATCH" != none ]; then git -C $MR apply "$PATCH"; fi
mkdir -p $MT
rsync -a --delete --exclude .lake --exclude target --exclude run --exclude .git --exclude evidence ${SRC:-/work/resync}/ $MT/
sed -i "s#\"/repo/#\"$MR/#" $MT/harness/Cargo.toml
cd $MT
(cd lean/CwPlus && lake build driver >/dev/null 2>&1 || true)
rc=0
for id in "$@"; do
  VERIF_REPO=$MR ./check "$id" || rc=1
done
git -C $MR checkout -q -- .
exit $rc
