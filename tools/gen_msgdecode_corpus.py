#!/usr/bin/env python3
"""Directed inputs for the receiver-side decoders of Model/MsgWire.lean (`decodeReceive`, `decodeHook`,
`decodeTransfer`, `decodeTransferFrom`), written twice from ONE table of inputs:

  corpus/C09/msgdecode_directed.ops                        op `decode kind=… data=<hex>` of scenario `pkg`: the harness
                                                           runs the REAL `cosmwasm_std::from_json::<T>` on the bytes
  lean/CwPlus/CwPlus/Props/MsgWireDecodeExamples.lean      the model's verdict on the same bytes, by `decide`

The expectation of every case is what the real `from_json` answers: the generator replays the ops through the
harness binary (built against /repo) and writes that verdict into the Lean file; `decide` then checks that the model
meets it, and every `./check C09` replays the corpus file through harness *and* driver (field `out.res`).

  python3 tools/gen_msgdecode_corpus.py                    regenerate both files
  python3 tools/gen_msgdecode_corpus.py --fuzz N [SEED]    N random mutations of valid encodings → /tmp/msgdecode_fuzz.ops
                                                           (not committed; pipe through harness replay + driver)
"""
import itertools
import os
import random
import subprocess
import sys

ROOT = os.path.dirname(os.path.dirname(os.path.abspath(__file__)))
HBIN = os.path.join(ROOT, "harness", "target", "debug", "cwverif-harness")

CASES = []  # (kind, name, bytes, comment)


def b(x):
    return x if isinstance(x, bytes) else x.encode("utf-8")


def case(kind, name, data, comment=""):
    CASES.append((kind, name, b(data), comment))


def objtxt(fields, order=None, sep=",", colon=":"):
    """fields: list of (key text, raw value text)"""
    fs = fields if order is None else [fields[i] for i in order]
    return "{" + sep.join('"%s"%s%s' % (k, colon, v) for k, v in fs) + "}"


def wrap(variant, body):
    return '{"%s":%s}' % (variant, body)


# ----------------------------------------------------------------------------------------------- receive
def recv(sender='"s"', amount='"7"', msg='"YQ=="', order=None, extra=None, variant="receive", **kw):
    fs = [("sender", sender), ("amount", amount), ("msg", msg)]
    fs = [f for f in fs if f[1] is not None]
    if order is not None:
        fs = [fs[i] for i in order]
    for pos, k, v in (extra or []):
        fs.insert(pos, (k, v))
    return wrap(variant, objtxt(fs, **kw))


def build_receive():
    K = "receive"
    case(K, "canonical", recv(), "what `into_json_binary` writes")
    for p in itertools.permutations(range(3)):
        if p != (0, 1, 2):
            case(K, "perm_" + "".join(map(str, p)), recv(order=list(p)), "field order is free")
    for i, k in enumerate(["sender", "amount", "msg"]):
        v = {"sender": '"s"', "amount": '"7"', "msg": '"YQ=="'}[k]
        case(K, "dup_" + k, recv(extra=[(3, k, v)]), "a repeated field is an error")
        case(K, "missing_" + k, recv(**{k: None}), "no default: a missing field is an error")
        case(K, "null_" + k, recv(**{k: "null"}), "`null` is not a string")
    case(K, "unknown_scalar_last", recv(extra=[(3, "x", "1")]), "deny_unknown_fields")
    case(K, "unknown_scalar_first", recv(extra=[(0, "x", "1")]), "deny_unknown_fields")
    case(K, "unknown_nested", recv(extra=[(1, "x", '{"a":[1,{"b":null}],"sender":"t"}')]), "deny_unknown_fields, nested garbage")
    case(K, "unknown_array", recv(extra=[(2, "y", '[1,"two",[3],{}]')]), "deny_unknown_fields")
    case(K, "unknown_empty_key", recv(extra=[(3, "", '""')]), "the empty key is unknown too")
    for name, a in [("zero", '"0"'), ("double_zero", '"00"'), ("leading_zeros", '"007"'), ("plus", '"+7"'), ("minus", '"-7"'),
                    ("minus_zero", '"-0"'), ("fraction", '"7.0"'), ("exponent", '"7e0"'), ("space_before", '" 7"'),
                    ("space_after", '"7 "'), ("empty", '""'), ("u64_plus_1", '"18446744073709551616"'),
                    ("u128_max", '"340282366920938463463374607431768211455"'),
                    ("u128_max_plus_1", '"340282366920938463463374607431768211456"'),
                    ("huge", '"' + "9" * 60 + '"'), ("number", "7"), ("number_zero", "0"), ("hex", '"0x7"'),
                    ("arabic_digit", '"٧"'), ("underscore", '"1_000"'), ("escaped_digit", '"\\u0037"'),
                    ("bool", "true"), ("array", '["7"]'), ("plus_only", '"+"'), ("plus_leading_zero", '"+07"')]:
        case(K, "amount_" + name, recv(amount=a), "Uint128 is a decimal string (`str::parse::<u128>`)")
    for name, s in [("quote", r'"a\"b"'), ("backslash", r'"a\\b"'), ("solidus", r'"a\/b"'), ("bfnrt", r'"\b\f\n\r\t"'),
                    ("u0041", r'"\u0041"'), ("u00e9", r'"\u00e9"'), ("u00E9_upper", r'"\u00E9"'), ("pair", r'"\ud83d\ude00"'),
                    ("lone_high", r'"\ud800"'), ("lone_low", r'"\udc00"'), ("high_then_text", r'"\ud800x"'),
                    ("high_then_high", r'"\ud800\ud800"'), ("short_u", r'"\u12"'), ("bad_hex", r'"\u00zz"'),
                    ("bad_escape", r'"\q"'), ("escape_at_end", '"\\'), ("u0000", r'"\u0000"'), ("empty", '""'),
                    ("number", "5"), ("long", '"' + "x" * 80 + '"'), ("single_quotes", "'s'")]:
        case(K, "sender_" + name, recv(sender=s), "string escapes")
    for name, raw in [("ctrl_01", b'"a\x01b"'), ("raw_newline", b'"a\nb"'), ("raw_tab", b'"a\tb"'), ("del", b'"a\x7fb"'),
                      ("utf8_2", "\"é\"".encode()), ("utf8_3", "\"€\"".encode()), ("utf8_4", "\"\U0001F600\"".encode()),
                      ("bom_inside", "\"﻿x\"".encode()), ("invalid_ff", b'"a\xffb"'), ("overlong", b'"\xc0\xaf"'),
                      ("truncated_utf8", b'"\xe2\x82"'), ("surrogate_bytes", b'"\xed\xa0\x80"'), ("nul_byte", b'"a\x00b"')]:
        data = b'{"receive":{"sender":' + raw + b',"amount":"7","msg":"YQ=="}}'
        case(K, "sender_raw_" + name, data, "raw bytes inside a string")
    ws = recv(sep=" ,\t", colon=" :\n")
    case(K, "ws_everywhere", " \t\r\n" + ws.replace("{", "{ ").replace("}", " }") + " \n", "blank, tab, CR, LF are white space")
    case(K, "ws_formfeed", recv().replace(":{", ":\x0c{"), "form feed is not white space")
    case(K, "ws_vtab", "\x0b" + recv(), "vertical tab is not white space")
    case(K, "ws_bom_prefix", "﻿" + recv(), "a byte-order mark is not skipped")
    case(K, "ws_nbsp", recv().replace(":{", ": {"), "NBSP is not white space")
    can = recv()
    for n in sorted(set([0, 1, 2, 10, 11, 12, 13, 21, 22, 23, 24, 36, len(can) - 9, len(can) - 3, len(can) - 2, len(can) - 1])):
        case(K, "truncated_%d" % n, can[:n], "truncated input")
    for name, t in [("brace", "}"), ("text", " x"), ("newline", "\n"), ("nul", "\x00"), ("second_object", can), ("comma", ","),
                    ("blanks", "   \t\r\n")]:
        case(K, "trailing_" + name, can + t, "only white space may follow")
    body = objtxt([("sender", '"s"'), ("amount", '"7"'), ("msg", '"YQ=="')])
    for name, txt in [("capital", wrap("Receive", body)), ("blank_in_name", wrap("receive ", body)), ("transfer", wrap("transfer", body)),
                      ("hook", wrap("member_changed_hook", body)), ("empty_name", wrap("", body)),
                      ("unit_string", '"receive"'), ("array", "[" + can + "]"), ("empty_object", "{}"), ("null", "null"),
                      ("number", "1"), ("two_keys", '{"receive":%s,"x":1}' % body), ("two_variants", '{"receive":%s,"receive":%s}' % (body, body)),
                      ("trailing_comma", '{"receive":%s,}' % body), ("leading_comma", '{,"receive":%s}' % body),
                      ("no_colon", '{"receive"%s}' % body), ("value_string", wrap(K, '"x"')), ("value_array", wrap(K, "[%s]" % body)),
                      ("value_null", wrap(K, "null")), ("value_empty_object", wrap(K, "{}")), ("key_number", "{1:%s}" % body),
                      ("escaped_variant", '{"\\u0072eceive":%s}' % body), ("nothing", ""), ("blank_only", "  ")]:
        case(K, "outer_" + name, txt, "the enum wrapper")
    case(K, "escaped_field_key", recv().replace('"sender"', '"s\\u0065nder"'), "keys are unescaped before they are compared")
    case(K, "field_key_capital", recv().replace('"sender"', '"Sender"'), "keys are case sensitive")
    for name, txt in [("leading_comma", '{,"sender":"s","amount":"7","msg":"YQ=="}'), ("double_comma", '{"sender":"s",,"amount":"7","msg":"YQ=="}'),
                      ("trailing_comma", '{"sender":"s","amount":"7","msg":"YQ==",}'), ("missing_comma", '{"sender":"s" "amount":"7","msg":"YQ=="}'),
                      ("missing_colon", '{"sender" "s","amount":"7","msg":"YQ=="}'), ("colon_for_comma", '{"sender":"s":"amount":"7","msg":"YQ=="}'),
                      ("semicolon", '{"sender":"s";"amount":"7";"msg":"YQ=="}'), ("bracket_close", '{"sender":"s","amount":"7","msg":"YQ=="]'),
                      ("unquoted_key", '{sender:"s","amount":"7","msg":"YQ=="}'), ("missing_value", '{"sender":,"amount":"7","msg":"YQ=="}')]:
        case(K, "punct_" + name, wrap(K, txt), "object punctuation")
    for name, m in [("empty", '""'), ("pad2", '"YQ=="'), ("pad1_short", '"YQ="'), ("pad0", '"YQ"'), ("pad3", '"YQ==="'), ("one_symbol", '"Y"'),
                    ("two_bytes_pad", '"YWI="'), ("two_bytes_nopad", '"YWI"'), ("two_bytes_overpad", '"YWI=="'), ("three_bytes", '"YWJj"'),
                    ("three_bytes_pad", '"YWJj="'), ("trailing_bits_1", '"YR=="'), ("trailing_bits_2", '"YWJ="'),
                    ("trailing_bits_nopad", '"YR"'), ("pad_inside", '"YW=I"'), ("pad_first", '"=YQ="'), ("blank_inside", '"Y Q=="'),
                    ("newline_escape", '"YQ==\\n"'), ("urlsafe", '"YQ-_"'), ("plus_slash", '"+/+/"'), ("escaped_symbol", '"Y\\u0051=="'),
                    ("two_groups_padded", '"YQ==YQ=="'), ("only_padding", '"=="'), ("five_symbols", '"YWJjZ"'), ("six_symbols", '"YWJjZA"'),
                    ("seven_symbols", '"YWJjZGU"'), ("eight_symbols", '"YWJjZGVm"'), ("non_ascii", '"YQé="'), ("number", "1"),
                    ("array_of_bytes", "[97]"), ("star", '"YQ*="'), ("long", '"' + "QUJD" * 12 + '"')]:
        case(K, "b64_" + name, recv(msg=m), "Binary = base64, STANDARD alphabet, padding optional, trailing bits refused")


# ----------------------------------------------------------------------------------------------- hook
def diff(key='"a"', old="1", new="2", order=None, extra=None):
    fs = [("key", key), ("old", old), ("new", new)]
    fs = [f for f in fs if f[1] is not None]
    if order is not None:
        fs = [fs[i] for i in order]
    for pos, k, v in (extra or []):
        fs.insert(pos, (k, v))
    return objtxt(fs)


def hook(diffs_txt, variant="member_changed_hook"):
    return wrap(variant, '{"diffs":%s}' % diffs_txt)


def build_hook():
    K = "hook"
    case(K, "no_diffs", hook("[]"), "an empty list is a message")
    case(K, "one_diff", hook("[" + diff() + "]"))
    case(K, "three_diffs", hook("[" + ",".join([diff('"bob"', "null", "5"), diff('"al"', "18446744073709551615", "null"), diff('"x"', "0", "10")]) + "]"))
    case(K, "eight_diffs", hook("[" + ",".join(diff('"m%d"' % i, str(i), str(i * i)) for i in range(8)) + "]"), "a bulk update")
    for p in itertools.permutations(range(3)):
        if p != (0, 1, 2):
            case(K, "perm_" + "".join(map(str, p)), hook("[" + diff(order=list(p)) + "]"), "field order is free")
    for name, v in [("null", "null"), ("absent", None), ("zero", "0"), ("one", "1"), ("u64_max", "18446744073709551615"),
                    ("u64_max_plus_1", "18446744073709551616"), ("u64_overflow_mul", "184467440737095516150"), ("leading_zero", "07"),
                    ("double_zero", "00"), ("minus_one", "-1"), ("minus_zero", "-0"), ("fraction", "1.0"), ("fraction_zero", "0.5"),
                    ("exponent", "1e2"), ("exponent_upper", "1E2"), ("string", '"7"'), ("plus", "+1"), ("true", "true"), ("hex", "0x1"),
                    ("underscore", "1_000"), ("nul", "nul"), ("null_upper", "NULL"), ("nullx", "nullx"), ("empty_object", "{}"),
                    ("array", "[1]"), ("blank_number", " 7 "), ("twenty_digits", "99999999999999999999")]:
        case(K, "old_" + name, hook("[" + diff(old=v) + "]"), "`Option<u64>`: `null`, absent or a JSON number")
        if name in ("null", "absent", "u64_max", "u64_max_plus_1", "leading_zero", "string", "minus_one"):
            case(K, "new_" + name, hook("[" + diff(new=v) + "]"), "`Option<u64>`")
    case(K, "old_new_absent", hook('[{"key":"a"}]'), "both weights absent")
    case(K, "number_then_brace", hook('[{"key":"a","new":2,"old":1}]'), "a number ends at `}`")
    case(K, "dup_old", hook("[" + diff(extra=[(3, "old", "1")]) + "]"), "a repeated field is an error")
    case(K, "dup_old_null", hook("[" + diff(old="null", extra=[(3, "old", "null")]) + "]"), "also when both are `null`")
    case(K, "dup_key", hook("[" + diff(extra=[(1, "key", '"a"')]) + "]"))
    case(K, "missing_key", hook('[{"old":1,"new":2}]'), "`key` is required")
    case(K, "empty_element", hook("[{}]"), "`key` is required")
    case(K, "key_null", hook("[" + diff(key="null") + "]"))
    case(K, "key_number", hook("[" + diff(key="1") + "]"))
    case(K, "key_escapes", hook("[" + diff(key=r'"a\"b\\cé😀"') + "]"))
    case(K, "key_empty", hook("[" + diff(key='""') + "]"))
    case(K, "unknown_field", hook("[" + diff(extra=[(3, "weight", "1")]) + "]"), "deny_unknown_fields")
    case(K, "unknown_field_nested", hook("[" + diff(extra=[(0, "x", '{"key":"b"}')]) + "]"), "deny_unknown_fields")
    d = diff()
    for name, seq in [("leading_comma", "[," + d + "]"), ("leading_comma_ws", "[ , " + d + " ]"), ("two_leading_commas", "[,," + d + "]"),
                      ("trailing_comma", "[" + d + ",]"), ("double_comma", "[" + d + ",," + d + "]"), ("missing_comma", "[" + d + " " + d + "]"),
                      ("only_comma", "[,]"), ("unclosed", "[" + d), ("unclosed_empty", "["), ("extra_close", "[]]"), ("brace_close", "[" + d + "}"),
                      ("null", "null"), ("object", "{}"), ("string", '"[]"'), ("number", "0"), ("nested_array", "[[" + d + "]]"),
                      ("element_number", "[1]"), ("element_string", '["a"]'), ("element_null", "[null]"), ("ws", " [ " + d + " , " + d + " ] "),
                      ("colon_sep", "[" + d + ":" + d + "]")]:
        case(K, "seq_" + name, hook(seq), "`Vec<MemberDiff>`")
    case(K, "diffs_absent", wrap("member_changed_hook", "{}"), "`diffs` is required")
    case(K, "diffs_dup", wrap("member_changed_hook", '{"diffs":[],"diffs":[]}'))
    case(K, "diffs_unknown_sibling", wrap("member_changed_hook", '{"diffs":[],"x":1}'), "deny_unknown_fields")
    can = hook("[" + d + "]")
    for n in sorted(set([1, 2, 22, 23, 24, 25, 33, 34, 35, 42, 48, 55, len(can) - 4, len(can) - 3, len(can) - 2, len(can) - 1])):
        case(K, "truncated_%d" % n, can[:n], "truncated input")
    for name, t in [("brace", "}"), ("bracket", "]"), ("text", "x"), ("blanks", " \n")]:
        case(K, "trailing_" + name, can + t)
    case(K, "outer_receive", hook("[]", variant="receive"), "another variant name")
    case(K, "outer_camel", hook("[]", variant="MemberChangedHook"), "snake_case only")
    case(K, "outer_unit_string", '"member_changed_hook"')
    case(K, "outer_value_array", wrap("member_changed_hook", "[]"))
    case(K, "ws_everywhere", ' {\n"member_changed_hook"\t: { "diffs" :\r[ { "key" : "a" , "old" : 1 , "new" : null } ] } } ')


# ----------------------------------------------------------------------------------------------- transfer / transfer_from
def xfer(recipient='"r"', amount='"5"', order=None, extra=None, variant="transfer"):
    fs = [("recipient", recipient), ("amount", amount)]
    fs = [f for f in fs if f[1] is not None]
    if order is not None:
        fs = [fs[i] for i in order]
    for pos, k, v in (extra or []):
        fs.insert(pos, (k, v))
    return wrap(variant, objtxt(fs))


def xferfrom(owner='"o"', recipient='"r"', amount='"5"', order=None, extra=None, variant="transfer_from"):
    fs = [("owner", owner), ("recipient", recipient), ("amount", amount)]
    fs = [f for f in fs if f[1] is not None]
    if order is not None:
        fs = [fs[i] for i in order]
    for pos, k, v in (extra or []):
        fs.insert(pos, (k, v))
    return wrap(variant, objtxt(fs))


def build_transfer():
    K = "transfer"
    case(K, "canonical", xfer())
    case(K, "swapped", xfer(order=[1, 0]), "field order is free")
    case(K, "dup_recipient", xfer(extra=[(2, "recipient", '"r"')]))
    case(K, "dup_amount", xfer(extra=[(0, "amount", '"5"')]))
    case(K, "missing_recipient", xfer(recipient=None))
    case(K, "missing_amount", xfer(amount=None))
    case(K, "empty_body", wrap(K, "{}"))
    case(K, "unknown_owner", xfer(extra=[(0, "owner", '"o"')]), "a `TransferFrom` body under the name `transfer`: deny_unknown_fields")
    case(K, "unknown_msg", xfer(extra=[(2, "msg", '""')]))
    case(K, "recipient_null", xfer(recipient="null"))
    case(K, "recipient_number", xfer(recipient="1"))
    case(K, "recipient_empty", xfer(recipient='""'), "no address check in `from_json`")
    case(K, "recipient_escapes", xfer(recipient=r'"\u0041\n\"\\\/\ud83d\ude00"'))
    for name, a in [("zero", '"0"'), ("plus_leading_zero", '"+05"'), ("minus", '"-5"'), ("number", "5"), ("null", "null"), ("empty", '""'),
                    ("u128_max", '"340282366920938463463374607431768211455"'), ("u128_max_plus_1", '"340282366920938463463374607431768211456"'),
                    ("fraction", '"5.0"'), ("blank", '" 5"')]:
        case(K, "amount_" + name, xfer(amount=a))
    case(K, "variant_transfer_from", xferfrom(), "another variant of the same enum: not this call")
    case(K, "variant_burn", '{"burn":{"amount":"5"}}', "another variant")
    case(K, "variant_send", '{"send":{"contract":"c","amount":"5","msg":""}}', "another variant")
    case(K, "variant_unknown", '{"transfer_to":{"recipient":"r","amount":"5"}}')
    case(K, "variant_capital", xfer(variant="Transfer"))
    case(K, "variant_unit_string", '"transfer"', "a struct variant given as a bare string")
    case(K, "variant_two", '{"transfer":{"recipient":"r","amount":"5"},"burn":{"amount":"5"}}')
    case(K, "value_array", wrap(K, '["r","5"]'), "a struct variant as a sequence")
    case(K, "value_null", wrap(K, "null"))
    can = xfer()
    for n in sorted(set([1, 2, 11, 12, 13, 25, 26, 30, len(can) - 3, len(can) - 2, len(can) - 1])):
        case(K, "truncated_%d" % n, can[:n])
    for name, t in [("brace", "}"), ("text", " x"), ("blanks", " \r\n\t")]:
        case(K, "trailing_" + name, can + t)
    case(K, "ws_everywhere", ' { "transfer" : { "amount" : "5" , "recipient" : "r" } } ')
    case(K, "trailing_comma_inner", '{"transfer":{"recipient":"r","amount":"5",}}')
    case(K, "trailing_comma_outer", '{"transfer":{"recipient":"r","amount":"5"},}')

    K = "transfer_from"
    case(K, "canonical", xferfrom())
    for p in itertools.permutations(range(3)):
        if p != (0, 1, 2):
            case(K, "perm_" + "".join(map(str, p)), xferfrom(order=list(p)))
    for k in ["owner", "recipient", "amount"]:
        case(K, "missing_" + k, xferfrom(**{k: None}))
        case(K, "dup_" + k, xferfrom(extra=[(3, k, '"5"')]))
        case(K, "null_" + k, xferfrom(**{k: "null"}))
    case(K, "unknown_field", xferfrom(extra=[(1, "spender", '"x"')]))
    case(K, "variant_transfer", xfer(), "another variant: not this call")
    case(K, "variant_prefix", xferfrom(variant="transfer_fro"))
    case(K, "variant_send_from", '{"send_from":{"owner":"o","contract":"c","amount":"5","msg":""}}')
    case(K, "amount_u128_max", xferfrom(amount='"340282366920938463463374607431768211455"'))
    case(K, "amount_u128_max_plus_1", xferfrom(amount='"340282366920938463463374607431768211456"'))
    case(K, "amount_number", xferfrom(amount="5"))
    case(K, "owner_escapes", xferfrom(owner=r'"é\t"', recipient='"€"'))
    can = xferfrom()
    for n in sorted(set([1, 16, 17, 18, 28, 45, len(can) - 2, len(can) - 1])):
        case(K, "truncated_%d" % n, can[:n])
    case(K, "trailing_text", can + "x")
    case(K, "trailing_blanks", can + "  ")
    case(K, "ws_everywhere", '\n{\n "transfer_from": {\n  "owner": "o",\n  "recipient": "r",\n  "amount": "5"\n }\n}\n')


# ----------------------------------------------------------------------------------------------- output
def op_line(kind, data):
    return "decode kind=%s data=%s" % (kind, data.hex() if data else "-")


def run_harness(ops):
    r = subprocess.run([HBIN, "replay"], input=("\n".join(ops) + "\n").encode(), stdout=subprocess.PIPE, stderr=subprocess.PIPE, check=True)
    return [l for l in r.stdout.decode().splitlines() if l.startswith(">")]


def text_dec(s):
    if s == "empty":
        return ""
    out = bytearray()
    i = 0
    while i < len(s):
        if s[i] == "%":
            out.append(int(s[i + 1:i + 3], 16))
            i += 3
        else:
            out += s[i].encode()
            i += 1
    return out.decode("utf-8")


def lean_str(s):
    out = '"'
    for ch in s:
        cp = ord(ch)
        if ch == '"':
            out += '\\"'
        elif ch == "\\":
            out += "\\\\"
        elif cp < 0x20 or cp == 0x7f:
            out += "\\x%02x" % cp
        elif cp < 0x7f:
            out += ch
        elif cp <= 0xffff and (cp < 0xa1 or 0x2000 <= cp <= 0x206f or cp >= 0xfe00):
            out += "\\u%04x" % cp
        else:
            out += ch
    return out + '"'


def lean_bytes(data):
    if all(0x20 <= c < 0x7f for c in data):
        return "(strBytes %s)" % lean_str(data.decode())
    return "[" + ", ".join("0x%02x" % c for c in data) + "]"


def lean_opt(x):
    return "none" if x == "-" else "some %s" % x


def lean_expect(kind, res):
    """the Lean value of a harness verdict `ok/…`"""
    p = res.split("/")
    if kind == "receive":
        msg = bytes.fromhex(p[3]) if p[3] != "-" else b""
        return "⟨%s, %s, %s⟩" % (lean_str(text_dec(p[1])), p[2], lean_bytes(msg) if msg else "[]")
    if kind == "hook":
        if p[1] == "-":
            return "[]"
        ds = []
        for d in p[1].split("+"):
            k, o, n = d.split(":")
            ds.append("⟨%s, %s, %s⟩" % (lean_str(text_dec(k)), lean_opt(o), lean_opt(n)))
        return "[" + ", ".join(ds) + "]"
    if kind == "transfer":
        return "⟨%s, %s⟩" % (lean_str(text_dec(p[1])), p[2])
    return "⟨%s, %s, %s⟩" % (lean_str(text_dec(p[1])), lean_str(text_dec(p[2])), p[3])


FN = {"receive": "decodeReceive", "hook": "decodeHook", "transfer": "decodeTransfer", "transfer_from": "decodeTransferFrom"}
TY = {"receive": "Receive", "hook": "List MemberDiff", "transfer": "Transfer", "transfer_from": "TransferFrom"}


def main():
    build_receive()
    build_hook()
    build_transfer()
    names = set()
    for k, n, _, _ in CASES:
        assert (k, n) not in names, (k, n)
        names.add((k, n))
    ops = [op_line(k, d) for k, _, d, _ in CASES]
    header = "scenario pkg seed=1 trace=msgdecode1"
    verdicts = run_harness([header] + ops)
    assert len(verdicts) == len(CASES), (len(verdicts), len(CASES))
    out = ["# Directed inputs for the receiver-side decoders of Model/MsgWire.lean (generated by tools/gen_msgdecode_corpus.py;",
           "# the same bytes are decided by the model in lean/CwPlus/CwPlus/Props/MsgWireDecodeExamples.lean).  Every op hands",
           "# the bytes to the REAL `from_json::<T>` (T = a `#[cw_serde]` receiver enum / `cw20::Cw20ExecuteMsg`).",
           header]
    lean = ["import CwPlus.Model.MsgWire", "/-!",
            "Directed inputs for the receiver-side decoders of `Model/MsgWire.lean`, decided by `decide` (generated by",
            "`tools/gen_msgdecode_corpus.py`; the same bytes are in `corpus/C09/msgdecode_directed.ops`, where the real",
            "`from_json` gets them: scenario `pkg`, op `decode`).  The expectation of every example is the verdict of the real",
            "`from_json` at generation time; `.toOption = none` = the input is refused.", "-/",
            "namespace CwPlus.Props.MsgWireDecodeExamples", "open CwPlus.Json CwPlus.MsgWire", "", "set_option maxRecDepth 1000000", ""]
    nok = 0
    for (kind, name, data, comment), v in zip(CASES, verdicts):
        assert v.startswith("> ok res="), v
        res = v[len("> ok res="):]
        assert res != "panic", (kind, name)
        out.append("# %s/%s%s" % (kind, name, (": " + comment) if comment else ""))
        out.append(op_line(kind, data))
        doc = "/-- `%s/%s`%s -/" % (kind, name, (": " + comment) if comment else "")
        if res == "err":
            lean.append(doc)
            lean.append("example : (%s %s).toOption = none := by decide" % (FN[kind], lean_bytes(data)))
        else:
            nok += 1
            lean.append(doc)
            lean.append("example : %s %s =\n    .ok (%s : %s) := by decide" % (FN[kind], lean_bytes(data), lean_expect(kind, res), TY[kind]))
    lean += ["", "end CwPlus.Props.MsgWireDecodeExamples", ""]
    os.makedirs(os.path.join(ROOT, "corpus", "C09"), exist_ok=True)
    open(os.path.join(ROOT, "corpus", "C09", "msgdecode_directed.ops"), "w").write("\n".join(out) + "\n")
    open(os.path.join(ROOT, "lean", "CwPlus", "CwPlus", "Props", "MsgWireDecodeExamples.lean"), "w").write("\n".join(lean))
    per = {}
    for k, _, _, _ in CASES:
        per[k] = per.get(k, 0) + 1
    print("cases", len(CASES), per, "accepted by from_json:", nok)


def fuzz(n, seed):
    build_receive()
    build_hook()
    build_transfer()
    rng = random.Random(seed)
    pool = [(k, d) for k, _, d, _ in CASES]
    alphabet = b'{}[]":,\\ \n0123456789+-.eEnul=AQ/u\x00\xff\xc3\xa9trfs_'
    ops = ["scenario pkg seed=%d trace=msgdecodefuzz" % seed]
    for _ in range(n):
        k, d = rng.choice(pool)
        d = bytearray(d)
        for _ in range(rng.choice([1, 1, 1, 2, 3])):
            m = rng.randrange(6)
            pos = rng.randrange(len(d) + 1)
            if m == 0 and d:
                d[pos % len(d)] = rng.choice(alphabet)
            elif m == 1 and d:
                del d[pos % len(d)]
            elif m == 2:
                d.insert(pos, rng.choice(alphabet))
            elif m == 3 and d:
                a = rng.randrange(len(d))
                e = min(len(d), a + rng.randrange(1, 12))
                d[pos:pos] = d[a:e]
            elif m == 4 and len(d) > 1:
                a = rng.randrange(len(d))
                e = min(len(d), a + rng.randrange(1, 8))
                del d[a:e]
            elif m == 5:
                k = rng.choice(["receive", "hook", "transfer", "transfer_from"]) if rng.random() < 0.1 else k
        ops.append(op_line(k, bytes(d)))
    open("/tmp/msgdecode_fuzz.ops", "w").write("\n".join(ops) + "\n")
    print("wrote /tmp/msgdecode_fuzz.ops", len(ops) - 1)


if __name__ == "__main__":
    if len(sys.argv) > 1 and sys.argv[1] == "--fuzz":
        fuzz(int(sys.argv[2]), int(sys.argv[3]) if len(sys.argv) > 3 else 1)
    else:
        main()
