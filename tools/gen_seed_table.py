#!/usr/bin/env python3
"""Write seeded/README.md: one row per kept seeded change (from the meta.json files)."""
import json, glob, os
ROOT = os.path.dirname(os.path.dirname(os.path.abspath(__file__)))
rows = []
for f in sorted(glob.glob(os.path.join(ROOT, "seeded", "*", "meta.json"))):
    m = json.load(open(f))
    lf = m.get("last_full_run", {})
    rows.append(f"| {m['id']} | {m['property']} | {m['needs_to_manifest']} | {m['detected_by']} | {lf.get('verdict', '-')} |")
with open(os.path.join(ROOT, "seeded", "README.md"), "w") as o:
    o.write("# Seeded changes\n\nEach directory holds `patch.diff` (a change to /repo that breaks the property, compiles, and keeps the\n"
            "existing suite green), `demo.rs` (fails with the change, passes without), `notes.md` (the author's notes) and\n"
            "`meta.json`. The changes were written by sub-agents that saw only the property text and a scratch worktree\n"
            "of /repo; each was confirmed with `tools/confirm_seed.sh` and run against the checks with `tools/mutcheck.sh`\n"
            "(a patched *copy* of /repo). To repeat on /repo itself: `git -C /repo apply seeded/<id>/patch.diff; ./check <Cxx>;\n"
            "git -C /repo checkout -- .`\n\n| id | property | what it needs to manifest | which check catches it | own property's quick check, last full run |\n|---|---|---|---|---|\n")
    o.write("\n".join(rows) + "\n")
print(len(rows), "seeds")
