#!/bin/sh
# Confirm a seeded change in the scratch worktree /work/mutrepo:
#   tools/confirm_seed.sh <dir with patch.diff demo.rs> <demo path in repo> <crate>
# prints: suite_with_patch=<pass/fail counts> demo_with_patch=FAIL|PASS demo_without_patch=PASS|FAIL
D="$1"; DEMO="$2"; CRATE="$3"
MR=/work/mutrepo${SLOT:-}
[ -d $MR ] || git -C /repo worktree add -q --detach $MR HEAD
git -C $MR checkout -q --detach "$(git -C /repo rev-parse HEAD)"; git -C $MR checkout -q -- .; git -C $MR clean -fdq -e target
T=$(basename "$DEMO" .rs)
cd $MR
git apply "$D/patch.diff" || { echo "patch does not apply"; exit 2; }
SUITE=$(CARGO_NET_OFFLINE=true cargo test --workspace --offline 2>&1 | awk '/^test result/{p+=$4; f+=$6} /^error/{e=1} END {print "passed=" p " failed=" f (e? " COMPILE-ERROR":"")}')
mkdir -p "$(dirname "$DEMO")"; cp "$D/demo.rs" "$DEMO"
if CARGO_NET_OFFLINE=true cargo test -p "$CRATE" --test "$T" --offline >/dev/null 2>&1; then WITH=PASS; else WITH=FAIL; fi
git checkout -q -- contracts packages
if CARGO_NET_OFFLINE=true cargo test -p "$CRATE" --test "$T" --offline >/dev/null 2>&1; then WITHOUT=PASS; else WITHOUT=FAIL; fi
rm -f "$DEMO"; git checkout -q -- .; git clean -fdq -e target
echo "suite_with_patch: $SUITE; demo_with_patch=$WITH demo_without_patch=$WITHOUT"
