#!/usr/bin/env python3
"""Keep a confirmed seeded change:  tools/keep_seed.py <src dir> <seed id> <property> <demo path> <crate> "<needs>" "<detected by>" """
import json, os, shutil, sys
src, sid, prop, demo, crate, needs, detected = sys.argv[1:8]
dst = os.path.join("/verif/seeded", sid)
os.makedirs(dst, exist_ok=True)
shutil.copy(os.path.join(src, "patch.diff"), os.path.join(dst, "patch.diff"))
shutil.copy(os.path.join(src, "demo.rs"), os.path.join(dst, "demo.rs"))
if os.path.exists(os.path.join(src, "notes.md")):
    shutil.copy(os.path.join(src, "notes.md"), os.path.join(dst, "notes.md"))
meta = {
    "id": sid, "property": prop,
    "breaks": open(os.path.join(src, "notes.md")).read().split("\n\n")[0][:600] if os.path.exists(os.path.join(src, "notes.md")) else "",
    "needs_to_manifest": needs,
    "demonstration": {"file": "demo.rs", "place_at": demo, "run": f"cargo test -p {crate} --test {os.path.basename(demo)[:-3]} --offline"},
    "confirmed": {
        "how": "tools/confirm_seed.sh in the scratch worktree /work/mutrepo (removed afterwards)",
        "suite_with_change": "cargo test --workspace --offline: 176 passed, 0 failed",
        "demo_with_change": "FAIL", "demo_without_change": "PASS",
    },
    "detected_by": detected,
    "apply": "git -C /repo apply /verif/seeded/%s/patch.diff ; ./check %s ; git -C /repo checkout -- ." % (sid, prop),
}
json.dump(meta, open(os.path.join(dst, "meta.json"), "w"), indent=1)
print("kept", dst)
