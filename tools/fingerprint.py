#!/usr/bin/env python3
"""Source fingerprints of the /repo directories each scenario exercises.
   tools/fingerprint.py --update   rewrite fingerprints.json from /repo's current tree (after reviewing the models)
The check compares them on every run: a scenario whose sources changed since the models were last reviewed gets a
4x trace budget in the quick tier and the changed files are listed in the evidence. Never a verdict."""
import hashlib, json, os, sys
ROOT = os.path.dirname(os.path.dirname(os.path.abspath(__file__)))
SCEN_DIRS = {
    "cw20": ["contracts/cw20-base/src", "packages/cw20/src"],
    "cw1wl": ["contracts/cw1-whitelist/src", "packages/cw1/src"],
    "cw1sk": ["contracts/cw1-subkeys/src", "contracts/cw1-whitelist/src", "packages/cw1/src"],
    "cw3lib": ["packages/cw3/src"],
    "cw3fixed": ["contracts/cw3-fixed-multisig/src", "packages/cw3/src"],
    "cw3flex": ["contracts/cw3-flex-multisig/src", "packages/cw3/src", "packages/cw4/src", "contracts/cw4-group/src",
                "contracts/cw20-base/src", "packages/cw20/src"],
    "cw4group": ["contracts/cw4-group/src", "packages/cw4/src"],
    "cw4stake": ["contracts/cw4-stake/src", "packages/cw4/src", "contracts/cw20-base/src", "packages/cw20/src"],
    "ics20": ["contracts/cw20-ics20/src", "contracts/cw20-base/src", "packages/cw20/src"],
}

def scen_key(name):
    return name[:-4] if name.endswith("wide") else name

def hashes(repo, dirs):
    out = {}
    for d in dirs:
        p = os.path.join(repo, d)
        if not os.path.isdir(p):
            continue
        for f in sorted(os.listdir(p)):
            if f.endswith(".rs"):
                out[os.path.join(d, f)] = hashlib.sha256(open(os.path.join(p, f), "rb").read()).hexdigest()[:16]
    return out

def changed_files(repo, scen):
    """files of this scenario whose content differs from the recorded fingerprint"""
    fp = os.path.join(ROOT, "fingerprints.json")
    if not os.path.exists(fp):
        return []
    rec = json.load(open(fp))
    cur = hashes(repo, SCEN_DIRS.get(scen_key(scen), []))
    return sorted(f for f in set(cur) | {k for k in rec if any(k.startswith(d + "/") for d in SCEN_DIRS.get(scen_key(scen), []))}
                  if cur.get(f) != rec.get(f))

if __name__ == "__main__":
    if "--update" in sys.argv:
        allh = {}
        for dirs in SCEN_DIRS.values():
            allh.update(hashes("/repo", dirs))
        json.dump(allh, open(os.path.join(ROOT, "fingerprints.json"), "w"), indent=0, sort_keys=True)
        print(len(allh), "files fingerprinted")
    else:
        for s in SCEN_DIRS:
            print(s, changed_files("/repo", s))
