#!/bin/bash
# Process one seeded-change candidate written by an author agent:
#   tools/round.sh <slot> <out dir with patch.diff demo.rs notes.md> <property> [extra properties to run ...]
# 1. confirm (tools/confirm_seed.sh in /work/mutrepo<slot>): suite green with the change, demo fails with / passes without;
# 2. run the property's quick check against a patched copy (tools/mutcheck.sh);
# prints one summary line and writes <out dir>/result.txt (confirm line, check verdict, monitors / disagreements).
SLOT=$1; D=$2; P=$3; shift 3; EXTRA="$@"
export SLOT
cd /verif
DEMO=$(grep -ohE '(contracts|packages)/[A-Za-z0-9_-]+/tests/[A-Za-z0-9_]+\.rs' $D/notes.md | head -1)
CRATE=$(echo "$DEMO" | cut -d/ -f2)
{
  echo "demo=$DEMO crate=$CRATE"
  if [ ! -f $D/confirm.txt ]; then tools/confirm_seed.sh $D $DEMO $CRATE > $D/confirm.txt 2>&1; fi
  cat $D/confirm.txt
  for id in $P $EXTRA; do
    out=$(tools/mutcheck.sh $D/patch.diff $id 2>&1)
    echo "$out" | grep -E "^(VIOLATION|KNOWN-FINDING|$id:)" | sed 's/^/  /'
    ev=/work/mt$SLOT/evidence/$id.json
    python3 - "$ev" <<'E'
import json,sys
try:
    e=json.load(open(sys.argv[1]))
except Exception as x:
    print("  no evidence", x); sys.exit()
for v in e.get("violations", []):
    print("   viol:", json.dumps(v)[:700])
for v in e["coverage"].get("model_drift_outside_slice", [])[:6]:
    print("   drift:", json.dumps(v)[:300])
E
  done
} > $D/result.txt 2>&1
echo "$D: $(grep -h 'suite_with_patch' $D/confirm.txt) | $(grep -cE '^  VIOLATION' $D/result.txt) violation lines | $(grep -E '^  VIOLATION' $D/result.txt | grep -c no-failing-input-found) nfi"
