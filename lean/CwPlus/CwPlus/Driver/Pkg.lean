import CwPlus.Driver.Common
import CwPlus.Driver.Cw20
import CwPlus.Model.Pkg
import CwPlus.Model.MsgWire
/-!
Scenario `pkg`: direct evaluations of the library / helper code of `/repo/packages`, of
`contracts/cw4-group/src/helpers.rs` and of `contracts/cw20-ics20/src/amount.rs` (`Model/Pkg.lean`) on
generated inputs.  Stateless: every op line is one evaluation, there are no observation lines.

Op lines (texts are percent-encoded, `-` = `None` / empty list; see `harness/src/scen_pkg.rs`):

    coin addr=<t> amount=<n>
    balance src=default | src=cw20 addr=<t> amount=<n> | src=coins coins=<d:a,d:a,…>
    denom kind=default|native|cw20 s=<t>
    amount ctor=native|cw20|parts a=<n> s=<t>
    call20 c=<t> f=<Cw20ExecuteMsg variant> r= o= amt= exp= data= m= p= d=
    cw3 c=<t> via=helper|encode f=vote|execute|close|propose id= vote= title= desc= msgs= earliest= latest=
    cw4 c=<t> f=add_hook|remove_hook|update_admin a=<t>
    cw4g c=<t> remove=<t,t> add=<t:w,t:w>
    cw1 c=<t> msgs=<bank/to/coins;wasm/contract/hex/coins>
    q20 c=<t> f=balance|meta|allowance|minter|has_allowance|is_mintable a=<t> b=<t> reply=<reply>
    q4 c=<t> f=hooks|admin reply=<reply>
    intochecked kind=native|cw20 s=<+t|-t> reply=<reply>
-/
-- SCENARIO pkg Pkg.scen
namespace CwPlus.Driver.Pkg
open CwPlus Wire Driver CwPlus.Pkg
open CwPlus.Driver.Cw20 (textEnc textDec optTextEnc hexBytes hexDigit)

def items (s : String) (sep : String) : List String :=
  if s == "" || s == "-" then [] else s.splitOn sep

def parseCoin (x : String) : Coin :=
  match x.splitOn ":" with
  | d :: a :: _ => (textDec d, a.toNat?.getD 0)
  | [d] => (textDec d, 0)
  | [] => ("", 0)

def parseCoins (s : String) (sep : String) : List Coin := (items s sep).map parseCoin

def renderCoins (cs : List Coin) (sep : String) : String :=
  if cs.isEmpty then "-" else sep.intercalate (cs.map fun c => s!"{textEnc c.1}:{c.2}")

def renderTexts (xs : List String) (sep : String) : String :=
  if xs.isEmpty then "-" else sep.intercalate (xs.map textEnc)

def parseHex (s : String) : Json.Bytes :=
  if s == "-" then [] else (hexBytes s.toList).map UInt8.ofNat

/-- payload bytes as the harness prints them: the UTF-8 text, percent-encoded -/
def bytesText (b : Json.Bytes) : String := textEnc ((Json.strOfBytes b).getD "?")

def optText (a : Args) (k : String) : Option String := (a.optStr k).map textDec

def parseCosmos (s : String) : List CosmosMsg :=
  (items s ";").map fun m =>
    match m.splitOn "/" with
    | "wasm" :: c :: h :: f :: _ => .wasmExecute ⟨textDec c, parseHex h, parseCoins f "+"⟩
    | _ :: t :: cs :: _ => .bankSend (textDec t) (parseCoins cs "+")
    | _ => .bankSend "" []

def parseVote : String → Vote
  | "no" => .no | "abstain" => .abstain | "veto" => .veto | _ => .yes

def parseReply (s : String) : Reply :=
  match s.splitOn "/" with
  | ["nocontract"] => .fail
  | ["fail"] => .fail
  | ["null"] => .null
  | ["balance", n] => .balance (n.toNat?.getD 0)
  | ["tokeninfo", n, sy, d, t] => .tokenInfo (textDec n) (textDec sy) (d.toNat?.getD 0) (t.toNat?.getD 0)
  | ["allowance", n, e] => .allowance (n.toNat?.getD 0) ((parseExp e).getD .never)
  | ["minter", m, c] => .minter (textDec m) (if c == "-" then none else some (c.toNat?.getD 0))
  | ["hooks", hs] => .hooks ((items hs "+").map textDec)
  | ["admin", a] => .admin (if a == "-" then none else some (textDec a))
  | _ => .fail

def emitted (m : WasmExec) (tag : String) : StepResult :=
  { ok := some true,
    out := [("to", textEnc m.contract), ("funds", renderCoins m.funds ","), ("json", bytesText m.msg), ("rt", "true")],
    tag := tag }

def renderBalance : Balance → String
  | .native b => s!"native/{renderCoins b ","}"
  | .cw20 c => s!"cw20/{textEnc c.address}/{c.amount}"

def sentOut (q : SmartQuery) : Args := [("sent", textEnc q.contract), ("qjson", bytesText q.msg)]

def resStr {α : Type} (f : α → String) : Res α → String
  | .ok a => f a
  | .error _ => "err"

def optExpStr : Option Expiration → String
  | none => "-" | some e => e.render

def badop : StepResult := { ok := some false, tag := "badop" }

def stepOp (m : Unit) (toks : List String) : Unit × StepResult :=
  match toks with
  | "coin" :: rest =>
    let a := args rest
    let c : Cw20Coin := ⟨textDec (a.str "addr"), a.nat "amount"⟩
    (m, { ok := some true,
          out := [("empty", toString c.isEmpty), ("display", textEnc c.display),
                  ("vempty", toString c.isEmpty), ("vdisplay", textEnc c.display)],
          tag := s!"coin.{c.isEmpty}" })
  | "balance" :: rest =>
    let a := args rest
    let bal? : Option Balance :=
      match a.str "src" with
      | "default" => some Balance.default
      | "cw20" => some (Balance.ofCw20 ⟨textDec (a.str "addr"), a.nat "amount"⟩)
      | "coins" => some (Balance.ofCoins (parseCoins (a.str "coins") ","))
      | _ => none
    match bal? with
    | none => (m, badop)
    | some bal =>
      let (norm, nempty, ndisplay, ntag) :=
        match bal.normalize with
        | .ok x => (renderBalance x, toString x.isEmpty, textEnc x.display, "ok")
        | .error _ => ("panic", "-", "-", "panic")
      (m, { ok := some true,
            out := [("val", renderBalance bal), ("empty", toString bal.isEmpty), ("display", textEnc bal.display),
                    ("norm", norm), ("nempty", nempty), ("ndisplay", ndisplay)],
            tag := s!"balance.{a.str "src"}.{bal.isEmpty}.{ntag}" })
  | "denom" :: rest =>
    let a := args rest
    let s := textDec (a.str "s")
    let d? : Option Denom :=
      match a.str "kind" with
      | "default" => some Denom.default
      | "native" => some (.native s)
      | "cw20" => some (.cw20 s)
      | _ => none
    match d? with
    | none => (m, badop)
    | some d =>
      let val := match d with | .native s => s!"native/{textEnc s}" | .cw20 x => s!"cw20/{textEnc x}"
      (m, { ok := some true, out := [("val", val), ("empty", toString d.isEmpty)], tag := s!"denom.{a.str "kind"}.{d.isEmpty}" })
  | "amount" :: rest =>
    let a := args rest
    let n := a.nat "a"
    let s := textDec (a.str "s")
    let x? : Option Amount :=
      match a.str "ctor" with
      | "native" => some (.native s n)
      | "cw20" => some (.cw20 s n)
      | "parts" => some (Amount.fromParts s n)
      | _ => none
    match x? with
    | none => (m, badop)
    | some x =>
      let val := match x with
        | .native d k => s!"native/{textEnc d}/{k}"
        | .cw20 ad k => s!"cw20/{textEnc ad}/{k}"
      let rt := decide (Amount.fromParts x.denom x.amount = x)
      let kind := match x with | .native _ _ => "native" | .cw20 _ _ => "cw20"
      (m, { ok := some true,
            out := [("val", val), ("denom", textEnc x.denom), ("amount", toString x.amount),
                    ("u64", resStr toString x.u64Amount), ("empty", toString x.isEmpty), ("rt", toString rt)],
            tag := s!"amount.{a.str "ctor"}.{kind}.u64{x.u64Amount.isOk}.rt{rt}" })
  | "call20" :: rest =>
    let a := args rest
    let t (k : String) := textDec (a.str k)
    let amt := a.nat "amt"
    let data := parseHex (a.str "data")
    let msg? : Option Cw20Msg :=
      match a.str "f" with
      | "transfer" => some (.transfer (t "r") amt)
      | "burn" => some (.burn amt)
      | "send" => some (.send (t "r") amt data)
      | "increase_allowance" => some (.increaseAllowance (t "r") amt (a.optExp "exp"))
      | "decrease_allowance" => some (.decreaseAllowance (t "r") amt (a.optExp "exp"))
      | "transfer_from" => some (.transferFrom (t "o") (t "r") amt)
      | "send_from" => some (.sendFrom (t "o") (t "r") amt data)
      | "burn_from" => some (.burnFrom (t "o") amt)
      | "mint" => some (.mint (t "r") amt)
      | "update_minter" => some (.updateMinter (optText a "m"))
      | "update_marketing" => some (.updateMarketing (optText a "p") (optText a "d") (optText a "m"))
      | _ => none
    match msg? with
    | none => (m, badop)
    | some msg => (m, emitted (cw20Call (t "c") msg) s!"call20.{a.str "f"}")
  | "cw3" :: rest =>
    let a := args rest
    let t (k : String) := textDec (a.str k)
    let id := a.nat "id"
    let v := parseVote (a.str "vote")
    let msgs := parseCosmos (a.str "msgs")
    let helper := a.str "via" != "encode"
    let built? : Option WasmExec :=
      match a.str "f" with
      | "vote" => some (if helper then cw3Vote (t "c") id v else cw3Encode (t "c") (.vote id v))
      | "execute" => some (if helper then cw3Execute (t "c") id else cw3Encode (t "c") (.execute id))
      | "close" => some (if helper then cw3Close (t "c") id else cw3Encode (t "c") (.close id))
      | "propose" =>
        some (if helper then cw3Proposal (t "c") (t "title") (t "desc") msgs (a.optExp "earliest") (a.optExp "latest")
              else cw3Encode (t "c") (.propose (t "title") (t "desc") msgs (a.optExp "earliest") (a.optExp "latest")))
      | _ => none
    match built? with
    | none => (m, badop)
    | some w => (m, emitted w s!"cw3.{a.str "f"}.{a.str "via"}.msgs{msgs.length}")
  | "cw4" :: rest =>
    let a := args rest
    let c := textDec (a.str "c")
    let built? : Option WasmExec :=
      match a.str "f" with
      | "add_hook" => some (cw4AddHook c (textDec (a.str "a")))
      | "remove_hook" => some (cw4RemoveHook c (textDec (a.str "a")))
      | "update_admin" => some (cw4UpdateAdmin c (optText a "a"))
      | _ => none
    match built? with
    | none => (m, badop)
    | some w => (m, emitted w s!"cw4.{a.str "f"}")
  | "cw4g" :: rest =>
    let a := args rest
    let remove := (items (a.str "remove") ",").map textDec
    let add := (items (a.str "add") ",").map parseCoin
    (m, emitted (cw4gUpdateMembers (textDec (a.str "c")) remove add) s!"cw4g.r{remove.length}.a{add.length}")
  | "cw1" :: rest =>
    let a := args rest
    let msgs := parseCosmos (a.str "msgs")
    (m, emitted (cw1Execute (textDec (a.str "c")) msgs) s!"cw1.msgs{msgs.length}")
  | "q20" :: rest =>
    let a := args rest
    let c := textDec (a.str "c")
    let r := parseReply (a.str "reply")
    let x := textDec (a.str "a")
    let y := textDec (a.str "b")
    let got? : Option (Cw20Query × String) :=
      match a.str "f" with
      | "balance" => some (.balance x, resStr toString (cw20Balance r))
      | "meta" => some (.tokenInfo, resStr (fun p => s!"{textEnc p.1}/{textEnc p.2.1}/{p.2.2.1}/{p.2.2.2}") (cw20Meta r))
      | "allowance" => some (.allowance x y, resStr (fun p => s!"{p.1}/{p.2.render}") (cw20Allowance r))
      | "minter" =>
        some (.minter, resStr (fun o => match o with
          | none => "none"
          | some (mi, cap) => s!"{textEnc mi}/{optNatStr cap}") (cw20Minter r))
      -- `self.allowance(querier, self.addr(), self.addr())`
      | "has_allowance" => some (.allowance c c, toString (cw20HasAllowance r))
      | "is_mintable" => some (.minter, toString (cw20IsMintable r))
      | _ => none
    match got? with
    | none => (m, badop)
    | some (q, res) =>
      (m, { ok := some true, out := sentOut (cw20Request c q) ++ [("res", res)],
            tag := s!"q20.{a.str "f"}.{(a.str "reply").takeWhile (· != '/')}.{if res == "err" then "err" else "ok"}" })
  | "q4" :: rest =>
    let a := args rest
    let c := textDec (a.str "c")
    let r := parseReply (a.str "reply")
    let got? : Option (Cw4Query × String) :=
      match a.str "f" with
      | "hooks" => some (.hooks, resStr (fun hs => renderTexts hs "+") (cw4Hooks r))
      | "admin" => some (.admin, resStr optTextEnc (cw4Admin r))
      | _ => none
    match got? with
    | none => (m, badop)
    | some (q, res) =>
      (m, { ok := some true, out := sentOut (cw4Request c q) ++ [("res", res)],
            tag := s!"q4.{a.str "f"}.{(a.str "reply").takeWhile (· != '/')}.{if res == "err" then "err" else "ok"}" })
  | "intochecked" :: rest =>
    let a := args rest
    let (valid, enc) := parseAddr (a.str "s")
    let s := textDec enc
    let r := parseReply (a.str "reply")
    let d? : Option UncheckedDenom :=
      match a.str "kind" with
      | "native" => some (.native s)
      | "cw20" => some (.cw20 s)
      | _ => none
    match d? with
    | none => (m, badop)
    | some d =>
      let res := d.intoChecked valid r
      -- the `TokenInfo {}` query goes out only for a cw20 denom whose address validated
      let sent : Args :=
        match d with
        | .cw20 ad => if valid then sentOut (cw20Request ad .tokenInfo) else [("sent", "-"), ("qjson", "-")]
        | .native _ => [("sent", "-"), ("qjson", "-")]
      let rs := match res with
        | .ok (.native x) => s!"native/{textEnc x}"
        | .ok (.cw20 x) => s!"cw20/{textEnc x}"
        | .error _ => "err"
      (m, { ok := some true, out := sent ++ [("res", rs)], tag := s!"intochecked.{a.str "kind"}.{res.tag}" })
  | "decode" :: rest =>
    -- the receiver-side `from_json` (harness: the real one) against the MsgWire decoders
    let a := args rest
    let data := parseHex (a.str "data")
    let optN : Option Nat → String := fun o => match o with | some v => toString v | none => "-"
    let res? : Option String :=
      match a.str "kind" with
      | "receive" => some (match MsgWire.decodeReceive data with
        | .ok r => s!"ok/{textEnc r.sender}/{r.amount}/{if r.msg.isEmpty then "-" else Json.toHex r.msg}"
        | .error _ => "err")
      | "hook" => some (match MsgWire.decodeHook data with
        | .ok ds => "ok/" ++ (if ds.isEmpty then "-" else
            "+".intercalate (ds.map fun d => s!"{textEnc d.key}:{optN d.old}:{optN d.new}"))
        | .error _ => "err")
      | "transfer" => some (match MsgWire.decodeTransfer data with
        | .ok t => s!"ok/{textEnc t.recipient}/{t.amount}"
        | .error _ => "err")
      | "transfer_from" => some (match MsgWire.decodeTransferFrom data with
        | .ok t => s!"ok/{textEnc t.owner}/{textEnc t.recipient}/{t.amount}"
        | .error _ => "err")
      | _ => none
    match res? with
    | none => (m, badop)
    | some res => (m, { ok := some true, out := [("res", res)], tag := s!"decode.{a.str "kind"}.{(res.splitOn "/").headD ""}" })
  | _ => (m, badop)

def scen : Scen Unit Unit where
  init _ := ()
  step := stepOp
  obs _ := []
  monInit _ := ()
  monitor mu _ _ _ _ _ := (mu, [])
  -- stateless: a disagreement never stops the comparison of the following ops
  resync := some fun m _ => some m

end CwPlus.Driver.Pkg
