import CwPlus.Driver.Common
import CwPlus.Model.Cw4Stake
import CwPlus.Model.MsgWire
import CwPlus.Model.Cw4Raw
/-!
Scenario `cw4stake`: op-line parser, observation renderer and property monitors (C10, and the
cw4-stake parts of C09 and C14) for the cw4-stake model in its world (`Cw4Stake.World`).

Header: `scenario cw4stake seed= trace= height= time= sdenom=<native stake denom> pool=<actors>
bal=<actor:initial stake-token balance,…> token=<cw20 stake token> ftoken=<foreign cw20>
hooks_ok=<accepting hook contracts> hook_bad=<refusing hook contract>`

Op lines (see `harness/src/scen_cw4stake.rs`):

    inst denom=<native|cw20> tpw=<u128> min_bond=<u128> unbond=<hN|tN> admin=<+a|-text|->
    exec <snd> bond funds=<denom:amt,…|->          exec <snd> unbond amt=<u128>      exec <snd> claim
    exec <snd> receive sender=<+a|-text> amt=<u128> msg=<bond|junk>          (forged notification)
    exec <snd> update_admin admin=<+a|-text|->     exec <snd> add_hook addr=..   exec <snd> remove_hook addr=..
    send <snd> token=<cw20 contract> amt=<u128> msg=<bond|junk>              (cw20 Send → Receive)
    donate <snd> amt=<u128>                                                  (plain transfer of stake tokens)
    env height= time=
    query list_members after=<+a|-text|-> limit=<n|->      query member addr=<+a|-text> at=<h|->
-/
-- SCENARIO cw4stake Cw4Stake.scen
-- SCENARIO cw4stakewide Cw4Stake.scen
namespace CwPlus.Driver.Cw4Stake
open CwPlus Wire Driver CwPlus.Cw4Stake CwPlus.Snapshot

structure MState where
  w : Option World := none
  blk : Block := ⟨12345, 1571797419879305533⟩
  h0 : Nat := 12345
  pool : List String := []
  bal0 : AMap Addr Nat := []
  sdenom : String := "ustake"
  token : String := ""
  accepting : List Addr := []
  /-- heights at which a transaction succeeded (ascending, no repeats) -/
  heights : List Nat := []
  /-- header `wide=1` (`cw4stakewide`): the at-height probes use only the 3 most recent recorded heights -/
  wide : Bool := false

def addrArg (s : String) : AddrArg := let p := parseAddr s; ⟨p.1, p.2⟩

def optAddrArg (a : Args) (k : String) : Option AddrArg := (a.optStr k).map addrArg

/-- `x:n` (split at the last colon) -/
def parsePair (e : String) : String × Nat :=
  match (e.splitOn ":").reverse with
  | amt :: rest => (":".intercalate rest.reverse, amt.toNat?.getD 0)
  | [] => ("", 0)

/-- `x:v` (split at the last colon), value kept as text -/
def parsePairS (e : String) : String × String :=
  match (e.splitOn ":").reverse with
  | v :: rest => (":".intercalate rest.reverse, v)
  | [] => ("", "")

def insertNat (x : Nat) : List Nat → List Nat
  | [] => [x]
  | y :: ys => if x < y then x :: y :: ys else if x = y then y :: ys else y :: insertNat x ys

/-- Heights probed by the observation: start − 1, every height with a successful transaction, current, current + 1. -/
def probeHeights (h0 cur : Nat) (heights : List Nat) : List Nat :=
  insertNat 0 (insertNat (cur + 1) (insertNat cur (insertNat (h0 - 1) heights)))

def parseCoins (a : Args) : List (String × Nat) :=
  match a.optStr "funds" with
  | none => []
  | some f => (splitList f).map parsePair

def renderOut : Out → String
  | .bank to amt d => s!"bank/{to}/{amt}{d}"
  | .cw20Transfer t to amt => s!"cw20/{t}/transfer/{to}/{amt}"
  | .hook hk key old new => s!"hook/{hk}/{key}:{optNatStr old}:{optNatStr new}"

def renderMsgs (out : List Out) : String := ";".intercalate (out.map renderOut)

def renderClaim (c : Claim) : String := s!"{c.amount}@{c.releaseAt.render}"

def renderClaims (l : List Claim) : String := "+".intercalate (l.map renderClaim)

def renderDenom : Denom → String
  | .native d => s!"native:{d}"
  | .cw20 t => s!"cw20:{t}"

def renderMembers (l : List (Addr × Nat)) : String := joinC (l.map fun p => s!"{p.1}:{p.2}")

/-- A changelog in ascending height order. -/
def sortLog (l : Log Nat) : List (Nat × Option Nat) :=
  l.mergeSort (fun a b => decide (a.1 ≤ b.1))

open Paginate in
/-- Raw dump of the `MEMBERS` changelog: `addr@height:old`, by address then height. -/
def renderMapLog (log : AMap Addr (Log Nat)) : String :=
  joinC ((sortedEntries strLt log).flatMap fun (a, l) => (sortLog l).map fun e => s!"{a}@{e.1}:{optNatStr e.2}")

open Paginate in
def obsOf (m : MState) : Args :=
  match m.w with
  | none => [("uninit", "1")]
  | some w =>
    let s := w.st
    let hs := probeHeights m.h0 m.blk.height (if m.wide then m.heights.drop (m.heights.length - 3) else m.heights)
    let member := joinC (m.pool.map fun a => s!"{a}:{optNatStr (s.members.get? a)}")
    [("denom", renderDenom s.cfg.denom),
     ("stake", joinC (m.pool.map fun a => s!"{a}:{stakeOf s a}")),
     ("claims", joinC (m.pool.filterMap fun a =>
        let cl := claimsOf s a
        if cl.isEmpty then none else some s!"{a}:{renderClaims cl}")),
     ("member", member),
     ("hist", joinC (m.pool.flatMap fun a => hs.map fun h => s!"{a}@{h}:{optNatStr (s.members.atHeight a h)}")),
     ("members", renderMembers (sortedEntries strLt s.members.cur)),
     ("total", toString (queryTotalWeight s)),
     ("admin", optStrStr (queryAdmin s)),
     ("hooks", joinC (queryHooks s)),
     ("rawmember", member),
     ("rawtotal", toString s.total),
     ("held", toString w.held),
     ("bal", joinC (m.pool.map fun a => s!"{a}:{balOf w a}")),
     ("fheld", "0"),
     -- raw reads: the stored configuration, the recorded heights, the MEMBERS changelog
     ("cfg", s!"{s.cfg.tokensPerWeight}/{s.cfg.minBond}/{s.cfg.period.render}"),
     ("hs", joinC (m.heights.map toString)),
     ("mlog", renderMapLog s.members.log),
     -- the byte layout of the storage: `encodeObserved` of the model state (zero stakes / empty claim lists
     -- dropped, as the harness drops them: `scen_cw4group::render_raw_keys`); probes = the first two actors.
     -- `resyncOf` does not read this field (everything it shows is determined by the fields above).
     ("rawkeys", RawStore.renderRawKeys (m.pool.take 2) (encodeObserved s)),
     ("rawextra", "")]

/-! ## Re-synchronisation -/

def optNatOf (s : String) : Option Nat := if s == "-" then none else s.toNat?

/-- `addr@h:old` -/
def parseMlog (e : String) : Option (String × Nat × Option Nat) :=
  match e.splitOn "@" with
  | [a, r] =>
    match r.splitOn ":" with
    | [h, o] => h.toNat?.map fun h => (a, h, optNatOf o)
    | _ => none
  | _ => none

def parseDenom (s : String) : Option Denom :=
  if s.startsWith "native:" then some (.native (s.drop 7).toString)
  else if s.startsWith "cw20:" then some (.cw20 (s.drop 5).toString)
  else none

def parseClaimList (cl : String) : List Claim :=
  (if cl == "" then [] else cl.splitOn "+").filterMap fun e =>
    match e.splitOn "@" with
    | [amt, exp] => match amt.toNat?, parseExp exp with
      | some a, some x => some ⟨a, x⟩
      | _, _ => none
    | _ => none

/-- Everything the contract stores is in the observation: configuration (`denom`, `cfg`: raw read), admin,
hooks, stakes and claims of the pool (only pool actors can bond), the member listing, the raw total, the
MEMBERS changelog (`mlog`: raw dump), the token balances of the contract and of the pool, the recorded
heights (`hs`).  Kept: block, header data, the ghost `extra`, the accepting hook contracts. -/
def resyncOf (m : MState) (o : Args) : Option MState :=
  if (o.get "uninit").isSome then some { m with w := none, heights := [] } else do
  let denom ← parseDenom (o.str "denom")
  let cfg ← match (o.str "cfg").splitOn "/" with
    | [t, b, p] => do
      let t ← t.toNat?; let b ← b.toNat?; let p ← parseDur p
      pure ({ denom, tokensPerWeight := t, minBond := b, period := p } : Config)
    | _ => none
  let total ← (o.str "rawtotal").toNat?
  let held ← (o.str "held").toNat?
  let pairs (f : String) : AMap Addr Nat := (o.list f).foldl (fun acc e => let p := parsePair e; acc.set p.1 p.2) []
  let claims : AMap Addr (List Claim) := (o.list "claims").foldl (fun acc e =>
    match e.splitOn ":" with
    | [a, cl] => acc.set a (parseClaimList cl)
    | _ => acc) []
  let mlog : AMap Addr (Log Nat) := ((o.list "mlog").filterMap parseMlog).foldl (fun acc (a, h, old) =>
    acc.set a ((h, old) :: (acc.get? a).getD [])) []
  let st : State := { cfg, admin := o.optStr "admin", hooks := o.list "hooks", stake := pairs "stake", claims,
                      members := { cur := pairs "members", log := mlog }, total }
  let extra := match m.w with | some w => w.extra | none => 0
  pure { m with w := some { st, held, bal := pairs "bal", extra, accepting := m.accepting },
                heights := (o.list "hs").filterMap String.toNat? }

def err (m : MState) (tag : String) : MState × StepResult := (m, { ok := some false, tag := tag })

/-- Run one world transaction. -/
def runTx (m : MState) (w : World) (kind : String) (op : Op) : MState × StepResult :=
  match tx w m.blk op with
  | .ok (w', out) => ({ m with w := some w', heights := insertNat m.blk.height m.heights }, { ok := some true, out := [("msgs", renderMsgs out), ("hookraw", MsgWire.hookRawOfStake out), ("xferraw", MsgWire.xferRawOfStake out)], tag := s!"{kind}.ok" })
  | .error e => err m s!"{kind}.{e}"

def stepOp (m : MState) (toks : List String) : MState × StepResult :=
  match toks with
  | "env" :: rest =>
    let a := args rest
    ({ m with blk := ⟨a.nat "height", a.nat "time"⟩ }, { ok := none, tag := "env" })
  | "inst" :: rest =>
    let a := args rest
    match m.w with
    | some _ => err m "inst.twice"
    | none =>
      let denom : Denom := if a.str "denom" == "native" then .native m.sdenom else .cw20 m.token
      let msg : InstMsg := { denom, tokensPerWeight := a.nat "tpw", minBond := a.nat "min_bond",
                             period := (parseDur (a.str "unbond")).getD (.height 1), admin := optAddrArg a "admin" }
      match instantiate msg with
      | .ok s => ({ m with w := some (World.init s m.bal0 m.accepting) }, { ok := some true, tag := "inst.ok" })
      | .error e => err m s!"inst.{e}"
  | "exec" :: snd :: kind :: rest =>
    match m.w with
    | none => err m "uninit"
    | some w =>
      let a := args rest
      let op : Option Op :=
        match kind with
        | "bond" => some (.bond snd (parseCoins a))
        | "unbond" => some (.unbond snd (a.nat "amt"))
        | "claim" => some (.claim snd)
        | "update_admin" => some (.updateAdmin snd (optAddrArg a "admin"))
        | "add_hook" => some (.addHook snd (addrArg (a.str "addr")))
        | "remove_hook" => some (.removeHook snd (addrArg (a.str "addr")))
        | "receive" => some (.receive snd (addrArg (a.str "sender")) (a.nat "amt") (a.str "msg" == "bond"))
        | _ => none
      match op with
      | none => err m "badop"
      | some op => runTx m w kind op
  | "send" :: snd :: rest =>
    match m.w with
    | none => err m "uninit"
    | some w =>
      let a := args rest
      runTx m w "send" (.send snd (a.str "token") (a.nat "amt") (a.str "msg" == "bond"))
  | "donate" :: snd :: rest =>
    match m.w with
    | none => err m "uninit"
    | some w => runTx m w "donate" (.donate snd ((args rest).nat "amt"))
  | "query" :: kind :: rest =>
    let a := args rest
    match m.w with
    | none => (m, { ok := none, tag := "q.uninit" })
    | some w =>
      let r : Res String :=
        match kind with
        | "member" => (queryMember w.st (addrArg (a.str "addr")) (a.optNat "at")).map optNatStr
        | "list_members" => (queryListMembers w.st (optAddrArg a "after") (a.optNat "limit")).map renderMembers
        | _ => .error "badquery"
      match r with
      | .ok v => (m, { ok := some true, out := [("result", v)], tag := s!"q.{kind}.ok" })
      | .error e => err m s!"q.{kind}.{e}"
  | _ => (m, { ok := none, tag := "unknown" })

/-! ## Monitors: the properties' own predicates, evaluated on implementation observations -/

/-- C09 ghost: the member weights that held when a block started. -/
structure Start where
  height : Nat
  members : List (String × String)

structure Mon where
  blk : Block := ⟨12345, 1571797419879305533⟩
  inited : Bool := false
  pool : List String := []
  token : String := ""
  sdenom : String := "ustake"
  -- the configuration asked for at instantiation
  native : Bool := true
  tpw : Nat := 1
  minBond : Nat := 1
  period : Duration := .height 1
  /-- C10 ghost: plain transfers to the contract (not bonds) -/
  extra : Nat := 0
  /-- C10 ghost: claims as they must be according to the unbond/claim history -/
  gclaims : AMap String (List Claim) := []
  /-- C09 ghost: start-of-block member weights for every block in which an op ran -/
  starts : List Start := []

def mk (p sig d : String) : Finding := ⟨p, sig, d⟩

def parseClaim (e : String) : Claim :=
  match e.splitOn "@" with
  | [amt, exp] => ⟨amt.toNat?.getD 0, (parseExp exp).getD .never⟩
  | _ => ⟨0, .never⟩

/-- `claims=` field → per-actor claim lists -/
def obsClaims (o : Args) : AMap String (List Claim) :=
  (o.list "claims").map fun e =>
    match e.splitOn ":" with
    | [a, cl] => (a, (if cl == "" then [] else cl.splitOn "+").map parseClaim)
    | _ => ("?", [])

def claimsAt (o : Args) (a : String) : List Claim := ((obsClaims o).get? a).getD []
def natAt (o : Args) (field a : String) : Nat := (AMap.get? ((o.list field).map parsePair) a).getD 0
def strAt (o : Args) (field a : String) : String := (AMap.get? ((o.list field).map parsePairS) a).getD "?"

def startAt (starts : List Start) (h : Nat) : Option Start :=
  starts.foldl (fun best s =>
    if h ≤ s.height then
      match best with
      | none => some s
      | some b => if s.height < b.height then some s else some b
    else best) none

/-- `addr@h:w` -/
def parseHist (e : String) : String × Nat × String :=
  match e.splitOn "@" with
  | [a, r] => (match r.splitOn ":" with
    | [h, w] => (a, h.toNat?.getD 0, w)
    | _ => (a, 0, "?"))
  | _ => ("", 0, "?")

def monitorOp (mu : Mon) (prev : Args) (toks : List String) (implOk : Bool) (out cur : Args) : Mon × List Finding :=
  match toks with
  | "env" :: rest => let a := args rest; ({ mu with blk := ⟨a.nat "height", a.nat "time"⟩ }, [])
  | "query" :: _ => (mu, [])
  | _ =>
    if (cur.get "uninit").isSome then (mu, []) else
    let kind := match toks with | "exec" :: _ :: k :: _ => k | k :: _ => k | [] => ""
    let snd := match toks with | "exec" :: s :: _ => s | _ :: s :: _ => s | _ => ""
    let a := match toks with | "exec" :: _ :: _ :: rest => args rest | _ :: rest => args rest | [] => []
    let fresh := kind == "inst" && !mu.inited
    let blk := mu.blk
    -- configuration ghost
    let mu : Mon := if fresh then
        { mu with inited := true, native := a.str "denom" == "native", tpw := a.nat "tpw",
                  minBond := max (a.nat "min_bond") 1, period := (parseDur (a.str "unbond")).getD (.height 1),
                  extra := 0, gclaims := [], starts := [⟨blk.height, []⟩] }
      else if mu.starts.any (fun s => s.height == blk.height) then mu
      else { mu with starts := mu.starts ++ [⟨blk.height, (prev.list "member").map parsePairS⟩] }
    let pool := mu.pool
    let amt := a.nat "amt"
    let coins := parseCoins a
    -- the observation fields are parsed once per op (the pool may hold dozens of actors)
    let stakeCL := (cur.list "stake").map parsePair
    let stakePL := (prev.list "stake").map parsePair
    let memCL := (cur.list "member").map parsePairS
    let memPL := (prev.list "member").map parsePairS
    let balCL := (cur.list "bal").map parsePair
    let balPL := (prev.list "bal").map parsePair
    let claimsCL := obsClaims cur
    let claimsPL := obsClaims prev
    let stakeC := fun x => (AMap.get? stakeCL x).getD 0
    let stakeP := fun x => (AMap.get? stakePL x).getD 0
    let memC := fun x => (AMap.get? memCL x).getD "?"
    let memP := fun x => (AMap.get? memPL x).getD "?"
    let balC := fun x => (AMap.get? balCL x).getD 0
    let balP := fun x => (AMap.get? balPL x).getD 0
    let clC := fun x => (claimsCL.get? x).getD []
    let clP := fun x => (claimsPL.get? x).getD []
    let held := cur.nat "held"
    let sumStake := pool.foldl (fun acc x => acc + stakeC x) 0
    let sumClaims := claimsCL.foldl (fun acc p => acc + amountSum p.2) 0
    -- ghosts updated by this op
    let donated := if kind == "donate" && implOk then amt else 0
    let mu := { mu with extra := mu.extra + donated }
    -- ================================================================ C10
    -- backing
    let fBack :=
      (if held < sumStake + sumClaims then
        [mk "C10" "C10/backing" s!"held={held} stakes={sumStake} claims={sumClaims}"] else []) ++
      (if held != sumStake + sumClaims + mu.extra then
        [mk "C10" "C10/backing-exact" s!"held={held} stakes={sumStake} claims={sumClaims} extra_deposits={mu.extra}"] else [])
    -- member ⇔ stake ≥ min_bond; weight = stake / tokens_per_weight exactly
    let fMem := pool.flatMap fun x =>
      let w := memC x
      let st := stakeC x
      (if (w != "-") != (decide (mu.minBond ≤ st)) then
        [mk "C10" "C10/member-iff-min-bond" s!"addr={x} stake={st} min_bond={mu.minBond} weight={w}"] else []) ++
      (if w != "-" && (mu.tpw == 0 || w != toString (st / mu.tpw)) then
        [mk "C10" "C10/weight-quotient" s!"addr={x} stake={st} tokens_per_weight={mu.tpw} weight={w}"] else [])
    let f10 := if fresh then fBack ++ fMem else
      -- a failed transaction changes nothing
      let fFail := if implOk then [] else
        (["stake", "claims", "member", "members", "total", "admin", "hooks", "held", "bal"].filterMap fun f =>
          if prev.str f == cur.str f then none
          else some (mk "C10" "C10/failed-call-changed-state" s!"field={f} changed by a failing {kind}"))
      -- what a successful op may do to the stake of its sender
      let paid : Nat := match coins with | [(_, x)] => x | _ => 0
      let fTok := if !implOk then [] else
        (if kind == "bond" && !(mu.native && (match coins with | [(d, _)] => d == mu.sdenom | _ => false)) then
          [mk "C10" "C10/foreign-token-accepted" s!"bond accepted with funds={a.str "funds"} native={mu.native}"] else []) ++
        (if kind == "send" && !(!mu.native && a.str "token" == mu.token && a.str "msg" == "bond") then
          [mk "C10" "C10/foreign-token-accepted" s!"cw20 send accepted: token={a.str "token"} msg={a.str "msg"} native={mu.native}"] else []) ++
        (if kind == "receive" then
          [mk "C10" "C10/forged-receive-accepted" s!"Receive called by the account {snd} was accepted"] else [])
      let fStake := if !implOk then [] else pool.filterMap fun x =>
        let expected : Option Nat :=
          if x == snd && (kind == "bond") then some (stakeP x + paid)
          else if x == snd && kind == "send" then some (stakeP x + amt)
          else if x == snd && kind == "unbond" then (if amt ≤ stakeP x then some (stakeP x - amt) else none)
          else some (stakeP x)
        if expected == some (stakeC x) then none
        else some (mk "C10" "C10/stake-frame" s!"addr={x} stake {stakeP x}->{stakeC x} by {kind} amt={amt} funds={a.str "funds"} from {snd}")
      -- claims: unbond appends (amt, period.after(block)); claim removes exactly the matured ones; nothing else
      let fClaims := if !implOk then [] else pool.flatMap fun x =>
        let before := clP x
        let after := clC x
        if x == snd && kind == "unbond" then
          (if after == before ++ [⟨amt, mu.period.after blk⟩] then []
           else [mk "C10" "C10/claim-release-at" s!"addr={x} claims={renderClaims after} expected={renderClaims (before ++ [⟨amt, mu.period.after blk⟩])}"])
        else if x == snd && kind == "claim" then
          (if after == waiting blk before then []
           else [mk "C10" "C10/claim-removes-matured" s!"addr={x} claims {renderClaims before}->{renderClaims after} at height={blk.height} time={blk.time}"])
        else if after == before then []
        else [mk "C10" "C10/claims-frame" s!"addr={x} claims changed by {kind} from {snd}"]
      -- the claim pays exactly the matured claims, to the claimant, from the contract's holdings
      let fPay := if !(implOk && kind == "claim") then [] else
        let before := clP snd
        let due := amountSum (matured blk before)
        let expectedMsg := if mu.native then s!"bank/{snd}/{due}{mu.sdenom}" else s!"cw20/{mu.token}/transfer/{snd}/{due}"
        (if due == 0 then [mk "C10" "C10/claim-nothing-matured" s!"claim by {snd} succeeded with no matured claim"] else []) ++
        (if out.str "msgs" != expectedMsg then
          [mk "C10" "C10/claim-payout" s!"msgs={out.str "msgs"} expected={expectedMsg}"] else []) ++
        (if balC snd != balP snd + due then
          [mk "C10" "C10/claim-payout" s!"balance of {snd}: {balP snd}->{balC snd}, matured={due}"] else []) ++
        (if held + due != prev.nat "held" then
          [mk "C10" "C10/claim-payout" s!"holdings {prev.nat "held"}->{held}, matured={due}"] else []) ++
        ((before.filter fun c => !c.releaseAt.isExpired blk).filterMap fun c =>
          if (clC snd).contains c then none
          else some (mk "C10" "C10/claim-early" s!"claim {renderClaim c} released at height={blk.height} time={blk.time}"))
      -- user balances move only by the user's own bond / donation (down) or claim (up)
      let fBal := if !implOk then [] else pool.filterMap fun x =>
        let b0 := balP x; let b1 := balC x
        let expected : Option Nat :=
          if x == snd && kind == "bond" then (if paid ≤ b0 then some (b0 - paid) else none)
          else if x == snd && (kind == "send" || kind == "donate") then (if amt ≤ b0 then some (b0 - amt) else none)
          else if x == snd && kind == "claim" then some (b0 + amountSum (matured blk (clP x)))
          else some b0
        if expected == some b1 then none
        else some (mk "C10" "C10/balance-frame" s!"addr={x} balance {b0}->{b1} by {kind} from {snd}")
      -- ghost claim ledger: the observed claims are those the unbond/claim history dictates
      fBack ++ fMem ++ fFail ++ fTok ++ fStake ++ fClaims ++ fPay ++ fBal
    -- ghost claim ledger over the whole history
    let mu : Mon := if fresh || !implOk then mu else
      if kind == "unbond" then
        { mu with gclaims := mu.gclaims.set snd (((mu.gclaims.get? snd).getD []) ++ [⟨amt, mu.period.after blk⟩]) }
      else if kind == "claim" then
        { mu with gclaims := mu.gclaims.set snd (waiting blk ((mu.gclaims.get? snd).getD [])) }
      else mu
    let fLedger := pool.filterMap fun x =>
      if clC x == (mu.gclaims.get? x).getD [] then none
      else some (mk "C10" "C10/claims-ledger" s!"addr={x} claims={renderClaims (clC x)} history_says={renderClaims ((mu.gclaims.get? x).getD [])}")
    let f10 := f10 ++ fLedger
    -- ================================================================ C09 (stake part)
    let listed := (cur.list "members").map parsePair
    let total := cur.nat "total"
    let sum := listed.foldl (fun acc p => acc + p.2) 0
    let f9 :=
      (if sum != total then [mk "C09" "C09/stake/sum" s!"sum_of_listed_weights={sum} total={total}"] else []) ++
      -- listing and point queries agree on the actors
      (pool.filterMap fun x =>
        let w := memC x
        let l := match AMap.get? listed x with | some v => toString v | none => "-"
        if w == l then none else some (mk "C09" "C09/stake/listing-vs-point" s!"addr={x} member={w} listed={l}")) ++
      (listed.filterMap fun p =>
        if pool.contains p.1 then none else some (mk "C09" "C09/stake/unknown-member" s!"addr={p.1}")) ++
      -- every at-height probe equals the value at the start of that block
      ((cur.list "hist").filterMap fun e =>
        let (addr, ph, w) := parseHist e
        let expected := match startAt mu.starts ph with
          | some s => (AMap.get? s.members addr).getD "-"
          | none => memC addr
        if w == expected then none
        else some (mk "C09" "C09/stake/member-at-height" s!"addr={addr} height={ph} reported={w} start_of_block={expected}")) ++
      -- raw reads = smart reads
      (if cur.str "rawtotal" != toString total then
        [mk "C09" "C09/stake/raw-total" s!"raw={cur.str "rawtotal"} smart={total}"] else []) ++
      (if cur.str "rawmember" != cur.str "member" then
        [mk "C09" "C09/stake/raw-member" s!"raw={cur.str "rawmember"} smart={cur.str "member"}"] else [])
    -- ================================================================ C14 (stake part)
    let f14 := if fresh then [] else
      let pAdmin := prev.str "admin"
      let changed := (if pAdmin != cur.str "admin" then ["admin"] else []) ++
        (if prev.str "hooks" != cur.str "hooks" then ["hooks"] else [])
      let isAdminOp := kind == "update_admin" || kind == "add_hook" || kind == "remove_hook"
      let fauth := if changed.isEmpty then [] else
        (if pAdmin == "-" then [mk "C14" "C14/stake/frozen-changed" s!"admin is none, {changed} changed by {kind} from {snd}"] else []) ++
        (if !implOk then [mk "C14" "C14/stake/changed-on-failure" s!"{changed} changed by a failing {kind}"]
         else if pAdmin != snd || !isAdminOp then
          [mk "C14" "C14/stake/unauthorised-change" s!"{changed} changed by {kind} from {snd}, admin={pAdmin}"]
         else [])
      let msgs := out.str "msgs"
      let fmsg := if !implOk then [] else
        if kind == "bond" || kind == "send" || kind == "unbond" then
          let old := memP snd
          let new := memC snd
          let expected := if old == new then ""
            else ";".intercalate ((prev.list "hooks").map fun hk => s!"hook/{hk}/{snd}:{old}:{new}")
          if msgs == expected then []
          else [mk "C14" "C14/stake/hook-messages" s!"weight of {snd} {old}->{new} hooks={prev.str "hooks"} msgs={msgs}"]
        else if kind == "claim" then
          (if (msgs.splitOn "hook/").length > 1 then [mk "C14" "C14/stake/spurious-message" s!"kind={kind} msgs={msgs}"] else [])
        else if msgs == "" then []
        else [mk "C14" "C14/stake/spurious-message" s!"kind={kind} msgs={msgs}"]
      -- a weight changes only for the sender of a bond / unbond
      let fw := pool.filterMap fun x =>
        if memP x == memC x then none
        else if implOk && x == snd && (kind == "bond" || kind == "send" || kind == "unbond") then none
        else some (mk "C14" "C14/stake/weight-changed-silently" s!"addr={x} weight {memP x}->{memC x} by {kind} from {snd}")
      fauth ++ fmsg ++ fw
    (mu, f10 ++ f9 ++ f14)

def scen : Scen MState Mon where
  init h :=
    { blk := ⟨h.nat "height", h.nat "time"⟩, h0 := h.nat "height", pool := h.list "pool",
      bal0 := (h.list "bal").map parsePair, sdenom := h.str "sdenom", token := h.str "token",
      accepting := h.list "hooks_ok", wide := h.str "wide" == "1" }
  step := stepOp
  obs := obsOf
  monInit h :=
    { blk := ⟨h.nat "height", h.nat "time"⟩, pool := h.list "pool", token := h.str "token", sdenom := h.str "sdenom" }
  monitor := monitorOp
  resync := some resyncOf

end CwPlus.Driver.Cw4Stake
