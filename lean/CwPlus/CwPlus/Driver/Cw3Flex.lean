import CwPlus.Driver.Common
import CwPlus.Driver.Cw20
import CwPlus.Model.Cw3Flex
import CwPlus.Model.MsgWire
/-!
Scenario `cw3flex`: op-line parser, observation renderer and property monitors (C03, C05, C06 — cw3-flex part —
and C15) for the cw3-flex-multisig model in its world (cw4-group, cw20 deposit token, bank).

The line protocol is documented in `docs/proto_cw3flex.md` (and at the top of `harness/src/scen_cw3flex.rs`).
-/
-- SCENARIO cw3flex Cw3Flex.scen
-- SCENARIO cw3flexwide Cw3Flex.scen
namespace CwPlus.Driver.Cw3Flex
open CwPlus Wire Driver CwPlus.Cw3 CwPlus.Cw3Core CwPlus.Cw3Flex

/-- `UCOSM`: a coin that differs from `ucosm` only in letter case (bank denoms are case sensitive). -/
def DENOMS : List String := ["ucosm", "uatom", "UCOSM"]
def FUEL : Nat := 4000

structure MState where
  w : Option World := none
  blk : Block := ⟨12345, 1571797419879305533⟩
  pool : List String := []
  cw20 : String := ""
  group : String := ""
  flex : String := ""
  ghost : String := ""
  /-- header `wide=1` (`cw3flexwide`): `snap` probes only the start heights of the two most recent proposals -/
  wide : Bool := false

/-- `text:number` split at the last colon -/
def parsePair (e : String) : String × Nat :=
  match (e.splitOn ":").reverse with
  | n :: rest => (":".intercalate rest.reverse, n.toNat?.getD 0)
  | [] => ("", 0)

def parseThr (s : String) : Threshold :=
  match s.splitOn ":" with
  | ["count", k] => .absoluteCount (k.toNat?.getD 0)
  | ["pct", p] => .absolutePercentage (p.toNat?.getD 0)
  | ["quorum", t, q] => .thresholdQuorum (t.toNat?.getD 0) (q.toNat?.getD 0)
  | "count" :: k :: _ => .absoluteCount (k.toNat?.getD 0)
  | "pct" :: p :: _ => .absolutePercentage (p.toNat?.getD 0)
  | "quorum" :: t :: q :: _ => .thresholdQuorum (t.toNat?.getD 0) (q.toNat?.getD 0)
  | _ => .absoluteCount 0

def renderThr : Threshold → String
  | .absoluteCount k => s!"count:{k}"
  | .absolutePercentage p => s!"pct:{p}"
  | .thresholdQuorum t q => s!"quorum:{t}:{q}"

/-- `<amt><denom>` -/
def parseCoin (s : String) : Coin :=
  let digits := s.takeWhile Char.isDigit
  ⟨digits.toString.toNat?.getD 0, (s.drop digits.toString.length).toString⟩

/-- `a:1+b:2` -/
def parseAdds (s : String) : List (Addr × Nat) :=
  if s == "" then [] else (s.splitOn "+").map parsePair

def parseRemoves (s : String) : List Addr := if s == "" then [] else s.splitOn "+"

/-- The meaning of the opaque tags of `Msg.other`: the canonical text of a group update. -/
def ext : Ext := fun tag =>
  match tag.splitOn "/" with
  | ["group", "update", add, remove] => some (parseAdds add, parseRemoves remove)
  | _ => none

def parseMsg (s : String) : Msg :=
  match s.splitOn "/" with
  | ["bank", to, c] => let k := parseCoin c; .bank to k.amount k.denom
  | ["self", "execute", id] => .selfExecute (id.toNat?.getD 0)
  | ["self", "close", id] => .selfClose (id.toNat?.getD 0)
  | ["self", "vote", id, v] => .selfVote (id.toNat?.getD 0) ((Vote.parse v).getD .veto)
  | "group" :: "update" :: _ => .other s
  | ["fail"] => .noContract "fail"
  | _ => .noContract "?"

def renderMsg : Msg → String
  | .bank to amt denom => s!"bank/{to}/{amt}{denom}"
  | .selfExecute id => s!"self/execute/{id}"
  | .selfClose id => s!"self/close/{id}"
  | .selfVote id v => s!"self/vote/{id}/{v.render}"
  | .selfPropose _ => "other"
  | .other tag => tag
  | .noContract _ => "fail"

def renderOut : Out → String
  | .msg m => renderMsg m
  | .bank to amt denom => s!"bank/{to}/{amt}{denom}"
  | .cw20Transfer token to amt => s!"cw20/{token}/transfer/{to}/{amt}"
  | .cw20TransferFrom token owner to amt => s!"cw20/{token}/transfer_from/{owner}/{to}/{amt}"
  | .groupHook hook => s!"hook/{hook}"

def renderOuts (l : List Out) : String := ";".intercalate (l.map renderOut)

def parseMsgs (a : Args) : List Msg :=
  match a.optStr "msgs" with
  | none => []
  | some s => (s.splitOn ";").map parseMsg

def parseFunds (a : Args) : List Coin :=
  match a.optStr "funds" with
  | none => []
  | some s => (s.splitOn ",").map parseCoin

def renderDep : Option Deposit → String
  | none => "-"
  | some d => if d.cw20 then s!"cw20:{d.denom}:{d.amount}:{if d.refundFailed then 1 else 0}"
              else s!"native:{d.denom}:{d.amount}:{if d.refundFailed then 1 else 0}"

def renderView (v : ProposalView) : String :=
  s!"{v.id}|{v.status.render}|{v.expires.render}|{renderThr v.threshold}:{v.totalWeight}|{v.proposer}|{renderDep v.deposit}|{v.title}|{v.description}|{";".intercalate (v.msgs.map renderMsg)}"

def actors (m : MState) : List String := m.pool ++ [m.flex]

/-- Insert into an ascending list without repeats. -/
def insertNat (x : Nat) : List Nat → List Nat
  | [] => [x]
  | y :: ys => if x < y then x :: y :: ys else if x = y then y :: ys else y :: insertNat x ys

/-- A changelog in ascending height order. -/
def sortLog (l : Snapshot.Log Nat) : List (Nat × Option Nat) :=
  l.mergeSort (fun a b => decide (a.1 ≤ b.1))

open Paginate in
def obsOf (m : MState) : Args :=
  match m.w with
  | none => [("uninit", "1")]
  | some w =>
    let s := w.flex
    let g := w.group
    let u := actors m
    let thr := match queryThreshold s g with
      | .ok (t, total) => s!"{renderThr t}:{total}"
      | .error _ => "!err"
    let c := s.cfg
    let cfg := s!"{renderThr c.threshold}|{c.maxVotingPeriod.render}|{c.group}|{match c.executor with | none => "-" | some .member => "member" | some (.only a) => s!"only:{a}"}|{renderDep c.deposit}"
    let entries := sortedEntries natLt s.core.proposals
    let props := match viewAll m.blk entries with
      | .ok vs => joinC (vs.map renderView)
      | .error _ => "!err"
    let rprops := match viewAll m.blk entries.reverse with
      | .ok vs => joinC (vs.map renderView)
      | .error _ => "!err"
    let n := s.core.count
    let ids := (List.range n).map (· + 1)
    let pprops := (List.range (n + 1)).map fun i =>
      let id := i + 1
      match Cw3Flex.queryProposal s m.blk id with
      | .ok v => renderView v
      | .error e => if e == "not_found" then s!"{id}|-" else s!"{id}|!err"
    let raw := ids.map fun id =>
      match s.core.proposals.get? id with
      | some p => s!"{id}:{p.status.render}:{p.votes.yes}.{p.votes.no}.{p.votes.abstain}.{p.votes.veto}:{p.startHeight}"
      | none => s!"{id}:-"
    let ph := entries.map fun e => s!"{e.1}@{e.2.startHeight}"
    let votes := ids.flatMap fun id =>
      (sortedEntries strLt (ballotsOf s.core id)).map fun b => s!"{id}:{b.1}:{b.2.vote.render}:{b.2.weight}"
    let pvotes := ids.flatMap fun id => u.filterMap fun a =>
      match (ballotsOf s.core id).get? a with
      | some b => some s!"{id}:{a}:{b.vote.render}:{b.weight}"
      | none => none
    let members := joinC ((sortedEntries strLt g.members.cur).map fun p => s!"{p.1}:{p.2}")
    let pvoters := u.map fun a => s!"{a}:{optNatStr (memberNow g a)}"
    let probed := if m.wide then entries.drop (entries.length - 2) else entries
    let heights := probed.foldl (fun acc e =>
      insertNat (e.2.startHeight + 1) (insertNat e.2.startHeight (insertNat (e.2.startHeight - 1) acc))) []
    let snap := heights.map fun h =>
      s!"{h}|{Cw4Group.queryTotalWeight g (some h)}|{"|".intercalate (u.map fun a => s!"{a}:{optNatStr (memberAt g a h)}")}"
    let bank := u.map fun a => s!"{a}:{balance w a "ucosm"}:{balance w a "uatom"}:{balance w a "UCOSM"}"
    let cw20 := u.map fun a => s!"{a}:{Cw20.bal w.token a}"
    let allow := m.pool.map fun o => s!"{o}:{((w.token.allow.get? (o, m.flex)).getD Cw20.Allowance.default).amount}"
    [("thr", thr), ("cfg", cfg), ("props", props), ("rprops", rprops), ("pprops", joinC pprops), ("raw", joinC raw),
     ("ph", joinC ph), ("votes", joinC votes), ("pvotes", joinC pvotes), ("voters", members), ("pvoters", joinC pvoters),
     ("members", members), ("gtotal", toString (Cw4Group.queryTotalWeight g none)),
     ("gadmin", optStrStr (Cw4Group.queryAdmin g)), ("ghooks", joinC (Cw4Group.queryHooks g)),
     ("snap", joinC snap), ("bank", joinC bank), ("cw20", joinC cw20), ("allow", joinC allow),
     -- raw dumps of the group's snapshot changelogs
     ("gmlog", joinC ((sortedEntries strLt g.members.log).flatMap fun (a, l) =>
        (sortLog l).map fun e => s!"{a}@{e.1}:{optNatStr e.2}")),
     ("gtlog", joinC ((sortLog g.total.log).map fun e => s!"{e.1}:{optNatStr e.2}"))]

def err (m : MState) (tag : String) : MState × StepResult := (m, { ok := some false, tag := tag })

def parseExec (kind : String) (a : Args) : Option ExecMsg :=
  match kind with
  | "propose" => some (.propose (a.str "title") (a.str "desc") (parseMsgs a) ((a.optStr "latest").bind parseExp))
  | "vote" => (Vote.parse (a.str "vote")).map fun v => .vote (a.nat "id") v
  | "execute" => some (.execute (a.nat "id"))
  | "close" => some (.close (a.nat "id"))
  | "member_changed_hook" => some .memberChangedHook
  | _ => none

def gArg (s : String) : Cw4Group.AddrArg := let p := parseAddr s; ⟨p.1, p.2⟩

def cArg (s : String) : AddrArg := let p := parseAddr s; ⟨p.1, p.2⟩

def shortViews (r : Res (List ProposalView)) : Res String :=
  r.map fun vs => joinC (vs.map fun v => s!"{v.id}:{v.status.render}")

def parseMember (e : String) : Cw4Group.AddrArg × Nat := let p := parsePair e; (gArg p.1, p.2)

def parseDeposit (m : MState) (s : String) : Option DepositArg :=
  match s.splitOn ":" with
  | ["native", d, amt, r] => some ⟨amt.toNat?.getD 0, d, false, r == "1", true⟩
  | ["cw20", amt, r] => some ⟨amt.toNat?.getD 0, m.cw20, true, r == "1", true⟩
  | ["cw20x", amt, r] => some ⟨amt.toNat?.getD 0, m.pool.headD "", true, r == "1", false⟩
  | _ => none

def parseExecutor (s : String) : Option Executor :=
  if s == "-" || s == "" then none
  else if s == "member" then some .member
  else some (.only ((s.drop 5).toString))

/-- `inst`: the whole world, all-or-nothing (see the protocol). -/
def buildWorld (m : MState) (a : Args) : Res World := do
  let owner := m.pool.headD ""
  let bank : AMap (Addr × String) Nat := (a.list "bank").foldl (fun acc e =>
    match e.splitOn ":" with
    | ad :: vals =>
      (DENOMS.zip vals).foldl (fun acc (d, v) => if v.toNat?.getD 0 != 0 then acc.set (ad, d) (v.toNat?.getD 0) else acc) acc
    | _ => acc) []
  let token ← Cw20.instantiate
    { name := "Deposit", symbol := "DEP", decimals := 6,
      initial := (a.list "cw20bal").map fun e => let p := parsePair e; (⟨true, p.1⟩, p.2), mint := none }
  let g0 ← Cw4Group.instantiate { admin := some ⟨true, owner⟩, members := (a.list "members").map parseMember } m.blk.height
  let thr := parseThr (a.str "thr")
  let period ← (match parseDur (a.str "period") with | some d => .ok d | none => .error "period" : Res Duration)
  let s ← Cw3Flex.instantiate
    { group := ⟨true, m.group⟩, threshold := thr, maxVotingPeriod := period, executor := parseExecutor (a.str "executor"),
      deposit := parseDeposit m (a.str "deposit") } (some g0)
  let g1 ← (if a.str "hook" == "1" then (Cw4Group.execute g0 m.blk.height owner (.addHook ⟨true, m.flex⟩)).map (·.1) else .ok g0)
  let g2 ← (if a.str "admin" != owner then
      (Cw4Group.execute g1 m.blk.height owner (.updateAdmin (some ⟨true, a.str "admin"⟩))).map (·.1) else .ok g1)
  pure (World.init s g2 token bank m.flex m.group m.cw20 m.blk.height)

def stepOp (m : MState) (toks : List String) : MState × StepResult :=
  match toks with
  | "env" :: rest =>
    let a := args rest
    ({ m with blk := ⟨a.nat "height", a.nat "time"⟩ }, { ok := none, tag := "env" })
  | "inst" :: rest =>
    match m.w with
    | some _ => err m "inst.twice"
    | none =>
      match buildWorld m (args rest) with
      | .ok w => ({ m with w := some w }, { ok := some true, tag := "inst.ok" })
      | .error e => err m s!"inst.{e}"
  | "group" :: snd :: kind :: rest =>
    match m.w with
    | none => err m "uninit"
    | some w =>
      let a := args rest
      if kind != "update_members" then err m "badop" else
      let msg : Cw4Group.Msg := .updateMembers ((a.list "remove").map gArg) ((a.list "add").map parseMember)
      match tx ext FUEL w m.blk (.group snd msg) with
      | .ok w' => ({ m with w := some w' }, { ok := some true, tag := "group.ok" })
      | .error e => err m s!"group.{e}"
  | "cw20" :: snd :: kind :: rest =>
    match m.w with
    | none => err m "uninit"
    | some w =>
      match Cw20.parseMsg kind (args rest) with
      | none => err m "badop"
      | some msg =>
        match tx ext FUEL w m.blk (.token snd msg) with
        | .ok w' => ({ m with w := some w' }, { ok := some true, tag := s!"cw20.{kind}.ok" })
        | .error e => err m s!"cw20.{kind}.{e}"
  | "exec" :: snd :: kind :: rest =>
    match m.w with
    | none => err m "uninit"
    | some w =>
      let a := args rest
      match parseExec kind a with
      | none => err m "badop"
      | some msg =>
        let funds := parseFunds a
        -- tag: funds, handler outcome, then the outcome of the dispatch
        match moveFunds w.bank snd w.self funds with
        | .error e => err m s!"{kind}.funds.{e}"
        | .ok _ =>
          match Cw3Flex.execute w.flex w.group w.self m.blk snd funds msg with
          | .error e => err m s!"{kind}.{e}"
          | .ok (_, out) =>
            match tx ext FUEL w m.blk (.flex snd funds msg) with
            | .ok w' =>
              ({ m with w := some w' },
               { ok := some true, out := [("msgs", renderOuts out), ("depraw", MsgWire.depRawOfFlex out)],
                 tag := if out.isEmpty then s!"{kind}.ok" else s!"{kind}.ok.dispatched" })
            | .error e => err m s!"{kind}.dispatch.{e}"
  | "query" :: kind :: rest =>
    let a := args rest
    match m.w with
    | none => err m "uninit"
    | some w =>
      let limit := a.optNat "limit"
      let renderMembers := fun (l : List (Addr × Nat)) => joinC (l.map fun p => s!"{p.1}:{p.2}")
      let r : Res String :=
        match kind with
        | "list_proposals" => shortViews (Cw3Flex.listProposals w.flex m.blk (a.optNat "after") limit)
        | "reverse_proposals" => shortViews (Cw3Flex.reverseProposals w.flex m.blk (a.optNat "before") limit)
        | "list_votes" => (Cw3Flex.listVotes w.flex (a.nat "id") ((a.optStr "after").map cArg) limit).map fun l =>
            joinC (l.map fun b => s!"{b.1}:{b.2.vote.render}:{b.2.weight}")
        | "list_voters" => (Cw3Flex.listVoters w.group ((a.optStr "after").map gArg) limit).map renderMembers
        | "list_members" => (Cw4Group.queryListMembers w.group ((a.optStr "after").map gArg) limit).map renderMembers
        | _ => .error "badquery"
      match r with
      | .ok v => (m, { ok := some true, out := [("result", v)], tag := s!"q.{kind}.ok" })
      | .error e => err m s!"q.{kind}.{e}"
  | _ => (m, { ok := none, tag := "unknown" })

/-! ## Re-synchronisation -/

def rsParseStatus : String → Option Status
  | "pending" => some .pending | "open" => some .open | "rejected" => some .rejected
  | "passed" => some .passed | "executed" => some .executed | _ => none

def rsOptNatOf (s : String) : Option Nat := if s == "-" then none else s.toNat?

/-- Inverse of `renderDep`: `some none` for `-`. -/
def rsParseDep (s : String) : Option (Option Deposit) :=
  if s == "-" then some none else
  match s.splitOn ":" with
  | [k, d, amt, r] =>
    if k != "native" && k != "cw20" then none else
    amt.toNat?.map fun a => some ⟨a, d, k == "cw20", r == "1"⟩
  | _ => none

/-- `id:status:y.n.a.v:start` (a missing proposal, `id:-`, gives `none`) -/
def rsParseRawRec (s : String) : Option (Nat × Status × Votes × Nat) :=
  match s.splitOn ":" with
  | [id, st, v, h] =>
    match v.splitOn "." with
    | [y, n, a, ve] => do
      let id ← id.toNat?; let st ← rsParseStatus st; let h ← h.toNat?
      let y ← y.toNat?; let n ← n.toNat?; let a ← a.toNat?; let ve ← ve.toNat?
      pure (id, st, ⟨y, n, a, ve⟩, h)
    | _ => none
  | _ => none

/-- The stored proposal behind a stored record and the proposal's view `id|status|expires|THR|proposer|DEP|title|desc|MSGS`. -/
def proposalOf (r : Nat × Status × Votes × Nat) (view : String) : Option Proposal :=
  match view.splitOn "|" with
  | [_, _, exp, thr, proposer, dep, title, desc, msgs] => do
    let exp ← parseExp exp
    let dep ← rsParseDep dep
    pure { title, description := desc, startHeight := r.2.2.2, expires := exp,
           msgs := (if msgs == "" then [] else msgs.splitOn ";").map parseMsg, status := r.2.1,
           threshold := parseThr thr, totalWeight := lastNatOf thr, votes := r.2.2.1, proposer, deposit := dep }
  | _ => none
where lastNatOf (s : String) : Nat := ((s.splitOn ":").getLast?.bind String.toNat?).getD 0

/-- `addr@h:old` -/
def rsParseMlog (e : String) : Option (String × Nat × Option Nat) :=
  match e.splitOn "@" with
  | [a, r] =>
    match r.splitOn ":" with
    | [h, o] => h.toNat?.map fun h => (a, h, rsOptNatOf o)
    | _ => none
  | _ => none

/-- The multisig: configuration (`cfg`), every stored proposal (`raw` + its view in `pprops`; a stored proposal
whose view fails keeps the old model's text, else the state cannot be rebuilt), every ballot (`votes`); the
counter is the harness's own count of proposals (the length of `raw`).  The group: admin, hooks, members,
total, both changelogs (`gmlog`, `gtlog`: raw dumps).  Bank and deposit-token balances of the universe,
the allowances towards the multisig (`allow`, amounts; the scenario never sets an expiry).  Kept: block,
header data, balances / allowances of anybody else, the token's constant parts, the ghost event log. -/
def resyncOf (m : MState) (o : Args) : Option MState :=
  if (o.get "uninit").isSome then some { m with w := none } else do
  let old := m.w
  -- configuration
  let cfg ← match (o.str "cfg").splitOn "|" with
    | [thr, period, group, ex, dep] => do
      let period ← parseDur period
      let dep ← rsParseDep dep
      pure ({ threshold := parseThr thr, maxVotingPeriod := period, group, executor := parseExecutor ex, deposit := dep } : Config)
    | _ => none
  -- proposals
  let raws := o.list "raw"
  let views := o.list "pprops"
  let props ← raws.foldlM (fun (acc : AMap Nat Proposal) e =>
    if e.endsWith ":-" then some acc else do
    let r ← rsParseRawRec e
    let view := (views.find? fun v => v.startsWith s!"{r.1}|").getD ""
    match proposalOf r view with
    | some p => pure (acc.set r.1 p)
    | none =>
      -- the view failed (`!err`): text, expiry, threshold from the old model, stored part from `raw`
      let p ← (old.bind fun w => w.flex.core.proposals.get? r.1)
      pure (acc.set r.1 { p with status := r.2.1, votes := r.2.2.1, startHeight := r.2.2.2 })) []
  let ballots : AMap Nat (AMap Addr Ballot) := (o.list "votes").foldl (fun acc e =>
    match e.splitOn ":" with
    | [id, a, v, w] =>
      match id.toNat?, Vote.parse v, w.toNat? with
      | some id, some v, some w => acc.set id (((acc.get? id).getD []).set a ⟨w, v⟩)
      | _, _, _ => acc
    | _ => acc) []
  if (o.list "votes").any (· == "!err") then none
  let flex : State := { cfg, core := ⟨raws.length, props, ballots⟩ }
  -- group
  if o.str "members" == "!err" || o.str "ghooks" == "!err" then none
  let gtotal ← (o.str "gtotal").toNat?
  let gmlog : AMap Addr (Snapshot.Log Nat) := ((o.list "gmlog").filterMap rsParseMlog).foldl (fun acc (a, h, old) =>
    acc.set a ((h, old) :: (acc.get? a).getD [])) []
  let gtlog : Snapshot.Log Nat := ((o.list "gtlog").filterMap fun e =>
    match e.splitOn ":" with
    | [h, x] => h.toNat?.map fun h => (h, rsOptNatOf x)
    | _ => none).reverse
  let group : Cw4Group.State :=
    { admin := o.optStr "gadmin", hooks := o.list "ghooks",
      members := { cur := (o.list "members").foldl (fun acc e => let p := parsePair e; acc.set p.1 p.2) [], log := gmlog },
      total := { cur := some gtotal, log := gtlog } }
  -- bank, token
  let u := actors m
  let oldBank : AMap (Addr × String) Nat := match old with | some w => w.bank.filter (fun e => !u.contains e.1.1) | none => []
  let bank := ((o.list "bank").flatMap parseBankRec).foldl (fun acc (k, v) => if v == 0 then acc else acc.set k v) oldBank
  let tok0 ← old.map (·.token)
  let balances := (o.list "cw20").foldl (fun (acc : AMap Addr Nat) e =>
    let p := parsePair e
    if (acc.get? p.1).getD 0 == p.2 then acc else acc.set p.1 p.2) tok0.balances
  let (allow, allowSp) := (o.list "allow").foldl (fun (acc : AMap (Addr × Addr) Cw20.Allowance × AMap (Addr × Addr) Cw20.Allowance) e =>
    let p := parsePair e
    let cur := ((acc.1.get? (p.1, m.flex)).getD Cw20.Allowance.default)
    if cur.amount == p.2 then acc
    else (acc.1.set (p.1, m.flex) { cur with amount := p.2 }, acc.2.set (m.flex, p.1) { cur with amount := p.2 })) (tok0.allow, tok0.allowSp)
  let token : Cw20.State := { tok0 with balances, allow, allowSp }
  pure { m with w := some { flex, group, token, bank, self := m.flex, groupAddr := m.group, tokenAddr := m.cw20,
                            log := match old with | some w => w.log | none => [] } }
where parseBankRec (s : String) : List ((String × String) × Nat) :=
  match s.splitOn ":" with
  | a :: vals => (DENOMS.zip vals).map fun (d, v) => ((a, d), v.toNat?.getD 0)
  | _ => []

/-! ## Monitors: the properties' own predicates, evaluated on implementation observations -/

/-- A proposal as reported by a query:
`id|status|expires|THR|proposer|DEP|title|desc|MSGS`. -/
structure PObs where
  id : Nat
  status : String
  expires : Option Expiration
  thr : Threshold
  total : Nat
  proposer : String
  dep : String
  msgs : String
  /-- everything except the status -/
  content : String
  deriving Inhabited

def lastNat (s : String) : Nat := ((s.splitOn ":").getLast?.bind String.toNat?).getD 0

def parseProp (s : String) : Option PObs :=
  match s.splitOn "|" with
  | [id, st, exp, thr, proposer, dep, title, desc, msgs] =>
    some { id := id.toNat?.getD 0, status := st, expires := parseExp exp, thr := parseThr thr, total := lastNat thr,
           proposer, dep, msgs, content := s!"{id}|{exp}|{thr}|{proposer}|{dep}|{title}|{desc}|{msgs}" }
  | _ => none

/-- `id:voter:vote:weight` -/
structure BObs where
  id : Nat
  addr : String
  vote : String
  weight : Nat
  deriving Inhabited, BEq

def parseBallot (s : String) : Option BObs :=
  match s.splitOn ":" with
  | [id, a, v, w] => some ⟨id.toNat?.getD 0, a, v, w.toNat?.getD 0⟩
  | _ => none

/-- `id:status:y.n.a.v:start` -/
structure RObs where
  id : Nat
  status : String
  yes : Nat
  no : Nat
  abstain : Nat
  veto : Nat
  start : Nat
  deriving Inhabited

def parseRaw (s : String) : Option RObs :=
  match s.splitOn ":" with
  | [id, st, v, h] =>
    match v.splitOn "." with
    | [y, n, a, ve] => some ⟨id.toNat?.getD 0, st, y.toNat?.getD 0, n.toNat?.getD 0, a.toNat?.getD 0, ve.toNat?.getD 0, h.toNat?.getD 0⟩
    | _ => none
  | _ => none

/-- `H|total|addr:w|addr:-|…` -/
structure SObs where
  height : Nat
  total : Nat
  members : List (String × Option Nat)
  deriving Inhabited

def parseSnap (s : String) : Option SObs :=
  match s.splitOn "|" with
  | h :: t :: ms =>
    some ⟨h.toNat?.getD 0, t.toNat?.getD 0, ms.map fun e =>
      match (e.splitOn ":") with
      | [a, w] => (a, w.toNat?)
      | _ => (e, none)⟩
  | _ => none

/-- `addr:ucosm:uatom:UCOSM` (one amount per entry of `DENOMS`; older traces carry two) -/
def parseBank (s : String) : List ((String × String) × Nat) :=
  match s.splitOn ":" with
  | a :: vals => (DENOMS.zip vals).map fun (d, v) => ((a, d), v.toNat?.getD 0)
  | _ => []

structure Obs where
  props : List PObs
  votes : List BObs
  raw : List RObs
  snap : List SObs
  members : List (String × Nat)
  bank : AMap (String × String) Nat
  cw20 : AMap String Nat

def parseObs (o : Args) : Obs :=
  { props := (o.list "props").filterMap parseProp,
    votes := (o.list "votes").filterMap parseBallot,
    raw := (o.list "raw").filterMap parseRaw,
    snap := (o.list "snap").filterMap parseSnap,
    members := (o.list "members").map parsePair,
    bank := (o.list "bank").flatMap parseBank,
    cw20 := (o.list "cw20").map parsePair }

structure T where
  yes : Nat := 0
  no : Nat := 0
  abstain : Nat := 0
  veto : Nat := 0

def T.total (t : T) : Nat := t.yes + t.no + t.abstain + t.veto

def tallyOf (votes : List BObs) (id : Nat) : T :=
  (votes.filter (·.id == id)).foldl (fun t b =>
    match b.vote with
    | "yes" => { t with yes := t.yes + b.weight }
    | "no" => { t with no := t.no + b.weight }
    | "abstain" => { t with abstain := t.abstain + b.weight }
    | _ => { t with veto := t.veto + b.weight }) {}

def E18 : Nat := 1000000000000000000
def E9 : Nat := 1000000000

/-- `num / den ≥ pct` cross-multiplied; with `slack` one further vote is granted when the percentage has more than
nine decimal digits (the library rounds `weight · pct` down to 10^-9 before rounding up).  Same predicate as the
cw3-fixed monitor. -/
def share (num den pct : Nat) (slack : Bool) : Bool :=
  decide (pct * den ≤ (num + (if slack && pct % E9 != 0 then 1 else 0)) * E18)

def passes (thr : Threshold) (total : Nat) (t : T) (expired slack : Bool) : Bool :=
  decide (0 < t.yes) &&
  match thr with
  | .absoluteCount k => decide (k ≤ t.yes)
  | .absolutePercentage p => share t.yes (total - t.abstain) p slack
  | .thresholdQuorum th q =>
    share t.total total q slack &&
    share t.yes ((if expired then t.total else total) - t.abstain) th slack

def cannotPass (thr : Threshold) (total : Nat) (t : T) : Bool :=
  match thr with
  | .absoluteCount k => decide (total - (t.no + t.abstain + t.veto) < k)
  | .absolutePercentage p => decide ((E18 - p) * (total - t.abstain) < (t.no + t.veto) * E18)
  | .thresholdQuorum th _ => decide ((E18 - th) * (total - t.abstain) < (t.no + t.veto) * E18)

def isExp (e : Option Expiration) (b : Block) : Bool :=
  match e with | some e => e.isExpired b | none => false

structure Mon where
  blk : Block := ⟨12345, 1571797419879305533⟩
  inited : Bool := false
  maxp : Option Duration := none
  flex : String := ""
  cw20 : String := ""
  /-- height of the current block if the group was written in it (instantiation included) -/
  dirtyAt : Option Nat := none
  /-- proposals created after a group write in their own block -/
  createdDirty : List Nat := []
  /-- C06 ghost: the pass requirements (threshold incl. total weight) each proposal showed when first seen -/
  thr0 : AMap String String := []
  /-- number of successful top-level Execute transactions per proposal id -/
  execOk : AMap Nat Nat := []
  /-- refunds seen per proposal id (top-level Execute / Close, or inferred nested Close) -/
  refunded : AMap Nat Nat := []
  /-- proposals closed by a Close (as opposed to stored Rejected by a vote or at creation) -/
  closed : List Nat := []
  /-- which kind of op made the *stored* status of a proposal Rejected (first time seen) -/
  rejBy : AMap Nat String := []
  /-- the executor setting the multisig was instantiated with (`-` | `member` | `only:<addr>`); it can never change -/
  exec0 : Option String := none
  /-- header `wide=1`: only the most recent proposals have a snapshot probe -/
  wide : Bool := false

def mk (p sig d : String) : Finding := ⟨p, sig, d⟩

def findProp (o : Obs) (id : Nat) : Option PObs := o.props.find? (·.id == id)
def findRaw (o : Obs) (id : Nat) : Option RObs := o.raw.find? (·.id == id)
def bankOf (o : Obs) (k : String × String) : Nat := (o.bank.get? k).getD 0
def snapAt (o : Obs) (h : Nat) : Option SObs := o.snap.find? (·.height == h)
def snapMember (s : SObs) (a : String) : Option Nat := ((s.members.find? (·.1 == a)).map (·.2)).join

/-- `DEP` → (cw20?, denom-or-token, amount, refund_failed) -/
def parseDep (s : String) : Option (Bool × String × Nat × Bool) :=
  match s.splitOn ":" with
  | ["native", d, amt, r] => some (false, d, amt.toNat?.getD 0, r == "1")
  | ["cw20", t, amt, r] => some (true, t, amt.toNat?.getD 0, r == "1")
  | _ => none

def refundText (dep : String) (proposer : String) : Option String :=
  (parseDep dep).map fun d => if d.1 then s!"cw20/{d.2.1}/transfer/{proposer}/{d.2.2.1}" else s!"bank/{proposer}/{d.2.2.1}{d.2.1}"

def cfgDep (o : Args) : String := ((o.str "cfg").splitOn "|").getLastD "-"
def cfgExecutor (o : Args) : String := (((o.str "cfg").splitOn "|").drop 3).headD "-"

/-- Apply bank sends (`bank/to/amtdenom`) from the multisig to the balances. -/
def applyBank (self : String) (bal : AMap (String × String) Nat) (msgs : List String) : AMap (String × String) Nat :=
  msgs.foldl (fun b m =>
    match m.splitOn "/" with
    | ["bank", to, c] =>
      let k := parseCoin c
      let b1 := b.set (self, k.denom) ((b.get? (self, k.denom)).getD 0 - k.amount)
      b1.set (to, k.denom) ((b1.get? (to, k.denom)).getD 0 + k.amount)
    | _ => b) bal

def splitMsgs (s : String) : List String := if s == "" then [] else s.splitOn ";"

def monitorOp (mu : Mon) (prev : Args) (toks : List String) (implOk : Bool) (out cur : Args) : Mon × List Finding :=
  match toks with
  | "env" :: rest =>
    let a := args rest
    let h := a.nat "height"
    ({ mu with blk := ⟨h, a.nat "time"⟩, dirtyAt := if mu.dirtyAt == some h then mu.dirtyAt else none }, [])
  | "query" :: _ => (mu, [])
  | _ =>
    if (cur.get "uninit").isSome then (mu, []) else
    let kind := match toks with | "exec" :: _ :: k :: _ => k | k :: _ => k | [] => ""
    let snd := match toks with | _ :: s :: _ => s | _ => ""
    let a := if kind == "inst" then args toks.tail else args (toks.drop 3)
    let opId := a.nat "id"
    let blk := mu.blk
    let O := parseObs cur
    let fresh := kind == "inst" || !mu.inited
    let P : Obs := if fresh then { props := [], votes := [], raw := [], snap := [], members := O.members, bank := O.bank, cw20 := O.cw20 }
                   else parseObs prev
    let mu := if fresh then { mu with inited := true, maxp := parseDur (a.str "period"), dirtyAt := some blk.height,
                                      createdDirty := [], execOk := [], refunded := [], closed := [], rejBy := [],
                                      exec0 := if kind == "inst" then some (let e := a.str "executor"; if e == "" then "-" else e) else none } else mu
    let handlerOk := implOk || out.str "handler" == "ok"
    let outMsgs := out.str "msgs"
    -- ---------- bookkeeping: group writes in the current block, proposals created after one
    let groupChanged := prev.str "members" != cur.str "members" || prev.str "gtotal" != cur.str "gtotal"
    let newIds := (O.raw.filter fun r => (findRaw P r.id).isNone).map (·.id)
    let wasDirty := mu.dirtyAt == some blk.height
    let mu := if wasDirty then { mu with createdDirty := mu.createdDirty ++ newIds } else mu
    let mu := if !fresh && implOk && (kind == "group" || groupChanged || (outMsgs.splitOn "group/update").length > 1)
              then { mu with dirtyAt := some blk.height } else mu
    -- ================= C06: ballots are snapshot weights of the proposal's start height
    let f6 := O.props.flatMap fun p =>
      match findRaw O p.id with
      | none => []
      | some r =>
        match snapAt O r.start with
        | none => if mu.wide then [] else [mk "C06" "C06/flex/no-snapshot-probe" s!"id={p.id} start={r.start}"]
        | some sn =>
          let dirty := mu.createdDirty.contains p.id
          let pre := if dirty then "C06/flex/propose-after-group-update-in-same-block" else "C06/flex/not-snapshot"
          let t := tallyOf O.votes p.id
          let pb := O.votes.find? fun b => b.id == p.id && b.addr == p.proposer
          -- the snapshot the proposal is measured against is itself consistent: its total is the sum of its
          -- members' weights (all actors of a trace are probed)
          (let sumM := sn.members.foldl (fun acc m => acc + (m.2.getD 0)) 0
           if sumM == sn.total then [] else
            [mk "C06" "C06/flex/snapshot-total-ne-sum-of-members"
              s!"id={p.id} TotalWeight(at_height={r.start})={sn.total} sum of Member(at_height)={sumM}"]) ++
          (if p.total == sn.total then [] else
            [mk "C06" s!"{pre}/total_weight" s!"id={p.id} total_weight={p.total} TotalWeight(at_height={r.start})={sn.total}"]) ++
          (match pb with
            | some b =>
              if some b.weight == snapMember sn p.proposer then [] else
              [mk "C06" s!"{pre}/proposer_weight" s!"id={p.id} proposer_ballot={b.weight} Member(at_height={r.start})={optNatStr (snapMember sn p.proposer)}"]
            | none => [mk "C06" "C06/flex/no-proposer-ballot" s!"id={p.id}"]) ++
          (if t.total ≤ p.total then [] else
            [mk "C06" (if dirty then s!"{pre}/ballots-outweigh-total" else "C06/flex/ballots-outweigh-total")
              s!"id={p.id} ballots={t.total} total_weight={p.total}"]) ++
          ((O.votes.filter fun b => b.id == p.id && b.addr != p.proposer).flatMap fun b =>
            (if snapMember sn b.addr == some b.weight then [] else
              [mk "C06" "C06/flex/voter-ballot-not-snapshot" s!"id={p.id} voter={b.addr} ballot={b.weight} Member(at_height={r.start})={optNatStr (snapMember sn b.addr)}"]) ++
            (if b.weight ≥ 1 then [] else [mk "C06" "C06/flex/zero-weight-ballot" s!"id={p.id} voter={b.addr}"]))
    -- the total a proposal is measured against never changes after creation, in any view of the proposal
    let thrOf (e : String) : String × String := match e.splitOn "|" with
      | id :: _ :: _ :: thr :: _ => (id, thr)
      | _ => ("", "")
    let views := ((cur.list "props").map thrOf) ++ ((cur.list "pprops").map thrOf)
    let mu : Mon := { mu with thr0 := views.foldl (fun (acc : AMap String String) (v : String × String) =>
      if v.1 == "" || (AMap.get? acc v.1).isSome then acc else acc.set v.1 v.2) (if fresh then [] else mu.thr0) }
    let f6 := f6 ++ (views.filterMap fun (v : String × String) =>
      match AMap.get? mu.thr0 v.1 with
      | some t0 => if v.1 == "" || t0 == v.2 then none else
          some (mk "C06" "C06/flex/total-or-threshold-changed" s!"id={v.1} at_creation={t0} now={v.2}")
      | none => none)
    -- the same fact is C05's "threshold … fixed at creation"
    let f5thr := (views.filterMap fun (v : String × String) =>
      match AMap.get? mu.thr0 v.1 with
      | some t0 => if v.1 == "" || t0 == v.2 then none else
          some (mk "C05" "C05/flex/threshold-changed" s!"id={v.1} at_creation={t0} now={v.2}")
      | none => none)
    -- a vote by an address with weight >= 1 in the proposal's snapshot, which has not voted yet, on an unexpired
    -- proposal that is not executed, is accepted whatever happened to the group afterwards
    let f6 := f6 ++ (if fresh || kind != "vote" || handlerOk then [] else
      match findProp P opId, findRaw P opId with
      | some p, some r =>
        (match snapAt P r.start with
          | some sn =>
            let w := (snapMember sn snd).getD 0
            let voted := P.votes.any fun b => b.id == opId && b.addr == snd
            let dirty := mu.createdDirty.contains opId
            if w ≥ 1 && !voted && !isExp p.expires blk && r.status != "executed" && (Cw3.Vote.parse (a.str "vote")).isSome && !dirty
               && (tallyOf P.votes opId).total + w ≤ p.total then
              [mk "C06" "C06/flex/eligible-voter-refused" s!"id={opId} voter={snd} snapshot_weight={w}"]
            else []
          | none => [])
      | _, _ => [])
    let f6 := f6 ++
      (if (cur.list "pvotes").all (fun b => (cur.list "votes").contains b) then [] else
        [mk "C06" "C06/flex/vote-views-differ" "Vote vs ListVotes",
         mk "C20" "C20/votes-listing-vs-point-queries" "a ballot returned by Vote is missing from the paged ListVotes walk"]) ++
      (let ks := O.votes.map fun b => (b.id, b.addr)
       if ks.eraseDups.length == ks.length then [] else [mk "C06" "C06/flex/two-ballots" "an address is listed twice for one proposal"]) ++
      (P.votes.flatMap fun b => if O.votes.contains b then [] else [mk "C06" "C06/flex/ballot-changed" s!"id={b.id} voter={b.addr}"]) ++
      (O.votes.flatMap fun b =>
        if P.votes.contains b then [] else
        match findProp P b.id, findRaw P b.id with
        | some p, some r =>
          (if isExp p.expires blk then [mk "C06" "C06/flex/vote-after-expiry" s!"id={b.id} voter={b.addr}"] else []) ++
          (if r.status == "executed" then [mk "C06" "C06/flex/vote-on-executed" s!"id={b.id} voter={b.addr}"] else [])
        | _, _ => [])
    -- ================= C03: status = outcome implied by ballots
    let f3 := O.props.flatMap fun p =>
      let t := tallyOf O.votes p.id
      let expd := isExp p.expires blk
      let sid := s!"id={p.id} status={p.status} thr={renderThr p.thr} total={p.total} yes={t.yes} no={t.no} abstain={t.abstain} veto={t.veto} expired={expd}"
      -- a proposal created after a group update in its own block records the post-update total while voters
      -- use the start-of-block snapshot (open finding D3): its outcome is judged against the snapshot total,
      -- and what fails is reported under the known finding's signature
      let dirty := mu.createdDirty.contains p.id
      let snTotal : Option Nat := match findRaw O p.id with
        | some r => (snapAt O r.start).map (·.total)
        | none => none
      if dirty && (snTotal != some p.total || t.total > p.total) then
        (match snTotal with
          | some st =>
            -- (the proposer's ballot carries the post-update weight, so the ballots may outweigh even the snapshot total)
            let base := max st t.total
            if (p.status == "passed" || p.status == "executed") && !(passes p.thr base t true true) && isExp p.expires blk then
              [mk "C03" "C03/flex/propose-after-group-update-in-same-block/passed-below-threshold"
                s!"{sid} snapshot_total={st}"]
            else []
          | none => [])
      else
      -- premise of C03: ballots do not outweigh the total (C06)
      if t.total > p.total then [mk "C03" "C03/flex/ballots-outweigh-total" sid] else
      (match findRaw O p.id with
        | some r => if r.yes == t.yes && r.no == t.no && r.abstain == t.abstain && r.veto == t.veto then []
                    else [mk "C03" "C03/tally-ne-ballots" s!"{sid} stored={r.yes}.{r.no}.{r.abstain}.{r.veto}"]
        | none => []) ++
      (if p.status == "passed" then
        (if t.yes == 0 then [mk "C03" "C03/passed-without-yes" sid] else []) ++
        (if passes p.thr p.total t expd true then [] else [mk "C03" "C03/passed-below-threshold" sid])
      else if p.status == "open" then
        (if expd then [mk "C03" "C03/open-after-expiry" sid] else []) ++
        (if passes p.thr p.total t expd false then [mk "C03" "C03/open-but-passing" sid] else [])
      else if p.status == "rejected" then
        (if (expd && !passes p.thr p.total t true false) || cannotPass p.thr p.total t then []
         else [mk "C03" "C03/rejected-but-can-pass" sid])
      else [])
    let listsOk := cur.str "props" != "!err" && cur.str "rprops" != "!err"
    let f3 := f3 ++ (if !listsOk then [] else
      (if cur.list "rprops" != (cur.list "props").reverse then [mk "C03" "C03/views-differ" "ReverseProposals vs ListProposals"] else []) ++
      (if (cur.list "pprops").take (O.props.length) != cur.list "props" then [mk "C03" "C03/views-differ" "Proposal vs ListProposals"] else []))
    -- Execute / Close are admitted according to the same status (state before the op, at the op's block)
    let authorised : Bool :=
      let ex := mu.exec0.getD (cfgExecutor prev)   -- as instantiated; the stored configuration only as a fallback
      if ex == "-" then true
      else if ex == "member" then (P.members.any fun m => m.1 == snd)
      else ex == s!"only:{snd}"
    let f3 := f3 ++ (if fresh || !(kind == "execute" || kind == "close") then [] else
      match findProp P opId, findRaw P opId with
      | some p, some r =>
        let t := tallyOf P.votes opId
        let expd := isExp p.expires blk
        let sid := s!"id={opId} stored={r.status} thr={renderThr p.thr} total={p.total} yes={t.yes} no={t.no} abstain={t.abstain} veto={t.veto} expired={expd}"
        if t.total > p.total then [] else
        if kind == "execute" then
          if handlerOk then
            (if t.yes == 0 then [mk "C03" "C03/executed-without-yes" sid] else []) ++
            (if r.status == "passed" || (r.status == "open" && passes p.thr p.total t expd true) then []
             else [mk "C03" "C03/executed-not-passed" sid])
          else
            (if authorised && (r.status == "passed" || (r.status == "open" && passes p.thr p.total t expd false)) then
              [mk "C03" "C03/execute-refused-on-passed" sid] else [])
        else
          if handlerOk then
            (if r.status == "open" && expd && !passes p.thr p.total t expd false then []
             else [mk "C03" "C03/closed-not-expired-or-passed" sid])
          else
            (if r.status == "open" && expd && !passes p.thr p.total t expd true then
              [mk "C03" "C03/close-refused-on-expired" sid] else [])
      | _, _ =>
        if handlerOk then [mk "C03" "C03/unknown-proposal-admitted" s!"id={opId}"] else [])
    -- ================= C05: lifecycle
    let edgeOk (x y : String) : Bool :=
      x == y || (x == "open" && (y == "passed" || y == "rejected" || y == "executed")) || (x == "passed" && y == "executed")
    let f5 := P.props.flatMap fun p =>
      match findProp O p.id with
      | none => if listsOk then [mk "C05" "C05/proposal-vanished" s!"id={p.id}"] else []
      | some q =>
        (if edgeOk p.status q.status then [] else [mk "C05" "C05/status-edge" s!"id={p.id} {p.status}->{q.status} by {kind}"]) ++
        (if p.content == q.content then [] else [mk "C05" "C05/proposal-changed" s!"id={p.id} {p.content} -> {q.content}"]) ++
        (match findRaw P p.id, findRaw O p.id with
          | some r, some r' =>
            (if edgeOk r.status r'.status then [] else [mk "C05" "C05/stored-status-edge" s!"id={p.id} {r.status}->{r'.status} by {kind}"]) ++
            (if r.start == r'.start then [] else [mk "C05" "C05/start-height-changed" s!"id={p.id}"])
          | _, _ => [])
    let ids := O.raw.map (·.id)
    let f5 := f5 ++
      (if ids == (List.range ids.length).map (· + 1) then [] else [mk "C05" "C05/ids-not-consecutive" s!"ids={ids}"]) ++
      (if fresh then [] else
        let n := P.raw.length; let n' := O.raw.length
        if kind == "propose" && implOk then (if n' == n + 1 then [] else [mk "C05" "C05/propose-id" s!"count {n}->{n'}"])
        else (if n' == n then [] else [mk "C05" "C05/ids-changed" s!"count {n}->{n'} by {kind} ok={implOk}"]))
    let f5 := f5 ++ (O.props.filter (fun p => (findProp P p.id).isNone && !fresh)).flatMap fun p =>
      (match mu.maxp, p.expires with
        | some d, some e =>
          (match e.cmp? (d.after blk) with
            | some .gt | none => [mk "C05" "C05/expiry-beyond-max" s!"id={p.id} expires={e.render} max={(d.after blk).render}"]
            | _ => [])
        | _, _ => []) ++
      (match findRaw O p.id with
        | some r => if r.start == blk.height then [] else [mk "C05" "C05/start-height" s!"id={p.id} start={r.start} block={blk.height}"]
        | none => [])
    let stable (o : Args) : List String :=
      ["raw", "votes", "members", "gtotal", "gadmin", "ghooks", "bank", "cw20", "allow", "cfg"].map o.str
    let sumBank (o : Obs) (d : String) : Nat := (o.bank.filter (·.1.2 == d)).foldl (fun acc p => acc + p.2) 0
    let sumCw20 (o : Obs) : Nat := o.cw20.foldl (fun acc p => acc + p.2) 0
    let f5 := f5 ++ (if fresh then [] else
      (if !implOk then
        (if stable prev == stable cur then [] else [mk "C05" "C05/failed-tx-changed-state" s!"by {kind}"])
       else []) ++
      (if DENOMS.all (fun d => sumBank P d == sumBank O d) && sumCw20 P == sumCw20 O then [] else
        [mk "C05" "C05/funds-not-conserved" s!"by {kind}"]) ++
      (if implOk && kind == "execute" then
        (match findProp P opId with
          | some p =>
            (match findProp O opId with
              | some q => if q.status == "executed" then [] else [mk "C05" "C05/execute-not-executed" s!"id={opId} status={q.status}"]
              | none => []) ++
            (if p.status == "executed" then [mk "C05" "C05/executed-twice" s!"id={opId} was already executed"] else []) ++
            -- where an executor is configured only an authorised caller dispatches (having voted authorises nobody)
            (if authorised then [] else [mk "C05" "C05/flex/execute-by-unauthorised" s!"id={opId} sender={snd} executor={cfgExecutor prev}"]) ++
            -- out = refund? ++ exactly the proposed messages, in order
            (let expect := (match refundText p.dep p.proposer with | some r => [r] | none => []) ++ splitMsgs p.msgs
             if splitMsgs outMsgs == expect then [] else
               [mk "C05" "C05/execute-messages" s!"id={opId} returned={outMsgs} expected={";".intercalate expect}"]) ++
            -- with bank sends only, the balances move by exactly those sends
            (if (splitMsgs outMsgs).all (fun m => m.startsWith "bank/") then
              let expect := applyBank mu.flex P.bank (splitMsgs outMsgs)
              let ks := (expect.map (·.1) ++ O.bank.map (·.1)).eraseDups
              if ks.all (fun k => (expect.get? k).getD 0 == bankOf O k) then [] else
                [mk "C05" "C05/execute-funds" s!"id={opId} msgs={outMsgs}"]
             else [])
          | none => [])
       else []) ++
      (if implOk && kind == "close" then
        (match findProp P opId with
          | some p => if (splitMsgs outMsgs).any (fun m => (splitMsgs p.msgs).contains m && refundText p.dep p.proposer != some m) then
              [mk "C05" "C05/close-dispatched-proposal-message" s!"id={opId} msgs={outMsgs}"] else []
          | none => [])
       else []) ++
      (if implOk && kind == "vote" && outMsgs != "" then [mk "C05" "C05/vote-messages" s!"msgs={outMsgs}"] else []))
    let cnt := (mu.execOk.get? opId).getD 0
    let mu := if kind == "execute" && implOk && !fresh then { mu with execOk := mu.execOk.set opId (cnt + 1) } else mu
    let f5 := f5 ++ (if kind == "execute" && implOk && !fresh && cnt ≥ 1 then [mk "C05" "C05/executed-twice" s!"id={opId} successful Execute #{cnt + 1}"] else [])
    -- ================= C15: deposits
    let dep := cfgDep prev
    let f15 := if fresh then [] else
      -- (1) a proposal is created only with exactly the configured deposit
      (if kind == "propose" && implOk then
        (match newIds with
          | [id] =>
            (match findProp O id with
              | some p => if p.dep == dep then [] else [mk "C15" "C15/proposal-deposit-ne-config" s!"id={id} deposit={p.dep} config={dep}"]
              | none => [])
          | _ => []) ++
        (match parseDep dep with
          | none => if outMsgs == "" then [] else [mk "C15" "C15/propose-messages-without-deposit" s!"msgs={outMsgs}"]
          | some (false, d, amt, _) =>
            (if a.str "funds" == s!"{amt}{d}" then [] else [mk "C15" "C15/propose-without-exact-deposit" s!"funds={a.str "funds"} deposit={dep}"]) ++
            (if bankOf O (snd, d) + amt == bankOf P (snd, d) && bankOf O (mu.flex, d) == bankOf P (mu.flex, d) + amt then []
             else [mk "C15" "C15/deposit-not-moved" s!"deposit={dep}"]) ++
            (if outMsgs == "" then [] else [mk "C15" "C15/propose-messages" s!"msgs={outMsgs}"])
          | some (true, t, amt, _) =>
            (if outMsgs == s!"cw20/{t}/transfer_from/{snd}/{mu.flex}/{amt}" then [] else
              [mk "C15" "C15/propose-without-exact-deposit" s!"msgs={outMsgs} deposit={dep}"]) ++
            (if (O.cw20.get? snd).getD 0 + amt == (P.cw20.get? snd).getD 0 &&
                (O.cw20.get? mu.flex).getD 0 == (P.cw20.get? mu.flex).getD 0 + amt then []
             else [mk "C15" "C15/deposit-not-moved" s!"deposit={dep}"]))
       else []) ++
      -- (2)-(4) refunds: only to the proposer, only on Execute or (if enabled) on Close
      (if (kind == "execute" || kind == "close") && handlerOk then
        (match findProp P opId with
          | some p =>
            let r := refundText p.dep p.proposer
            let ms := splitMsgs outMsgs
            let refundEnabled := match parseDep p.dep with | some d => d.2.2.2 | none => false
            if kind == "execute" then
              (match r with
                | some r => if ms.head? == some r then [] else [mk "C15" "C15/executed-not-refunded" s!"id={opId} msgs={outMsgs} expected_first={r}"]
                | none => [])
            else
              (match r with
                | some r =>
                  if refundEnabled then
                    (if ms == [r] then [] else [mk "C15" "C15/close-refund" s!"id={opId} msgs={outMsgs} expected={r}"]) ++
                    -- the deposit of a *failed* proposal is what Close returns: not of one that can still be voted on
                    (if ms.contains r && !isExp p.expires blk then
                      [mk "C15" "C15/refund-before-failure" s!"id={opId} closed and refunded before its expiry"] else [])
                  else (if ms.isEmpty then [] else [mk "C15" "C15/refund-when-disabled" s!"id={opId} msgs={outMsgs}"])
                | none => if ms.isEmpty then [] else [mk "C15" "C15/close-messages" s!"id={opId} msgs={outMsgs}"])
          | none => [])
       else [])
    -- refund accounting (committed transactions only)
    let refundsNow : List Nat :=
      if fresh || !implOk then [] else
      -- top-level Execute / Close of a proposal with a (refundable) deposit
      (if kind == "execute" || kind == "close" then
        (match findProp P opId with
          | some p =>
            (match parseDep p.dep with
              | some d => if kind == "execute" || d.2.2.2 then [opId] else []
              | none => [])
          | none => [])
       else []) ++
      -- nested: stored status moved although the op did not address the proposal directly
      (P.raw.filterMap fun r =>
        match findRaw O r.id, findProp P r.id with
        | some r', some p =>
          if (kind == "execute" || kind == "close") && r.id == opId then none
          else if kind != "execute" then none   -- only a proposal's own messages can call back into the multisig
          else if r.status != r'.status then
            let hasDep := (parseDep p.dep).isSome
            let refundEnabled := match parseDep p.dep with | some d => d.2.2.2 | none => false
            if r'.status == "executed" && hasDep then some r.id
            else if r'.status == "rejected" && r.status == "open" && isExp p.expires blk && refundEnabled then some r.id
            else none
          else none
        | _, _ => none)
    let closedNow : List Nat :=
      if fresh || !implOk then [] else
      (if kind == "close" then [opId] else []) ++
      (P.raw.filterMap fun r =>
        match findRaw O r.id, findProp P r.id with
        | some r', some p =>
          if kind == "execute" && r.status == "open" && r'.status == "rejected" && isExp p.expires blk then some r.id else none
        | _, _ => none)
    -- an executed proposal's deposit is returned: the handler's messages are the refund followed by the
    -- proposal's own messages (a proposal message that merely looks like the refund does not replace it);
    -- a Close with refunds enabled returns exactly the refund
    let f15 := f15 ++ (if fresh || !handlerOk || !(kind == "execute" || kind == "close") then [] else
      match findProp P opId with
      | some p =>
        (match refundText p.dep p.proposer, parseDep p.dep with
          | some r, some d =>
            let got := splitMsgs outMsgs
            if kind == "execute" then
              (if got == r :: splitMsgs p.msgs then [] else
                [mk "C15" "C15/executed-not-refunded" s!"id={opId} returned={outMsgs} expected refund {r} first"])
            else if d.2.2.2 then
              (if got == [r] then [] else [mk "C15" "C15/close-refund-missing" s!"id={opId} returned={outMsgs} expected {r}"])
            else (if got == [] then [] else [mk "C15" "C15/refund-when-disabled" s!"id={opId} returned={outMsgs}"])
          | _, _ => [])
      | none => [])
    -- a deposit leaves the multisig only through Execute or Close
    let f15 := f15 ++ (if fresh || !handlerOk || kind == "execute" || kind == "close" || kind == "propose" then [] else
      let got := splitMsgs outMsgs
      (P.props ++ O.props).filterMap fun p =>
        match refundText p.dep p.proposer with
        | some r => if got.contains r then some (mk "C15" "C15/refund-outside-execute-close" s!"id={p.id} by {kind}: {outMsgs}") else none
        | none => none)
    let f15 := f15 ++ refundsNow.flatMap fun id =>
      if (mu.refunded.get? id).getD 0 ≥ 1 then [mk "C15" "C15/refund-twice" s!"id={id} by {kind}"] else []
    let rejNow : List Nat := if !implOk then [] else O.raw.filterMap fun r' =>
      if r'.status == "rejected" && (match findRaw P r'.id with | some r => r.status != "rejected" | none => true)
        && (mu.rejBy.get? r'.id).isNone then some r'.id else none
    let mu := { mu with refunded := refundsNow.foldl (fun m id => m.set id ((m.get? id).getD 0 + 1)) mu.refunded,
                        closed := mu.closed ++ closedNow,
                        rejBy := rejNow.foldl (fun m id => m.set id kind) mu.rejBy }
    -- (5) with refunds enabled the deposit of every failed proposal is recoverable: Close must not be refused
    let f15 := f15 ++ (if fresh || kind != "close" || handlerOk then [] else
      match findProp P opId, findRaw P opId with
      | some p, some r =>
        let refundEnabled := match parseDep p.dep with | some d => d.2.2.2 | none => false
        if p.status == "rejected" && isExp p.expires blk && refundEnabled && (mu.refunded.get? opId).getD 0 == 0 then
          if r.status == "rejected" && !mu.closed.contains opId then
            -- the known finding: voted down before its expiry (a Vote stored Rejected) or created already expired
            -- (Propose stored Rejected); stored Rejected by anything else is a different defect
            let by_ := (mu.rejBy.get? opId).getD "?"
            if by_ == "vote" || by_ == "propose" || by_ == "execute" || by_ == "close" || by_ == "?" then   -- execute: a nested Vote
              [mk "C15" "C15/flex/deposit-stuck-stored-rejected" s!"id={opId} stored=rejected expired deposit={p.dep} Close refused, deposit never refunded"]
            else
              [mk "C15" "C15/flex/deposit-stuck-rejected-by-other-op" s!"id={opId} stored Rejected by {by_}, expired, deposit={p.dep}: Close refused, deposit never refunded"]
          else [mk "C15" "C15/flex/close-refused-deposit-stuck" s!"id={opId} stored={r.status} deposit={p.dep}"]
        else []
      | _, _ => [])
    (mu, f3 ++ f5 ++ f5thr ++ f6 ++ f15)

def scen : Scen MState Mon where
  init h := { pool := h.list "pool", cw20 := h.str "cw20", group := h.str "group", flex := h.str "flex", ghost := h.str "ghost",
              wide := h.str "wide" == "1" }
  step := stepOp
  obs := obsOf
  monInit h := { flex := h.str "flex", cw20 := h.str "cw20", wide := h.str "wide" == "1" }
  monitor := monitorOp
  resync := some resyncOf

end CwPlus.Driver.Cw3Flex
