import CwPlus.Driver.Common
import CwPlus.Model.Cw20
import CwPlus.Model.MsgWire
/-!
Scenario `cw20`: op-line parser, observation renderer and property monitors
(C01, C02, C13, C19) for the cw20-base model.
-/
-- SCENARIO cw20 Cw20.scen
-- SCENARIO cw20wide Cw20.scen
namespace CwPlus.Driver.Cw20
open CwPlus Wire Driver CwPlus.Cw20

structure MState where
  st : Option State := none
  blk : Block := ⟨12345, 1571797419879305533⟩
  pool : List String := []

def addrArg (s : String) : AddrArg := let p := parseAddr s; ⟨p.1, p.2⟩

/-- `addr:amount` (split at the last colon) -/
def parsePair (e : String) : String × Nat :=
  match (e.splitOn ":").reverse with
  | amt :: rest => (":".intercalate rest.reverse, amt.toNat?.getD 0)
  | [] => ("", 0)

/-- `owner>spender:amt:exp` -/
def parseAllow (e : String) : Option ((String × String) × Allowance) :=
  match e.splitOn ":" with
  | [os, amt, exp] =>
    match os.splitOn ">" with
    | [o, s] => (parseExp exp).map fun x => ((o, s), ⟨amt.toNat?.getD 0, x⟩)
    | _ => none
  | _ => none

def obsAllowRaw (o : Args) (field : String) : List ((String × String) × Allowance) :=
  (o.list field).filterMap parseAllow

/-- `x.y.z` or `x.y.z-<pre-release tag>` (split at the first `-`; the tag may contain dots and dashes) -/
def parseVersion (s : String) : Nat × Nat × Nat × Option String :=
  let (core, pre) := match s.splitOn "-" with
    | c :: p :: ps => (c, some ("-".intercalate (p :: ps)))
    | _ => (s, none)
  match core.splitOn "." with
  | [a, b, c] => (a.toNat?.getD 0, b.toNat?.getD 0, c.toNat?.getD 0, pre)
  | _ => (0, 0, 0, pre)

def renderVersion (v : Version) : String :=
  s!"{v.major}.{v.minor}.{v.patch}" ++ (match v.pre with | some p => "-" ++ p | none => "")

/-! ### free text and byte payloads on the wire (see `harness/src/common.rs`) -/

def hexVal (c : Char) : Option Nat :=
  if '0' ≤ c && c ≤ '9' then some (c.toNat - '0'.toNat)
  else if 'a' ≤ c && c ≤ 'f' then some (c.toNat - 'a'.toNat + 10)
  else if 'A' ≤ c && c ≤ 'F' then some (c.toNat - 'A'.toNat + 10)
  else none

def hexDigit (n : Nat) (upper : Bool := false) : Char :=
  if n < 10 then Char.ofNat ('0'.toNat + n)
  else Char.ofNat ((if upper then 'A'.toNat else 'a'.toNat) + (n - 10))

/-- Percent-decoding on bytes (a `%` not followed by two hex digits stays). -/
def pctDecodeBytes : List UInt8 → List UInt8
  | 37 :: h :: l :: rest =>
    match hexVal (Char.ofNat h.toNat), hexVal (Char.ofNat l.toNat) with
    | some x, some y => UInt8.ofNat (16 * x + y) :: pctDecodeBytes rest
    | _, _ => 37 :: pctDecodeBytes (h :: l :: rest)
  | b :: rest => b :: pctDecodeBytes rest
  | [] => []

/-- `text_dec`: `empty` is the empty string, otherwise percent-decoded UTF-8. -/
def textDec (s : String) : String :=
  if s == "empty" then "" else
  (String.fromUTF8? (ByteArray.mk (pctDecodeBytes s.toUTF8.toList).toArray)).getD ""

/-- `text_enc` -/
def textEnc (s : String) : String :=
  if s == "" then "empty" else if s == "empty" then "%65mpty" else
  String.ofList (s.toUTF8.toList.flatMap fun b =>
    let c := Char.ofNat b.toNat
    if c.isAlphanum || c == '_' || c == '.' then [c]
    else ['%', hexDigit (b.toNat / 16) true, hexDigit (b.toNat % 16) true])

def optTextEnc : Option String → String
  | none => "-"
  | some s => textEnc s

def hexBytes : List Char → List Nat
  | h :: l :: rest =>
    match hexVal h, hexVal l with
    | some x, some y => (16 * x + y) :: hexBytes rest
    | _, _ => hexBytes rest
  | _ => []

/-- `parse_payload`: hex, then `.<bb>x<n>` padding segments. -/
def parsePayload (s : String) : Bytes :=
  match s.splitOn "." with
  | [] => []
  | first :: segs =>
    hexBytes first.toList ++ segs.flatMap fun seg =>
      match seg.splitOn "x" with
      | [b, n] =>
        match hexBytes b.toList, n.toNat? with
        | [v], some k => List.replicate k v
        | _, _ => hexBytes seg.toList
      | _ => hexBytes seg.toList

def hexOf (d : Bytes) : String :=
  String.ofList (d.flatMap fun b => [hexDigit (b / 16), hexDigit (b % 16)])

def fnv64 (d : Bytes) : UInt64 :=
  d.foldl (fun h b => (h ^^^ UInt64.ofNat b) * 0x100000001b3) 0xcbf29ce484222325

/-- `render_data`: hex up to 48 bytes, else `#<len>.<fnv1a-64>`. -/
def renderData (d : Bytes) : String :=
  if d.length ≤ 48 then hexOf d
  else
    let h := (fnv64 d).toNat
    s!"#{d.length}." ++ String.ofList ((List.range 16).reverse.map fun i => hexDigit ((h / 16 ^ i) % 16))

def parseLogo (kind val : String) : Option Logo :=
  match kind with
  | "url" => some (.url (textDec val))
  | "svg" => some (.svg (parsePayload val))
  | "png" => some (.png (parsePayload val))
  | _ => none

/-- The marketing address argument: `-` absent, `empty` the empty string, else `+addr` / `-text`. -/
def parseMAddr (a : Args) (k : String) : Option AddrArg :=
  (a.optStr k).map fun t =>
    if t == "empty" then ⟨false, ""⟩ else let p := parseAddr t; ⟨p.1, textDec p.2⟩

def renderMinfo (m : MarketingInfo) : String :=
  let logo := match m.logo with
    | none => "-"
    | some .embedded => "embedded"
    | some (.url u) => s!"url:{textEnc u}"
  s!"{optTextEnc m.project};{optTextEnc m.description};{optTextEnc m.marketing};{logo}"

def renderDownload (r : Res (String × Bytes)) : Res String :=
  r.map fun (mime, d) =>
    let m := if mime == "image/svg+xml" then "svg" else if mime == "image/png" then "png" else textEnc mime
    s!"{m}:{renderData d}"

def parseMsg (kind : String) (a : Args) : Option Msg :=
  let amt := a.nat "amt"
  match kind with
  | "transfer" => some (.transfer (addrArg (a.str "to")) amt)
  | "burn" => some (.burn amt)
  | "send" => some (.send (addrArg (a.str "contract")) amt (a.str "payload"))
  | "mint" => some (.mint (addrArg (a.str "to")) amt)
  | "update_minter" => some (.updateMinter ((a.optStr "new").map addrArg))
  | "increase_allowance" => some (.increaseAllowance (addrArg (a.str "spender")) amt (a.optExp "expires"))
  | "decrease_allowance" => some (.decreaseAllowance (addrArg (a.str "spender")) amt (a.optExp "expires"))
  | "transfer_from" => some (.transferFrom (addrArg (a.str "owner")) (addrArg (a.str "to")) amt)
  | "burn_from" => some (.burnFrom (addrArg (a.str "owner")) amt)
  | "send_from" => some (.sendFrom (addrArg (a.str "owner")) (addrArg (a.str "contract")) amt (a.str "payload"))
  | "marketing" =>
    some (.updateMarketing ((a.optStr "project").map textDec) ((a.optStr "description").map textDec)
      (parseMAddr a "marketing"))
  | "logo" =>
    (["url", "svg", "png"].findSome? fun k => (a.get k).bind (parseLogo k)).map .uploadLogo
  | _ => none

def renderOut (o : Out) : String := s!"recv/{o.contract}/{o.sender}/{o.amount}/{o.payload}"

def renderAllow (k : String × String) (al : Allowance) : String :=
  s!"{k.1}>{k.2}:{al.amount}:{al.expires.render}"

def renderListing (l : List (Addr × Allowance)) : String :=
  joinC (l.map fun p => s!"{p.1}:{p.2.amount}:{p.2.expires.render}")

open Paginate in
def obsOf (m : MState) : Args :=
  match m.st with
  | none => [("uninit", "1")]
  | some s =>
    let bals := (sortedEntries strLt s.balances).map fun p => s!"{p.1}:{p.2}"
    -- owner listings for every pool owner; rendered owner>spender
    let allow := m.pool.flatMap fun o =>
      (sortedEntries strLt (ownerPrefix s o)).map fun p => renderAllow (o, p.1) p.2
    let allowsp := m.pool.flatMap fun sp =>
      (sortedEntries strLt (spenderPrefix s sp)).map fun p => renderAllow (p.1, sp) p.2
    let pallow := m.pool.flatMap fun o => m.pool.filterMap fun sp =>
      let a := (s.allow.get? (o, sp)).getD Allowance.default
      if a.amount != 0 || a.expires != .never then some (renderAllow (o, sp) a) else none
    [("supply", toString s.supply),
     ("minter", match s.mint with | some mm => mm.minter | none => "-"),
     ("cap", match s.mint with | some mm => optNatStr mm.cap | none => "-"),
     ("bal", joinC bals),
     ("allow", joinC (sortStrings allow)),
     ("allowsp", joinC (sortStrings allowsp)),
     ("pallow", joinC (sortStrings pallow)),
     ("minfo", renderMinfo (queryMarketingInfo s)),
     ("logo", match renderDownload (queryDownloadLogo s) with | .ok v => v | .error _ => "err"),
     ("ver", s!"{s.version.name}@{renderVersion s.version}")]

/-! ## Re-synchronisation: the model state rebuilt from an implementation observation -/

def parseOptText (s : String) : Option String := if s == "-" then none else some (textDec s)

/-- Inverse of `renderMinfo`; `none` for `err` / anything of another shape. -/
def parseMinfo (s : String) : Option MarketingInfo :=
  match s.splitOn ";" with
  | [p, d, m, l] =>
    let logo : Option (Option LogoInfo) :=
      if l == "-" then some none
      else if l == "embedded" then some (some .embedded)
      else if l.startsWith "url:" then some (some (.url (textDec (l.drop 4).toString)))
      else none
    logo.map fun lg => ⟨parseOptText p, parseOptText d, parseOptText m, lg⟩
  | _ => none

/-- The stored logo behind a `logo=` rendering.  `err` (nothing to download): a URL logo when the
marketing info names one, else nothing.  Data rendered as a hash (> 48 bytes): the old model value when it
renders to the same hash, otherwise the state cannot be rebuilt. -/
def resyncLogo (old : Option Logo) (mi : MarketingInfo) (r : String) : Option (Option Logo) :=
  if r == "err" then
    some (match mi.logo with | some (.url u) => some (.url u) | _ => none)
  else
    match r.splitOn ":" with
    | [mime, d] =>
      if mime != "svg" && mime != "png" then none
      else if d.startsWith "#" then
        match old with
        | some (.svg b) => if mime == "svg" && renderData b == d then some old else none
        | some (.png b) => if mime == "png" && renderData b == d then some old else none
        | _ => none
      else some (some (if mime == "svg" then .svg (hexBytes d.toList) else .png (hexBytes d.toList)))
    | _ => none

/-- `name@x.y.z` (split at the last `@`) -/
def parseVer (s : String) : Option Version :=
  match (s.splitOn "@").reverse with
  | v :: n :: rest =>
    let (core, pre) := match v.splitOn "-" with
      | c :: p :: ps => (c, some ("-".intercalate (p :: ps)))
      | _ => (v, none)
    match core.splitOn "." with
    | [a, b, c] => do
      let a ← a.toNat?; let b ← b.toNat?; let c ← c.toNat?
      pure ⟨"@".intercalate (n :: rest).reverse, a, b, c, pre⟩
    | _ => none
  | _ => none

/-- Supply, minter/cap, balances, both allowance maps (`allow` = owner view → `State.allow`, `allowsp` =
spender view → `State.allowSp`; both list everything the generator can create: pool owners / pool
spenders), marketing info, logo and cw2 version come from the observation; block and pool stay. -/
def resyncOf (m : MState) (o : Args) : Option MState :=
  if (o.get "uninit").isSome then some { m with st := none } else do
  let supply ← (o.str "supply").toNat?
  let mint : Option Minter := if o.str "minter" == "-" then none else some ⟨o.str "minter", o.optNat "cap"⟩
  let mi ← parseMinfo (o.str "minfo")
  let logo ← resyncLogo (m.st.bind (·.logo)) mi (o.str "logo")
  let version ← match parseVer (o.str "ver") with
    | some v => some v
    | none => m.st.map (·.version)
  let balances : AMap Addr Nat := (o.list "bal").foldl (fun acc e => let p := parsePair e; acc.set p.1 p.2) []
  let allow : AMap (Addr × Addr) Allowance := (obsAllowRaw o "allow").foldl (fun acc (k, v) => acc.set k v) []
  let allowSp : AMap (Addr × Addr) Allowance :=
    (obsAllowRaw o "allowsp").foldl (fun acc (k, v) => acc.set (k.2, k.1) v) []
  let marketing : Option MarketingInfo := if mi == {} then none else some mi
  pure { m with st := some { supply, mint, balances, allow, allowSp, version, marketing, logo } }

def err (m : MState) (tag : String) : MState × StepResult := (m, { ok := some false, tag := tag })

def stepOp (m : MState) (toks : List String) : MState × StepResult :=
  match toks with
  | "env" :: rest =>
    let a := args rest
    ({ m with blk := ⟨a.nat "height", a.nat "time"⟩ }, { ok := none, tag := "env" })
  | "inst" :: rest =>
    let a := args rest
    let initial := (a.list "bal").map fun e => let p := parsePair e; (addrArg p.1, p.2)
    let mint := (a.optStr "mint").map fun mm => (addrArg mm, a.optNat "cap")
    let marketing : Option InstMarketing := (a.optStr "mkt").map fun _ =>
      { project := (a.optStr "mproject").map textDec, description := (a.optStr "mdesc").map textDec,
        marketing := (a.optStr "maddr").map fun t => let p := parseAddr t; ⟨p.1, textDec p.2⟩,
        logo := (a.optStr "mlogo").bind fun l =>
          match l.splitOn ":" with
          | k :: rest => parseLogo k (":".intercalate rest)
          | [] => none }
    let msg : InstMsg := { name := a.str "name", symbol := a.str "sym", decimals := a.nat "dec", initial, mint,
                           marketing }
    match m.st with
    | some _ => err m "inst.twice"
    | none =>
      match instantiate msg with
      | .ok s => ({ m with st := some s }, { ok := some true, tag := "inst.ok" })
      | .error e => err m s!"inst.{e}"
  | "inst_legacy" :: rest =>
    let a := args rest
    let bals : AMap Addr Nat := (a.list "bal").foldl (fun acc e => let p := parsePair e; acc.set (parseAddr p.1).2 p.2) []
    let total := AMap.sum bals
    let mint := (a.optStr "mint").map fun mm => Minter.mk (parseAddr mm).2 (a.optNat "cap")
    let allow : AMap (Addr × Addr) Allowance := (a.list "allow").foldl (fun acc e =>
      match parseAllow e with | some (k, v) => acc.set k v | none => acc) []
    let v := parseVersion (a.str "ver")
    ({ m with st := some { supply := total, mint, balances := bals, allow, allowSp := [],
                           version := ⟨a.str "name", v.1, v.2.1, v.2.2.1, v.2.2.2⟩ } },
     { ok := some true, tag := "inst_legacy" })
  | "migrate" :: _ =>
    match m.st with
    | none => err m "uninit"
    | some s =>
      match migrate s with
      | .ok s' => ({ m with st := some s' }, { ok := some true, tag := "migrate.ok" })
      | .error e => err m s!"migrate.{e}"
  | "exec" :: snd :: kind :: rest =>
    match m.st with
    | none => err m "uninit"
    | some s =>
      match parseMsg kind (args rest) with
      | none => err m "badop"
      | some msg =>
        match execute s m.blk snd msg with
        | .ok (s', out) =>
          ({ m with st := some s' },
           { ok := some true, out := [("msgs", ";".intercalate (out.map renderOut)), ("raw", MsgWire.rawOfCw20 out)],
             tag := s!"{kind}.ok" })
        | .error e => err m s!"{kind}.{e}"
  | "query" :: kind :: rest =>
    let a := args rest
    match m.st with
    | none => err m "uninit"
    | some s =>
      let after := a.optStr "after"
      let limit := a.optNat "limit"
      let r : Res String :=
        match kind with
        | "all_accounts" => .ok (joinC (queryAllAccounts s after limit))
        | "all_allowances" => (queryOwnerAllowances s (addrArg (a.str "owner")) after limit).map renderListing
        | "all_spender_allowances" => (querySpenderAllowances s (addrArg (a.str "spender")) after limit).map renderListing
        | "balance" => (queryBalance s (addrArg (a.str "address"))).map toString
        | "marketing_info" => .ok (renderMinfo (queryMarketingInfo s))
        | "download_logo" => renderDownload (queryDownloadLogo s)
        | _ => .error "badquery"
      match r with
      | .ok v => (m, { ok := some true, out := [("result", v)], tag := s!"q.{kind}.ok" })
      | .error e => err m s!"q.{kind}.{e}"
  | _ => (m, { ok := none, tag := "unknown" })

/-! ## Monitors: the properties' own predicates, evaluated on implementation observations -/

structure Mon where
  blk : Block := ⟨12345, 1571797419879305533⟩
  /-- C13 ghost: the cap fixed at instantiation (`none` = not yet instantiated) -/
  cap0 : Option (Option Nat) := none
  /-- C13 ghost: has the minter role ever been renounced / absent -/
  renounced : Bool := false
  /-- C02 ghosts: cumulative amounts granted by owner to spender, and drawn by spender -/
  granted : AMap (String × String) Nat := []
  drawn : AMap (String × String) Nat := []
  inited : Bool := false
  legacy : Bool := false

def obsBal (o : Args) : List (String × Nat) := (o.list "bal").map parsePair
def obsSupply (o : Args) : Nat := o.nat "supply"
def obsAllow (o : Args) (field : String) : AMap (String × String) Allowance :=
  (o.list field).filterMap parseAllow
def balOf (o : Args) (a : String) : Nat := (AMap.get? (obsBal o) a).getD 0
def allowOf (o : Args) (k : String × String) : Allowance := (AMap.get? (obsAllow o "pallow") k).getD Allowance.default

def mk (p sig d : String) : Finding := ⟨p, sig, d⟩

def monitorOp (mu : Mon) (prev : Args) (toks : List String) (implOk : Bool) (out cur : Args) : Mon × List Finding :=
  match toks with
  | "env" :: rest => let a := args rest; ({ mu with blk := ⟨a.nat "height", a.nat "time"⟩ }, [])
  | "query" :: _ => (mu, [])
  | _ =>
    if (cur.get "uninit").isSome then (mu, []) else
    let kind := match toks with | "exec" :: _ :: k :: _ => k | k :: _ => k | [] => ""
    let snd := match toks with | "exec" :: s :: _ => s | _ => ""
    let a := match toks with | "exec" :: _ :: _ :: rest => args rest | _ :: rest => args rest | [] => []
    let amt := a.nat "amt"
    let isInst := kind == "inst" || kind == "inst_legacy"
    let fresh := isInst || !mu.inited
    -- ---------- C01
    let sumBal := (obsBal cur).foldl (fun acc p => acc + p.2) 0
    let f1 := if sumBal != obsSupply cur then
        [mk "C01" "C01/sum" s!"sum_of_listed_balances={sumBal} supply={obsSupply cur}"] else []
    let f1 := f1 ++ (if fresh then [] else
      let sp := obsSupply prev; let sc := obsSupply cur
      if !implOk then
        (if cur != prev then [mk "C01" "C01/failed-call-changed-state" "state changed by a failing call"] else [])
      else if kind == "mint" then
        (if sc != sp + amt then [mk "C01" "C01/mint-delta" s!"supply {sp}->{sc} amt={amt}"] else [])
      else if kind == "burn" || kind == "burn_from" then
        (if sc + amt != sp then [mk "C01" "C01/burn-delta" s!"supply {sp}->{sc} amt={amt}"] else [])
      else if sc != sp then [mk "C01" "C01/supply-changed" s!"supply {sp}->{sc} by {kind}"] else [])
    -- mint / burn move exactly one balance by amt
    let changed := if fresh then [] else
      let keys := ((obsBal prev).map (·.1) ++ (obsBal cur).map (·.1)).eraseDups
      keys.filter fun k => balOf prev k != balOf cur k
    let f1 := f1 ++ (if fresh || !implOk then [] else
      if kind == "mint" then
        let to := (parseAddr (a.str "to")).2
        if amt == 0 then (if changed.isEmpty then [] else [mk "C01" "C01/mint-balances" "zero mint moved balances"])
        else if changed == [to] && balOf cur to == balOf prev to + amt then [] else [mk "C01" "C01/mint-balances" s!"changed={changed}"]
      else if kind == "burn" || kind == "burn_from" then
        let who := if kind == "burn" then snd else (parseAddr (a.str "owner")).2
        if amt == 0 then (if changed.isEmpty then [] else [mk "C01" "C01/burn-balances" "zero burn moved balances"])
        else if changed == [who] && balOf cur who + amt == balOf prev who then [] else [mk "C01" "C01/burn-balances" s!"changed={changed}"]
      else [])
    -- ---------- C13
    let capStr := cur.str "cap"; let minterStr := cur.str "minter"
    let mu := if isInst then { mu with cap0 := some (cur.optNat "cap"), renounced := minterStr == "-", inited := true,
                                         legacy := kind == "inst_legacy", granted := [], drawn := [] } else mu
    let f13 := if fresh then [] else
      let sp := obsSupply prev; let sc := obsSupply cur
      (if sc > sp && !(kind == "mint" && prev.str "minter" == snd && implOk) then
        [mk "C13" "C13/unauthorised-mint" s!"supply rose {sp}->{sc} by {kind} from {snd}, minter={prev.str "minter"}"] else []) ++
      (match mu.cap0 with
        | some (some c) => if sc > c then [mk "C13" "C13/cap-exceeded" s!"supply={sc} cap0={c}"] else []
        | _ => []) ++
      -- a Mint call (of any amount, also 0) is accepted only from the registered minter: "no address can ever mint"
      (if kind == "mint" && implOk && prev.str "minter" != snd then
        [mk "C13" "C13/mint-accepted-from-non-minter" s!"mint amt={amt} from {snd} accepted, minter={prev.str "minter"}"] else []) ++
      -- the tokens in circulation (sum of the listed balances), not only the recorded supply
      (let sumPrev := (obsBal prev).foldl (fun acc p => acc + p.2) 0
       (if sumBal > sumPrev && !(kind == "mint" && prev.str "minter" == snd && implOk) then
          [mk "C13" "C13/tokens-created-without-mint" s!"sum of balances rose {sumPrev}->{sumBal} by {kind} from {snd}, minter={prev.str "minter"}"] else []) ++
       (match mu.cap0 with
        | some (some c) => if sumBal > c && sumBal > sumPrev then [mk "C13" "C13/circulation-above-cap" s!"sum of balances={sumBal} cap0={c}"] else []
        | _ => [])) ++
      (if minterStr != "-" && capStr != optNatStr (mu.cap0.getD none) then
        [mk "C13" "C13/cap-changed" s!"cap={capStr} cap0={optNatStr (mu.cap0.getD none)}"] else []) ++
      (if minterStr != prev.str "minter" && !(kind == "update_minter" && prev.str "minter" == snd && implOk) then
        [mk "C13" "C13/minter-changed" s!"minter {prev.str "minter"}->{minterStr} by {kind} from {snd}"] else []) ++
      (if mu.renounced && minterStr != "-" then [mk "C13" "C13/minter-after-renounce" s!"minter={minterStr}"] else []) ++
      -- a successful UpdateMinter has exactly its effect: the named address holds the role, or — when none is
      -- named — nobody does ("renounce"; theorems C13.update_minter_ok_iff, renounce_then_all_fail)
      (if kind == "update_minter" && implOk then
        let want := match a.optStr "new" with
          | some t => (parseAddr t).2
          | none => "-"
        if minterStr == want then [] else
          [mk "C13" "C13/update-minter-effect" s!"requested={want} registered={minterStr}"]
       else [])
    let mu := if minterStr == "-" then { mu with renounced := true } else mu
    -- ---------- C19: the three views agree
    let vOwner := obsAllow cur "allow"; let vSp := obsAllow cur "allowsp"; let vPt := obsAllow cur "pallow"
    let norm (m : AMap (String × String) Allowance) (k : String × String) : Allowance := (AMap.get? m k).getD Allowance.default
    let keys := (vOwner.map (·.1) ++ vSp.map (·.1) ++ vPt.map (·.1)).eraseDups
    -- a legacy (pre-0.14) state has no spender listing until `migrate` ran; C19 speaks of the state after migration
    let mu := if kind == "migrate" && implOk then { mu with legacy := false } else mu
    let f19 := if mu.legacy then [] else
      keys.filterMap fun k =>
        if norm vOwner k == norm vSp k && norm vOwner k == norm vPt k then none
        else some (mk "C19" "C19/views-differ" s!"pair={k.1}>{k.2}")
    -- ---------- C20: the by-spender listing returns exactly the current items.  Model-independent: the pairs
    -- the harness collected by paging AllSpenderAllowances for every pool spender against the pairs it
    -- collected by paging AllAllowances for every pool owner (all allowances are between pool actors).
    -- Same legacy guard as C19: before `migrate` a pre-0.14 state has no by-spender index.
    let f20 := if mu.legacy then [] else
      let ko := vOwner.map (·.1); let ks := vSp.map (·.1)
      let ghost := ks.filter fun k => !ko.contains k
      let missing := ko.filter fun k => !ks.contains k
      if ghost.isEmpty && missing.isEmpty then [] else
        let r (l : List (String × String)) := "+".intercalate (l.map fun k => s!"{k.1}>{k.2}")
        [mk "C20" "C20/spender-listing-vs-current-items"
          s!"listed_by_spender_but_not_current={r ghost} current_but_not_listed_by_spender={r missing}"]
    -- ---------- C02
    let f2 := if fresh || mu.legacy then [] else
      let dec := changed.filter fun k => balOf cur k < balOf prev k
      let isFrom := kind == "transfer_from" || kind == "send_from" || kind == "burn_from"
      let owner := (parseAddr (a.str "owner")).2
      let fb := dec.filterMap fun acct =>
        if !implOk then some (mk "C02" "C02/debit-on-failure" s!"acct={acct}")
        else if acct == snd && (kind == "transfer" || kind == "send" || kind == "burn") then
          (if balOf prev acct - balOf cur acct ≤ amt then none else some (mk "C02" "C02/overdebit" s!"acct={acct}"))
        else if isFrom && acct == owner then
          let al := allowOf prev (owner, snd)
          if al.expires.isExpired mu.blk then some (mk "C02" "C02/draw-on-expired" s!"owner={owner} spender={snd}")
          else if al.amount < amt then some (mk "C02" "C02/draw-beyond-allowance" s!"allowance={al.amount} amt={amt}")
          else if balOf prev acct - balOf cur acct > amt then some (mk "C02" "C02/overdebit" s!"acct={acct}")
          else none
        else some (mk "C02" "C02/unauthorised-debit" s!"acct={acct} by {kind} from {snd}")
      -- a successful draw lowers the allowance by exactly amt and needs it unexpired and sufficient
      let fd := if isFrom && implOk then
          let al := allowOf prev (owner, snd); let al' := allowOf cur (owner, snd)
          (if al.expires.isExpired mu.blk || al.amount < amt then [mk "C02" "C02/draw-without-allowance" s!"allowance={al.amount} amt={amt}"] else []) ++
          (if al'.amount + amt != al.amount then [mk "C02" "C02/draw-allowance-delta" s!"{al.amount}->{al'.amount} amt={amt}"] else []) ++
          -- … and changes nothing else of it: the owner's expiry stays attached, also when the draw uses the
          -- allowance up (theorem C02.draw_exact: `{al with amount := al.amount - amt}`)
          -- … while moving exactly that amount: the owner must hold it (also when owner and recipient coincide,
          -- where the net change is zero) — theorem C02.draw_ok_iff (`DrawReady`: amt ≤ balance of the owner)
          (if balOf prev owner < amt then
            [mk "C02" "C02/draw-beyond-balance" s!"owner={owner} holds {balOf prev owner}, drawn {amt} by {kind}"] else []) ++
          (if al'.expires != al.expires then
            [mk "C02" "C02/draw-changed-expiry" s!"{al.expires.render}->{al'.expires.render} amt={amt} left={al'.amount}"] else [])
        else []
      -- allowance frame
      let pk := ((obsAllow prev "pallow").map (·.1) ++ vPt.map (·.1)).eraseDups
      let fa := pk.filterMap fun k =>
        let old := allowOf prev k; let new := allowOf cur k
        if old == new then none
        else if !implOk then some (mk "C02" "C02/allowance-changed-on-failure" s!"pair={k.1}>{k.2}")
        else if snd == k.1 && (kind == "increase_allowance" || kind == "decrease_allowance") && (parseAddr (a.str "spender")).2 == k.2 then
          (if kind == "decrease_allowance" && new.amount != old.amount - amt then some (mk "C02" "C02/decrease-not-saturating" s!"{old.amount}->{new.amount} amt={amt}")
           else if kind == "increase_allowance" && new.amount != old.amount + amt then some (mk "C02" "C02/increase-delta" s!"{old.amount}->{new.amount} amt={amt}")
           else none)
        else if snd == k.2 && isFrom && owner == k.1 then none
        else some (mk "C02" "C02/allowance-frame" s!"pair={k.1}>{k.2} changed by {kind} from {snd}")
      -- a successful increase / decrease has exactly its effect (decrease saturating at zero)
      let fe := if !implOk then [] else
        let k := (snd, (parseAddr (a.str "spender")).2)
        let old := allowOf prev k; let new := allowOf cur k
        if kind == "decrease_allowance" && new.amount != old.amount - amt then
          [mk "C02" "C02/decrease-effect" s!"{old.amount}->{new.amount} amt={amt}"]
        else if kind == "increase_allowance" && new.amount != old.amount + amt then
          [mk "C02" "C02/increase-effect" s!"{old.amount}->{new.amount} amt={amt}"]
        else if (kind == "increase_allowance" || kind == "decrease_allowance") then
          -- an expiry named by the owner is the one recorded (while the entry exists)
          match a.optExp "expires" with
          | some e =>
            (if new.amount != 0 && new.expires != e then
              [mk "C02" "C02/expiry-not-recorded" s!"requested={e.render} stored={new.expires.render}"] else []) ++
            -- an expiry that has already passed is refused (a decrease that removes the entry ignores it)
            (if e.isExpired mu.blk && (kind == "increase_allowance" || amt < old.amount) then
              [mk "C02" "C02/expired-expiry-accepted" s!"requested={e.render} by {kind}"] else [])
          | none =>
            -- no expiry named: the deadline the owner set earlier stays (an entry that existed and still exists)
            if old.amount != 0 && new.amount != 0 && new.expires != old.expires then
              [mk "C02" "C02/expiry-changed-without-request" s!"{old.expires.render}->{new.expires.render} by {kind} without expires"] else []
        else []
      -- notifications
      let msgs := out.str "msgs"
      let fn := if !implOk then [] else
        if kind == "send" then
          (if msgs == s!"recv/{(parseAddr (a.str "contract")).2}/{snd}/{amt}/{a.str "payload"}" then [] else [mk "C02" "C02/send-notification" s!"msgs={msgs}"])
        else if kind == "send_from" then
          (if msgs == s!"recv/{(parseAddr (a.str "contract")).2}/{snd}/{amt}/{a.str "payload"}" then [] else [mk "C02" "C02/send-notification" s!"msgs={msgs}"])
        else if kind == "marketing" || kind == "logo" || kind == "migrate" then []
        else (if msgs == "" then [] else [mk "C02" "C02/spurious-message" s!"msgs={msgs}"])
      fb ++ fd ++ fa ++ fe ++ fn
    -- C02 cumulative ghost ledger: drawn ≤ granted
    let isFrom := kind == "transfer_from" || kind == "send_from" || kind == "burn_from"
    let mu := if fresh || !implOk then mu else
      if kind == "increase_allowance" then
        let k := (snd, (parseAddr (a.str "spender")).2)
        { mu with granted := mu.granted.set k ((mu.granted.get? k).getD 0 + amt) }
      else if isFrom then
        let k := ((parseAddr (a.str "owner")).2, snd)
        { mu with drawn := mu.drawn.set k ((mu.drawn.get? k).getD 0 + amt) }
      else mu
    let mu := if isInst && kind == "inst_legacy" then
        -- allowances present in a legacy state count as granted before the trace started
        { mu with granted := (obsAllow cur "pallow").map fun p => (p.1, p.2.amount) } else mu
    let fg := mu.drawn.filterMap fun (k, d) =>
      if d ≤ (mu.granted.get? k).getD 0 then none
      else some (mk "C02" "C02/cumulative" s!"pair={k.1}>{k.2} drawn={d} granted={(mu.granted.get? k).getD 0}")
    (mu, f1 ++ f13 ++ f19 ++ f20 ++ f2 ++ fg)

def scen : Scen MState Mon where
  init h := { pool := h.list "pool" }
  step := stepOp
  obs := obsOf
  monInit _ := {}
  monitor := monitorOp
  resync := some resyncOf

end CwPlus.Driver.Cw20
