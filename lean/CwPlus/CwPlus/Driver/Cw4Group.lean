import CwPlus.Driver.Common
import CwPlus.Model.Cw4Group
import CwPlus.Model.MsgWire
import CwPlus.Model.Cw4Raw
/-!
Scenario `cw4group`: op-line parser, observation renderer and property monitors
(C09, C14 — cw4-group part) for the cw4-group model.

Op lines (see `harness/src/scen_cw4group.rs`):

    inst admin=<+a|-text|-> members=<+a:w,…>
    exec <snd> update_admin admin=<+a|-text|->
    exec <snd> update_members remove=<+a,…> add=<+a:w,…>
    exec <snd> add_hook addr=<+a|-text>          exec <snd> remove_hook addr=<+a|-text>
    query member addr=.. at=<h|->   query total_weight at=<h|->
    query list_members after=<+a|-text|-> limit=<n|->   query admin   query hooks
-/
-- SCENARIO cw4group Cw4Group.scen
-- SCENARIO cw4groupwide Cw4Group.scen
namespace CwPlus.Driver.Cw4Group
open CwPlus Wire Driver CwPlus.Cw4Group CwPlus.Snapshot

structure MState where
  st : Option State := none
  height : Nat := 12345
  pool : List String := []
  /-- instantiation height -/
  h0 : Nat := 0
  /-- heights at which an `inst`/`exec` op succeeded since instantiation (ascending, no repeats) -/
  heights : List Nat := []
  /-- header `wide=1` (`cw4groupwide`): the at-height probes use only the 3 most recent recorded heights -/
  wide : Bool := false

def addrArg (s : String) : AddrArg := let p := parseAddr s; ⟨p.1, p.2⟩

/-- `none` for `-` / missing, otherwise an address literal. -/
def optAddrArg (a : Args) (k : String) : Option AddrArg := (a.optStr k).map addrArg

/-- `x:n` (split at the last colon) -/
def parsePair (e : String) : String × Nat :=
  match (e.splitOn ":").reverse with
  | amt :: rest => (":".intercalate rest.reverse, amt.toNat?.getD 0)
  | [] => ("", 0)

def parseMember (e : String) : AddrArg × Nat := let p := parsePair e; (addrArg p.1, p.2)

/-- Insert into an ascending list without repeats. -/
def insertNat (x : Nat) : List Nat → List Nat
  | [] => [x]
  | y :: ys => if x < y then x :: y :: ys else if x = y then y :: ys else y :: insertNat x ys

/-- Heights probed by the observation: 0 (not a synonym of "latest"), `h0 - 1`, every height with a successful op,
current, current + 1. -/
def probeHeights (h0 cur : Nat) (heights : List Nat) : List Nat :=
  insertNat 0 (insertNat (cur + 1) (insertNat cur (insertNat (h0 - 1) heights)))

def parseMsg (kind : String) (a : Args) : Option Msg :=
  match kind with
  | "update_admin" => some (.updateAdmin (optAddrArg a "admin"))
  | "update_members" => some (.updateMembers ((a.list "remove").map addrArg) ((a.list "add").map parseMember))
  | "add_hook" => some (.addHook (addrArg (a.str "addr")))
  | "remove_hook" => some (.removeHook (addrArg (a.str "addr")))
  | _ => none

def renderDiff (d : Diff) : String := s!"{d.key}:{optNatStr d.old}:{optNatStr d.new}"

def renderOut (o : Out) : String := s!"hook/{o.hook}/{"+".intercalate (o.diffs.map renderDiff)}"

def renderMembers (l : List (Addr × Nat)) : String := joinC (l.map fun p => s!"{p.1}:{p.2}")

/-- A changelog in ascending height order. -/
def sortLog (l : Log Nat) : List (Nat × Option Nat) :=
  l.mergeSort (fun a b => decide (a.1 ≤ b.1))

open Paginate in
/-- Raw dump of a `SnapshotMap` changelog: `addr@height:old`, by address then height. -/
def renderMapLog (log : AMap Addr (Log Nat)) : String :=
  joinC ((sortedEntries strLt log).flatMap fun (a, l) => (sortLog l).map fun e => s!"{a}@{e.1}:{optNatStr e.2}")

/-- Raw dump of a `SnapshotItem` changelog: `height:old`. -/
def renderItemLog (log : Log Nat) : String :=
  joinC ((sortLog log).map fun e => s!"{e.1}:{optNatStr e.2}")

open Paginate in
def obsOf (m : MState) : Args :=
  match m.st with
  | none => [("uninit", "1")]
  | some s =>
    let hs := probeHeights m.h0 m.height (if m.wide then m.heights.drop (m.heights.length - 3) else m.heights)
    let mh := m.pool.flatMap fun a => hs.map fun h => s!"{a}@{h}:{optNatStr (s.members.atHeight a h)}"
    let th := hs.map fun h => s!"{h}:{queryTotalWeight s (some h)}"
    [("admin", optStrStr (queryAdmin s)),
     ("hooks", joinC (queryHooks s)),
     ("members", renderMembers (sortedEntries strLt s.members.cur)),
     ("total", toString (queryTotalWeight s none)),
     ("mh", joinC mh),
     ("th", joinC th),
     ("rawtotal", optNatStr s.total.cur),
     ("rawmem", joinC (m.pool.map fun a => s!"{a}:{optNatStr (s.members.get? a)}")),
     -- the harness's record of the heights with a successful op (the at-height probes are taken there)
     ("hs", joinC (m.heights.map toString)),
     -- raw dumps of the two snapshot changelogs (`MEMBERS.changelog()`, `TOTAL.changelog()`)
     ("mlog", renderMapLog s.members.log),
     ("tlog", renderItemLog s.total.log),
     -- the byte layout of the storage: `encode` of the model state, rendered as the harness renders the real
     -- storage (`scen_cw4group::render_raw_keys`); probes = the first two pool addresses.  `resyncOf` does not
     -- read this field (everything it shows is determined by the fields above).
     ("rawkeys", RawStore.renderRawKeys (m.pool.take 2) (encode s)),
     ("rawextra", "")]

/-! ## Re-synchronisation -/

def optNatOf (s : String) : Option Nat := if s == "-" then none else s.toNat?

/-- `addr@h:old` -/
def parseMlog (e : String) : Option (String × Nat × Option Nat) :=
  match e.splitOn "@" with
  | [a, r] =>
    match r.splitOn ":" with
    | [h, o] => h.toNat?.map fun h => (a, h, optNatOf o)
    | _ => none
  | _ => none

/-- `h:old` -/
def parseTlog (e : String) : Option (Nat × Option Nat) :=
  match e.splitOn ":" with
  | [h, o] => h.toNat?.map fun h => (h, optNatOf o)
  | _ => none

/-- Everything is in the observation: admin, hooks (in order), the member listing, the raw total, the two
changelogs (`mlog`, `tlog`: exact raw dumps) and the recorded heights (`hs`; the first is the
instantiation height).  Current height, pool and `wide` stay. -/
def resyncOf (m : MState) (o : Args) : Option MState :=
  if (o.get "uninit").isSome then some { m with st := none, h0 := 0, heights := [] } else
  let cur : AMap Addr Nat := (o.list "members").foldl (fun acc e => let p := parsePair e; acc.set p.1 p.2) []
  -- newest entry first, as `SnapMap.write` builds it
  let mlog : AMap Addr (Log Nat) := ((o.list "mlog").filterMap parseMlog).foldl (fun acc (a, h, old) =>
    acc.set a ((h, old) :: (acc.get? a).getD [])) []
  let tlog : Log Nat := ((o.list "tlog").filterMap parseTlog).reverse
  let heights := (o.list "hs").filterMap String.toNat?
  some { m with
    st := some { admin := o.optStr "admin", hooks := o.list "hooks",
                 members := { cur := cur, log := mlog },
                 total := { cur := optNatOf (o.str "rawtotal"), log := tlog } },
    h0 := heights.head?.getD m.h0, heights := heights }

def err (m : MState) (tag : String) : MState × StepResult := (m, { ok := some false, tag := tag })

def stepOp (m : MState) (toks : List String) : MState × StepResult :=
  match toks with
  | "env" :: rest =>
    let a := args rest
    ({ m with height := a.nat "height" }, { ok := none, tag := "env" })
  | "inst" :: rest =>
    let a := args rest
    let msg : InstMsg := { admin := optAddrArg a "admin", members := (a.list "members").map parseMember }
    match m.st with
    | some _ => err m "inst.twice"
    | none =>
      match instantiate msg m.height with
      | .ok s => ({ m with st := some s, h0 := m.height, heights := [m.height] }, { ok := some true, tag := "inst.ok" })
      | .error e => err m s!"inst.{e}"
  | "exec" :: snd :: kind :: rest =>
    match m.st with
    | none => err m "uninit"
    | some s =>
      match parseMsg kind (args rest) with
      | none => err m "badop"
      | some msg =>
        match execute s m.height snd msg with
        | .ok (s', out) =>
          ({ m with st := some s', heights := insertNat m.height m.heights },
           { ok := some true, out := [("msgs", ";".intercalate (out.map renderOut)), ("hookraw", MsgWire.hookRawOfGroup out)],
             tag := s!"{kind}.ok" })
        | .error e => err m s!"{kind}.{e}"
  | "query" :: kind :: rest =>
    let a := args rest
    match m.st with
    | none => (m, { ok := none, tag := "q.uninit" })
    | some s =>
      let at_ := a.optNat "at"
      let r : Res String :=
        match kind with
        | "member" => (queryMember s (addrArg (a.str "addr")) at_).map optNatStr
        | "total_weight" => .ok (toString (queryTotalWeight s at_))
        | "list_members" => (queryListMembers s (optAddrArg a "after") (a.optNat "limit")).map renderMembers
        | "admin" => .ok (optStrStr (queryAdmin s))
        | "hooks" => .ok (joinC (queryHooks s))
        | _ => .error "badquery"
      match r with
      | .ok v => (m, { ok := some true, out := [("result", v)], tag := s!"q.{kind}.ok" })
      | .error e => err m s!"q.{kind}.{e}"
  | _ => (m, { ok := none, tag := "unknown" })

/-! ## Monitors: the properties' own predicates, evaluated on implementation observations -/

/-- Values at the start of a block as seen through the implementation's observations. -/
structure Start where
  height : Nat
  members : List (String × Nat)
  total : Nat

structure Mon where
  height : Nat := 12345
  inited : Bool := false
  /-- C09 ghost: for every block in which an op ran, the values that held when the block started
  (= the observation after the last op of the previous block; nothing / 0 before instantiation) -/
  starts : List Start := []

def obsMembers (o : Args) : List (String × Nat) := (o.list "members").map parsePair

/-- The ghost value for height `h`: the start-of-block record with the least height `≥ h`, else `none`
(= nothing changed at or after `h`: the current value). -/
def startAt (starts : List Start) (h : Nat) : Option Start :=
  starts.foldl (fun best s =>
    if h ≤ s.height then
      match best with
      | none => some s
      | some b => if s.height < b.height then some s else some b
    else best) none

/-- `addr@h:w` -/
def parseMh (e : String) : String × Nat × String :=
  match e.splitOn "@" with
  | [a, r] => (match r.splitOn ":" with
    | [h, w] => (a, h.toNat?.getD 0, w)
    | _ => (a, 0, "?"))
  | _ => ("", 0, "?")

def parseDiff (e : String) : Diff :=
  match e.splitOn ":" with
  | [k, o, n] => ⟨k, if o == "-" then none else o.toNat?, if n == "-" then none else n.toNat?⟩
  | _ => ⟨"?", none, none⟩

/-- `hook/<addr>/<diffs>` → `(hook, diffs text)`; anything else → `("?", text)` -/
def parseHookMsg (e : String) : String × String :=
  match e.splitOn "/" with
  | ["hook", h, d] => (h, d)
  | _ => ("?", e)

def mk (p sig d : String) : Finding := ⟨p, sig, d⟩

/-- Replay diffs sequentially on a map; returns the final map and the diffs whose `old` was not the
weight held immediately before. -/
def replayObs (m : AMap String Nat) (ds : List Diff) : AMap String Nat × List Diff :=
  ds.foldl (fun (acc : AMap String Nat × List Diff) d =>
    let bad := if acc.1.get? d.key == d.old then acc.2 else acc.2 ++ [d]
    (match d.new with
      | some w => acc.1.set d.key w
      | none => acc.1.erase d.key, bad)) (m, [])

def monitorOp (mu : Mon) (prev : Args) (toks : List String) (implOk : Bool) (out cur : Args) : Mon × List Finding :=
  match toks with
  | "env" :: rest => ({ mu with height := (args rest).nat "height" }, [])
  | "query" :: _ => (mu, [])
  | _ =>
    if (cur.get "uninit").isSome then (mu, []) else
    let kind := match toks with | "exec" :: _ :: k :: _ => k | k :: _ => k | [] => ""
    let snd := match toks with | "exec" :: s :: _ => s | _ => ""
    let a := match toks with | "exec" :: _ :: _ :: rest => args rest | _ :: rest => args rest | [] => []
    let fresh := kind == "inst" && !mu.inited
    let h := mu.height
    let members := obsMembers cur
    let total := cur.nat "total"
    -- ---------- C09 ghost: remember what held when this block started
    let mu : Mon :=
      if fresh then { mu with inited := true, starts := [⟨h, [], 0⟩] }
      else if mu.starts.any (fun s => s.height == h) then mu
      else { mu with starts := mu.starts ++ [⟨h, obsMembers prev, prev.nat "total"⟩] }
    -- (a) total = Σ listed weights
    let sum := members.foldl (fun acc p => acc + p.2) 0
    let fa := if sum != total then [mk "C09" "C09/sum" s!"sum_of_listed_weights={sum} total={total}"] else []
    -- (b) every at-height probe equals the value at the start of that block
    let fm := (cur.list "mh").filterMap fun e =>
      let (addr, ph, w) := parseMh e
      let expected := match startAt mu.starts ph with
        | some s => optNatStr (AMap.get? s.members addr)
        | none => optNatStr (AMap.get? members addr)
      if w == expected then none
      else some (mk "C09" "C09/member-at-height" s!"addr={addr} height={ph} reported={w} start_of_block={expected}")
    let ft := (cur.list "th").filterMap fun e =>
      let p := parsePair e
      let ph := p.1.toNat?.getD 0
      let expected := match startAt mu.starts ph with
        | some s => s.total
        | none => total
      if p.2 == expected && (e.splitOn ":").length == 2 then none
      else some (mk "C09" "C09/total-at-height" s!"height={ph} reported={e} start_of_block={expected}")
    -- (c) raw reads = smart reads
    let fr := (if cur.str "rawtotal" != toString total then
        [mk "C09" "C09/raw-total" s!"raw={cur.str "rawtotal"} smart={total}"] else []) ++
      ((cur.list "rawmem").filterMap fun e =>
        match (e.splitOn ":") with
        | [addr, w] =>
          if w == optNatStr (AMap.get? members addr) then none
          else some (mk "C09" "C09/raw-member" s!"addr={addr} raw={w} smart={optNatStr (AMap.get? members addr)}")
        | _ => some (mk "C09" "C09/raw-member" s!"unparsable={e}"))
    -- (d) the membership after an accepted UpdateMembers is the one the message documents: the adds in order
    --     (set weight), then the removes ("remove is applied after add, so if an address is in both, it is removed")
    let fe := if fresh || kind != "update_members" || !implOk then [] else
      let pM := obsMembers prev
      let afterAdd := (a.list "add").foldl (fun (acc : AMap String Nat) e =>
        let p := parsePair e; acc.set (parseAddr p.1).2 p.2) pM
      let want := (a.list "remove").foldl (fun (acc : AMap String Nat) e => acc.erase (parseAddr e).2) afterAdd
      let keys := (pM.map (·.1) ++ members.map (·.1) ++ want.map (·.1)).eraseDups
      keys.filterMap fun k =>
        if AMap.get? want k == AMap.get? members k then none
        else some (mk "C09" "C09/update-members-effect" s!"addr={k} documented={optNatStr (AMap.get? want k)} listed={optNatStr (AMap.get? members k)}")
    let f9 := fa ++ fm ++ ft ++ fr ++ fe
    -- ---------- C14
    let f14 := if fresh || kind == "inst" then [] else
      let pAdmin := prev.str "admin"
      let pMembers := obsMembers prev
      let changed := (if pAdmin != cur.str "admin" then ["admin"] else []) ++
        (if prev.str "hooks" != cur.str "hooks" then ["hooks"] else []) ++
        (if prev.str "members" != cur.str "members" then ["members"] else [])
      let fauth := if changed.isEmpty then [] else
        (if pAdmin == "-" then [mk "C14" "C14/frozen-changed" s!"admin is none, {changed} changed by {kind} from {snd}"] else []) ++
        (if !implOk then [mk "C14" "C14/changed-on-failure" s!"{changed} changed by a failing {kind}"]
         else if pAdmin != snd then [mk "C14" "C14/unauthorised-change" s!"{changed} changed by {kind} from {snd}, admin={pAdmin}"]
         else [])
      let msgs := out.str "msgs"
      let fmsg :=
        if !implOk then []
        else if kind != "update_members" then
          (if msgs == "" then [] else [mk "C14" "C14/spurious-message" s!"kind={kind} msgs={msgs}"])
        else
          let ms := (if msgs == "" then [] else msgs.splitOn ";").map parseHookMsg
          let hooks := prev.list "hooks"
          -- exactly one message per currently registered hook (a removed hook is not in `hooks`)
          let f1 := if sortStrings (ms.map (·.1)) == sortStrings hooks then []
            else [mk "C14" "C14/one-message-per-hook" s!"hooks={joinC hooks} notified={joinC (ms.map (·.1))}"]
          -- all carry the same diffs
          let f2 := match ms with
            | [] => []
            | m0 :: rest => if rest.all (fun m => m.2 == m0.2) then [] else [mk "C14" "C14/diffs-differ-between-hooks" msgs]
          -- the diffs are truthful: sequential replay on the previous members gives the new members,
          -- every `old` is the weight held immediately before, only touched addresses are mentioned
          let f3 := match ms with
            | [] => []
            | m0 :: _ =>
              let ds := (if m0.2 == "" then [] else m0.2.splitOn "+").map parseDiff
              let (final, bad) := replayObs pMembers ds
              let touched := ((a.list "add").map fun e => (parseAddr (parsePair e).1).2) ++ ((a.list "remove").map fun e => (parseAddr e).2)
              let keys := (pMembers.map (·.1) ++ members.map (·.1) ++ ds.map (·.key)).eraseDups
              (bad.map fun d => mk "C14" "C14/diff-old-wrong" s!"diff={renderDiff d}") ++
              (keys.filterMap fun k =>
                if AMap.get? final k == AMap.get? members k then none
                else some (mk "C14" "C14/diff-new-wrong" s!"addr={k} replayed={optNatStr (AMap.get? final k)} listed={optNatStr (AMap.get? members k)}")) ++
              (ds.filterMap fun d =>
                if touched.contains d.key then none else some (mk "C14" "C14/diff-untouched-address" s!"diff={renderDiff d}"))
          -- without hooks nobody hears the diffs; the membership change must still be the one asked for
          f1 ++ f2 ++ f3
      fauth ++ fmsg
    (mu, f9 ++ f14)

def scen : Scen MState Mon where
  init h := { pool := h.list "pool", wide := h.str "wide" == "1" }
  step := stepOp
  obs := obsOf
  monInit _ := {}
  monitor := monitorOp
  resync := some resyncOf

end CwPlus.Driver.Cw4Group
