import CwPlus.Driver.Common
import CwPlus.Model.Cw3Fixed
/-!
Scenario `cw3fixed`: op-line parser, observation renderer and property monitors
(C03, C05, C06 — cw3-fixed part) for the cw3-fixed-multisig model in its runtime world
(bank balances, self-calls, sink contract).

Line protocol (see `harness/src/scen_cw3fixed.rs`):

    scenario cw3fixed seed= trace= pool=a0,…,a5 self=<multisig address>
    inst voters=+addr:w,-bad:w,… thr=count:K|pct:ATOMICS|quorum:T:Q maxp=hN|tSECS funds=N funds2=N
    exec <sender> propose title= desc= msgs=m,m,… latest=-|hN|tNANOS|never
    exec <sender> vote id= vote=yes|no|abstain|veto
    exec <sender> execute id=      exec <sender> close id=
    fund amt= denom=               sink ok=0|1
    query list_proposals|reverse_proposals|list_votes|list_voters|proposal|vote|voter …

message language: `bank:to:amt:denom  sx:id  sc:id  sv:id:vote  sp:latest  other:tag  nc:tag`.
-/
-- SCENARIO cw3fixed Cw3Fixed.scen
-- SCENARIO cw3fixedwide Cw3Fixed.scen
namespace CwPlus.Driver.Cw3Fixed
open CwPlus Wire Driver CwPlus.Cw3 CwPlus.Cw3Core CwPlus.Cw3Fixed

def DENOMS : List String := ["ucosm", "uatom"]
def FUEL : Nat := 4000

structure MState where
  w : Option World := none
  blk : Block := ⟨12345, 1571797419879305533⟩
  pool : List String := []
  self : String := ""

def addrArg (s : String) : AddrArg := let p := parseAddr s; ⟨p.1, p.2⟩

/-- `text:number` split at the last colon -/
def parsePair (e : String) : String × Nat :=
  match (e.splitOn ":").reverse with
  | n :: rest => (":".intercalate rest.reverse, n.toNat?.getD 0)
  | [] => ("", 0)

def parseThr (s : String) : Threshold :=
  match s.splitOn ":" with
  | ["count", k] => .absoluteCount (k.toNat?.getD 0)
  | ["pct", p] => .absolutePercentage (p.toNat?.getD 0)
  | ["quorum", t, q] => .thresholdQuorum (t.toNat?.getD 0) (q.toNat?.getD 0)
  | _ => .absoluteCount 0

def renderThr : Threshold → String
  | .absoluteCount k => s!"count:{k}"
  | .absolutePercentage p => s!"pct:{p}"
  | .thresholdQuorum t q => s!"quorum:{t}:{q}"

def optExp (s : String) : Option Expiration := if s == "-" then none else parseExp s

def parseMsg (s : String) : Msg :=
  match s.splitOn ":" with
  | ["bank", to, amt, denom] => .bank to (amt.toNat?.getD 0) denom
  | ["sx", id] => .selfExecute (id.toNat?.getD 0)
  | ["sc", id] => .selfClose (id.toNat?.getD 0)
  | ["sv", id, v] => .selfVote (id.toNat?.getD 0) ((Vote.parse v).getD .veto)
  | ["sp", l] => .selfPropose (optExp l)
  | ["other", tag] => .other tag
  | ["nc", tag] => .noContract tag
  | _ => .noContract "?"

def renderMsg : Msg → String
  | .bank to amt denom => s!"bank:{to}:{amt}:{denom}"
  | .selfExecute id => s!"sx:{id}"
  | .selfClose id => s!"sc:{id}"
  | .selfVote id v => s!"sv:{id}:{v.render}"
  | .selfPropose l => s!"sp:{match l with | some e => e.render | none => "-"}"
  | .other tag => s!"other:{tag}"
  | .noContract tag => s!"nc:{tag}"

def renderView (v : ProposalView) : String :=
  s!"{v.id}|{v.status.render}|{v.expires.render}|{renderThr v.threshold}|{v.totalWeight}|{v.proposer}|{v.title}|{v.description}|{if v.deposit.isSome then "deposit" else "-"}|{"+".intercalate (v.msgs.map renderMsg)}"

def renderBallot (b : Ballot) : String := s!"{b.weight}:{b.vote.render}"

def actors (m : MState) : List String := m.pool ++ [m.self]

open Paginate in
def obsOf (m : MState) : Args :=
  match m.w with
  | none => [("uninit", "1")]
  | some w =>
    let s := w.ms
    let (thr, total) := queryThreshold s
    let voters := (sortedEntries strLt s.voters).map fun p => s!"{p.1}:{p.2}"
    let pvoters := (actors m).map fun a => s!"{a}:{optNatStr (s.voters.get? a)}"
    let entries := sortedEntries natLt s.core.proposals
    let views := entries.filterMap fun e => match viewOf m.blk e.1 e.2 with | .ok v => some v | .error _ => none
    let props := views.map renderView
    let maxid := entries.foldl (fun acc e => max acc e.1) 0
    let pprops := (List.range (maxid + 1)).map fun i =>
      let id := i + 1
      match Cw3Fixed.queryProposal s m.blk id with
      | .ok v => renderView v
      | .error _ => s!"{id}|none"
    let votes := entries.flatMap fun e =>
      (sortedEntries strLt (ballotsOf s.core e.1)).map fun b => s!"{e.1}>{b.1}:{renderBallot b.2}"
    let pvotes := entries.flatMap fun e =>
      (actors m).filterMap fun a =>
        match (ballotsOf s.core e.1).get? a with
        | some b => some s!"{e.1}>{a}:{renderBallot b}"
        | none => none
    let raw := entries.map fun e =>
      let p := e.2
      s!"{e.1}|{p.status.render}|{p.votes.yes}:{p.votes.no}:{p.votes.abstain}:{p.votes.veto}|{p.startHeight}"
    let bal := (actors m).flatMap fun a => DENOMS.filterMap fun d =>
      let b := balance w a d
      if b != 0 then some s!"{a}:{d}:{b}" else none
    [("thr", renderThr thr), ("total", toString total), ("voters", joinC voters), ("pvoters", joinC pvoters),
     ("props", joinC props), ("rprops", joinC props.reverse), ("pprops", joinC pprops),
     ("votes", joinC votes), ("pvotes", joinC pvotes), ("raw", joinC raw), ("bal", joinC bal),
     ("sink", if w.sinkOk then "1" else "0"),
     -- raw reads: `CONFIG.max_voting_period`, `PROPOSAL_COUNT`
     ("maxp", s.cfg.maxVotingPeriod.render), ("count", toString s.core.count)]

/-! ## Re-synchronisation -/

def parseStatus : String → Option Status
  | "pending" => some .pending | "open" => some .open | "rejected" => some .rejected
  | "passed" => some .passed | "executed" => some .executed | _ => none

/-- stored record `id|status|y:n:a:v|start_height` -/
def parseRawRec (s : String) : Option (Nat × Status × Votes × Nat) :=
  match s.splitOn "|" with
  | [id, st, v, h] =>
    match v.splitOn ":" with
    | [y, n, a, ve] => do
      let id ← id.toNat?; let st ← parseStatus st; let h ← h.toNat?
      let y ← y.toNat?; let n ← n.toNat?; let a ← a.toNat?; let ve ← ve.toNat?
      pure (id, st, ⟨y, n, a, ve⟩, h)
    | _ => none
  | _ => none

/-- One proposal from its listed view (`props`) and its stored record (`raw`). -/
def parsePropRec (raws : List (Nat × Status × Votes × Nat)) (s : String) : Option (Nat × Proposal) :=
  match s.splitOn "|" with
  | [id, _, exp, thr, total, proposer, title, desc, _, msgs] => do
    let id ← id.toNat?
    let exp ← parseExp exp
    let total ← total.toNat?
    let (_, st, votes, h) ← raws.find? (·.1 == id)
    pure (id, { title, description := desc, startHeight := h, expires := exp,
                msgs := (if msgs == "" then [] else msgs.splitOn "+").map parseMsg, status := st,
                threshold := parseThr thr, totalWeight := total, votes, proposer, deposit := none })
  | _ => none

/-- `id>addr:weight:vote` -/
def parseBallotRec (s : String) : Option (Nat × String × Ballot) :=
  match s.splitOn ">" with
  | [id, rest] =>
    match rest.splitOn ":" with
    | [a, w, v] => do
      let id ← id.toNat?; let w ← w.toNat?; let v ← Vote.parse v
      pure (id, a, ⟨w, v⟩)
    | _ => none
  | _ => none

/-- `addr:denom:amount` -/
def parseBalRec (s : String) : Option ((String × String) × Nat) :=
  match s.splitOn ":" with
  | [a, d, n] => n.toNat?.map fun n => ((a, d), n)
  | _ => none

/-- Configuration (`thr`, `total`, `maxp`), voters, every proposal (listed view + stored record; ids must be
exactly `1..count`, otherwise the listing is not the whole map and the state cannot be rebuilt), every
ballot (`votes`), the balances of the actors, the sink flag.  Kept: block, pool, balances of addresses
outside the actor list, the ghost event log. -/
def resyncOf (m : MState) (o : Args) : Option MState :=
  if (o.get "uninit").isSome then some { m with w := none } else do
  let maxp ← parseDur (o.str "maxp")
  let count ← (o.str "count").toNat?
  if o.str "thr" == "?" then none
  let raws := (o.list "raw").filterMap parseRawRec
  let props ← (o.list "props").mapM (parsePropRec raws)
  if props.map (·.1) != (List.range count).map (· + 1) then none
  let ballots : AMap Nat (AMap Addr Ballot) := ((o.list "votes").filterMap parseBallotRec).foldl
    (fun acc (id, a, b) => acc.set id (((acc.get? id).getD []).set a b)) []
  let voters : AMap Addr Nat := (o.list "voters").foldl (fun acc e => let p := parsePair e; acc.set p.1 p.2) []
  let act := actors m
  let oldBank : AMap (Addr × String) Nat := match m.w with | some w => w.bank.filter (fun e => !act.contains e.1.1) | none => []
  let bank := ((o.list "bal").filterMap parseBalRec).foldl (fun acc (k, v) => acc.set k v) oldBank
  let ms : State := { cfg := ⟨parseThr (o.str "thr"), o.nat "total", maxp⟩, voters,
                      core := ⟨count, props.foldl (fun acc (id, p) => acc.set id p) [], ballots⟩ }
  pure { m with w := some { ms, self := m.self, bank, sinkOk := o.str "sink" == "1",
                            log := match m.w with | some w => w.log | none => [] } }

def err (m : MState) (tag : String) : MState × StepResult := (m, { ok := some false, tag := tag })

def parseExec (kind : String) (a : Args) : Option ExecMsg :=
  match kind with
  | "propose" => some (.propose (a.str "title") (a.str "desc") ((a.list "msgs").map parseMsg) ((a.optStr "latest").bind parseExp))
  | "vote" => some (.vote (a.nat "id") ((Vote.parse (a.str "vote")).getD .veto))
  | "execute" => some (.execute (a.nat "id"))
  | "close" => some (.close (a.nat "id"))
  | _ => none

def shortViews (r : Res (List ProposalView)) : Res String :=
  r.map fun vs => joinC (vs.map fun v => s!"{v.id}:{v.status.render}")

def stepOp (m : MState) (toks : List String) : MState × StepResult :=
  match toks with
  | "env" :: rest =>
    let a := args rest
    ({ m with blk := ⟨a.nat "height", a.nat "time"⟩ }, { ok := none, tag := "env" })
  | "inst" :: rest =>
    let a := args rest
    let voters := (a.list "voters").map fun e => let p := parsePair e; (addrArg p.1, p.2)
    let msg : InstMsg := { voters, threshold := parseThr (a.str "thr"),
                           maxVotingPeriod := (parseDur (a.str "maxp")).getD (.height 1) }
    match m.w with
    | some _ => err m "inst.twice"
    | none =>
      match instantiate msg with
      | .ok s =>
        let bank : AMap (Addr × String) Nat :=
          (if a.nat "funds" != 0 then [((m.self, "ucosm"), a.nat "funds")] else []) ++
          (if a.nat "funds2" != 0 then [((m.self, "uatom"), a.nat "funds2")] else [])
        ({ m with w := some (World.init s m.self bank true) }, { ok := some true, out := [("self", "same")], tag := "inst.ok" })
      | .error e => err m s!"inst.{e}"
  | "fund" :: rest =>
    let a := args rest
    match m.w with
    | none => err m "uninit"
    | some w =>
      if a.nat "amt" == 0 then err m "fund.zero" else
      let w' := step FUEL w ⟨m.blk, .fund (a.nat "amt") (a.str "denom")⟩
      ({ m with w := some w' }, { ok := some true, tag := "fund.ok" })
  | "sink" :: rest =>
    let a := args rest
    match m.w with
    | none => err m "uninit"
    | some w => ({ m with w := some (step FUEL w ⟨m.blk, .setSink (a.nat "ok" == 1)⟩) }, { ok := some true, tag := "sink.ok" })
  | "exec" :: snd :: kind :: rest =>
    match m.w with
    | none => err m "uninit"
    | some w =>
      match parseExec kind (args rest) with
      | none => err m "badop"
      | some msg =>
        -- tag: handler outcome, then the outcome of the dispatch
        match Cw3Fixed.execute w.ms m.blk snd msg with
        | .error e => err m s!"{kind}.{e}"
        | .ok (_, out) =>
          match tx FUEL w m.blk snd msg with
          | .ok w' => ({ m with w := some w' }, { ok := some true, tag := if out.isEmpty then s!"{kind}.ok" else s!"{kind}.ok.dispatched" })
          | .error e => err m s!"{kind}.dispatch.{e}"
  | "query" :: kind :: rest =>
    let a := args rest
    match m.w with
    | none => err m "uninit"
    | some w =>
      let s := w.ms
      let limit := a.optNat "limit"
      let r : Res String :=
        match kind with
        | "list_proposals" => shortViews (Cw3Fixed.listProposals s m.blk (a.optNat "after") limit)
        | "reverse_proposals" => shortViews (Cw3Fixed.reverseProposals s m.blk (a.optNat "before") limit)
        | "list_votes" => .ok (joinC ((Cw3Fixed.listVotes s (a.nat "id") (a.optStr "after") limit).map fun b => s!"{b.1}:{renderBallot b.2}"))
        | "list_voters" => .ok (joinC ((Cw3Fixed.listVoters s (a.optStr "after") limit).map fun p => s!"{p.1}:{p.2}"))
        | "proposal" => (Cw3Fixed.queryProposal s m.blk (a.nat "id")).map renderView
        | "vote" => (Cw3Fixed.queryVote s (a.nat "id") (addrArg (a.str "voter"))).map fun o =>
            match o with | some b => renderBallot b | none => "-"
        | "voter" => (Cw3Fixed.queryVoter s (addrArg (a.str "address"))).map optNatStr
        | _ => .error "badquery"
      match r with
      | .ok v => (m, { ok := some true, out := [("result", v)], tag := s!"q.{kind}.ok" })
      | .error e => err m s!"q.{kind}.{e}"
  | _ => (m, { ok := none, tag := "unknown" })

/-! ## Monitors: the properties' own predicates, evaluated on implementation observations -/

/-- A proposal as reported by a query. -/
structure PObs where
  id : Nat
  status : String
  expires : Option Expiration
  thr : Threshold
  total : Nat
  proposer : String
  msgs : List String
  /-- everything except the status -/
  content : String
  text : String
  deriving Inhabited

def parseProp (s : String) : Option PObs :=
  match s.splitOn "|" with
  | [id, st, exp, thr, total, proposer, title, desc, dep, msgs] =>
    some { id := id.toNat?.getD 0, status := st, expires := parseExp exp, thr := parseThr thr, total := total.toNat?.getD 0,
           proposer, msgs := if msgs == "" then [] else msgs.splitOn "+",
           content := s!"{id}|{exp}|{thr}|{total}|{proposer}|{title}|{desc}|{dep}|{msgs}", text := s }
  | _ => none

/-- A ballot as listed: `id>addr:weight:vote`. -/
structure BObs where
  id : Nat
  addr : String
  weight : Nat
  vote : String
  deriving Inhabited, BEq

def parseBallot (s : String) : Option BObs :=
  match s.splitOn ">" with
  | [id, rest] =>
    match rest.splitOn ":" with
    | [a, w, v] => some ⟨id.toNat?.getD 0, a, w.toNat?.getD 0, v⟩
    | _ => none
  | _ => none

/-- stored record `id|status|y:n:a:v|start_height` -/
structure RObs where
  id : Nat
  status : String
  yes : Nat
  no : Nat
  abstain : Nat
  veto : Nat
  deriving Inhabited

def parseRaw (s : String) : Option RObs :=
  match s.splitOn "|" with
  | [id, st, v, _] =>
    match v.splitOn ":" with
    | [y, n, a, ve] => some ⟨id.toNat?.getD 0, st, y.toNat?.getD 0, n.toNat?.getD 0, a.toNat?.getD 0, ve.toNat?.getD 0⟩
    | _ => none
  | _ => none

def parseBal (s : String) : Option ((String × String) × Nat) :=
  match s.splitOn ":" with
  | [a, d, b] => some ((a, d), b.toNat?.getD 0)
  | _ => none

structure Obs where
  props : List PObs
  votes : List BObs
  raw : List RObs
  voters : List (String × Nat)
  bal : AMap (String × String) Nat

def parseObs (o : Args) : Obs :=
  { props := (o.list "props").filterMap parseProp,
    votes := (o.list "votes").filterMap parseBallot,
    raw := (o.list "raw").filterMap parseRaw,
    voters := (o.list "voters").map parsePair,
    bal := (o.list "bal").filterMap parseBal }

/-- Tally recomputed from the listed ballots of one proposal. -/
structure T where
  yes : Nat := 0
  no : Nat := 0
  abstain : Nat := 0
  veto : Nat := 0

def T.total (t : T) : Nat := t.yes + t.no + t.abstain + t.veto

def tallyOf (votes : List BObs) (id : Nat) : T :=
  (votes.filter (·.id == id)).foldl (fun t b =>
    match b.vote with
    | "yes" => { t with yes := t.yes + b.weight }
    | "no" => { t with no := t.no + b.weight }
    | "abstain" => { t with abstain := t.abstain + b.weight }
    | _ => { t with veto := t.veto + b.weight }) {}

def E18 : Nat := 1000000000000000000
def E9 : Nat := 1000000000

/-- The documented cw3 rule, cross-multiplied (independent of `votes_needed`):
`share num den pct slack` ⇔ `num / den ≥ pct`, i.e. `num · 10^18 ≥ pct · den`; with `slack`
one further vote is granted when the percentage has more than nine decimal digits
(the library's `votes_needed` rounds `weight · pct` down to 10^-9 before rounding up). -/
def share (num den pct : Nat) (slack : Bool) : Bool :=
  decide (pct * den ≤ (num + (if slack && pct % E9 != 0 then 1 else 0)) * E18)

/-- Does the tally satisfy the rule, given whether voting is over (`expired`)?  Before expiry
every vote not yet cast is assumed to go against the proposal. -/
def passes (thr : Threshold) (total : Nat) (t : T) (expired slack : Bool) : Bool :=
  decide (0 < t.yes) &&
  match thr with
  | .absoluteCount k => decide (k ≤ t.yes)
  | .absolutePercentage p => share t.yes (total - t.abstain) p slack
  | .thresholdQuorum th q =>
    share t.total total q slack &&
    share t.yes ((if expired then t.total else total) - t.abstain) th slack

/-- No completion of the tally (the weight not yet cast distributed in any way) passes:
even if everybody who has not voted yet votes yes the rule fails. -/
def cannotPass (thr : Threshold) (total : Nat) (t : T) : Bool :=
  match thr with
  | .absoluteCount k => decide (total - (t.no + t.abstain + t.veto) < k)
  | .absolutePercentage p => decide ((E18 - p) * (total - t.abstain) < (t.no + t.veto) * E18)
  | .thresholdQuorum th _ => decide ((E18 - th) * (total - t.abstain) < (t.no + t.veto) * E18)

def isExp (e : Option Expiration) (b : Block) : Bool :=
  match e with | some e => e.isExpired b | none => false

structure Mon where
  blk : Block := ⟨12345, 1571797419879305533⟩
  inited : Bool := false
  maxp : Option Duration := none
  /-- ListVoters right after instantiation (fixed forever) -/
  voters0 : List (String × Nat) := []
  /-- number of successful top-level Execute transactions per proposal id -/
  execOk : AMap Nat Nat := []
  self : String := ""

def mk (p sig d : String) : Finding := ⟨p, sig, d⟩

def findProp (o : Obs) (id : Nat) : Option PObs := o.props.find? (·.id == id)
def findRaw (o : Obs) (id : Nat) : Option RObs := o.raw.find? (·.id == id)
def balOf (o : Obs) (k : String × String) : Nat := (o.bal.get? k).getD 0

/-- Apply the bank messages of a proposal to the balances (all-or-nothing is decided by the caller). -/
def applyBank (self : String) (bal : AMap (String × String) Nat) (msgs : List String) : AMap (String × String) Nat :=
  msgs.foldl (fun b m =>
    match m.splitOn ":" with
    | ["bank", to, amt, d] =>
      let n := amt.toNat?.getD 0
      let b1 := b.set (self, d) ((b.get? (self, d)).getD 0 - n)
      b1.set (to, d) ((b1.get? (to, d)).getD 0 + n)
    | _ => b) bal

def monitorOp (mu : Mon) (prev : Args) (toks : List String) (implOk : Bool) (_out cur : Args) : Mon × List Finding :=
  match toks with
  | "env" :: rest => let a := args rest; ({ mu with blk := ⟨a.nat "height", a.nat "time"⟩ }, [])
  | "query" :: _ => (mu, [])
  | _ =>
    if (cur.get "uninit").isSome then (mu, []) else
    let kind := match toks with | "exec" :: _ :: k :: _ => k | k :: _ => k | [] => ""
    let a := match toks with | "exec" :: _ :: _ :: rest => args rest | _ :: rest => args rest | [] => []
    let opId := a.nat "id"
    let blk := mu.blk
    let O := parseObs cur
    let fresh := kind == "inst" || !mu.inited
    let P := if fresh then { props := [], votes := [], raw := [], voters := O.voters, bal := O.bal : Obs } else parseObs prev
    let mu := if fresh then { mu with inited := true, maxp := parseDur (a.str "maxp"), voters0 := O.voters, execOk := [] } else mu
    let totalCfg := cur.nat "total"
    -- ================= C03: status = outcome implied by ballots
    let f3 := O.props.flatMap fun p =>
      let t := tallyOf O.votes p.id
      let expd := isExp p.expires blk
      let sid := s!"id={p.id} status={p.status} thr={renderThr p.thr} total={p.total} yes={t.yes} no={t.no} abstain={t.abstain} veto={t.veto} expired={expd}"
      -- premise of C03: ballots do not outweigh the total (C06)
      if t.total > p.total then [] else
      (match findRaw O p.id with
        | some r => if r.yes == t.yes && r.no == t.no && r.abstain == t.abstain && r.veto == t.veto then []
                    else [mk "C03" "C03/tally-ne-ballots" s!"{sid} stored={r.yes}:{r.no}:{r.abstain}:{r.veto}"]
        | none => []) ++
      (if p.status == "passed" then
        (if t.yes == 0 then [mk "C03" "C03/passed-without-yes" sid] else []) ++
        (if passes p.thr p.total t expd true then [] else [mk "C03" "C03/passed-below-threshold" sid])
      else if p.status == "open" then
        (if expd then [mk "C03" "C03/open-after-expiry" sid] else []) ++
        (if passes p.thr p.total t expd false then [mk "C03" "C03/open-but-passing" sid] else [])
      else if p.status == "rejected" then
        (if (expd && !passes p.thr p.total t true false) || cannotPass p.thr p.total t then []
         else [mk "C03" "C03/rejected-but-can-pass" sid])
      else [])
    -- the three views of a proposal agree
    let f3 := f3 ++
      (if cur.list "rprops" != (cur.list "props").reverse then [mk "C03" "C03/views-differ" "ReverseProposals vs ListProposals"] else []) ++
      (if (cur.list "pprops").take (O.props.length) != cur.list "props" then [mk "C03" "C03/views-differ" "Proposal vs ListProposals"] else [])
    -- Execute / Close are admitted according to the same status (evaluated on the state before the op, at the op's block)
    let f3 := f3 ++ (if fresh then [] else
      match findProp P opId, findRaw P opId with
      | some p, some r =>
        let t := tallyOf P.votes opId
        let expd := isExp p.expires blk
        let sid := s!"id={opId} stored={r.status} thr={renderThr p.thr} total={p.total} yes={t.yes} no={t.no} abstain={t.abstain} veto={t.veto} expired={expd}"
        if t.total > p.total then [] else
        if kind == "execute" then
          if implOk then
            (if t.yes == 0 then [mk "C03" "C03/executed-without-yes" sid] else []) ++
            (if r.status == "passed" || (r.status == "open" && passes p.thr p.total t expd true) then []
             else [mk "C03" "C03/executed-not-passed" sid])
          else
            (if p.msgs.isEmpty && (r.status == "passed" || (r.status == "open" && passes p.thr p.total t expd false)) then
              [mk "C03" "C03/execute-refused-on-passed" sid] else [])
        else if kind == "close" then
          if implOk then
            (if r.status == "open" && expd && !passes p.thr p.total t expd false then []
             else [mk "C03" "C03/closed-not-expired-or-passed" sid])
          else
            (if r.status == "open" && expd && !passes p.thr p.total t expd true then
              [mk "C03" "C03/close-refused-on-expired" sid] else [])
        else []
      | _, _ =>
        if (kind == "execute" || kind == "close") && implOk then [mk "C03" "C03/unknown-proposal-admitted" s!"id={opId}"] else [])
    -- ================= C05: lifecycle
    let edgeOk (x y : String) : Bool :=
      x == y || (x == "open" && (y == "passed" || y == "rejected" || y == "executed")) || (x == "passed" && y == "executed")
    let f5 := P.props.flatMap fun p =>
      match findProp O p.id with
      | none => [mk "C05" "C05/proposal-vanished" s!"id={p.id}"]
      | some q =>
        (if edgeOk p.status q.status then [] else [mk "C05" "C05/status-edge" s!"id={p.id} {p.status}->{q.status} by {kind}"]) ++
        (if p.content == q.content then [] else [mk "C05" "C05/proposal-changed" s!"id={p.id} {p.content} -> {q.content}"]) ++
        (match findRaw P p.id, findRaw O p.id with
          | some r, some r' => if edgeOk r.status r'.status then [] else [mk "C05" "C05/stored-status-edge" s!"id={p.id} {r.status}->{r'.status} by {kind}"]
          | _, _ => [])
    -- the lifecycle as *observed*, whichever query reports it: what the point query said before against what the
    -- listings say now, and the other way round (a listing that lags behind makes a proposal go Passed → Open)
    let f5 := f5 ++ (if fresh then [] else
      let PP := (prev.list "pprops").filterMap parseProp
      let OP := (cur.list "pprops").filterMap parseProp
      (PP.flatMap fun p => match findProp O p.id with
        | some q => if edgeOk p.status q.status then [] else
            [mk "C05" "C05/status-edge-across-views" s!"id={p.id} Proposal said {p.status}, ListProposals now says {q.status} (after {kind})"]
        | none => []) ++
      (P.props.flatMap fun p => match OP.find? (·.id == p.id) with
        | some q => if edgeOk p.status q.status then [] else
            [mk "C05" "C05/status-edge-across-views" s!"id={p.id} ListProposals said {p.status}, Proposal now says {q.status} (after {kind})"]
        | none => []))
    -- ids 1..n, growing by one per successful Propose
    let ids := O.props.map (·.id)
    let f5 := f5 ++
      (if ids == (List.range ids.length).map (· + 1) then [] else [mk "C05" "C05/ids-not-consecutive" s!"ids={ids}"]) ++
      (if fresh then [] else
        let n := P.props.length; let n' := O.props.length
        if kind == "propose" && implOk then (if n' == n + 1 then [] else [mk "C05" "C05/propose-id" s!"count {n}->{n'}"])
        else if kind == "execute" && implOk then (if n ≤ n' then [] else [mk "C05" "C05/ids-shrank" s!"count {n}->{n'}"])
        else (if n' == n then [] else [mk "C05" "C05/ids-changed" s!"count {n}->{n'} by {kind} ok={implOk}"]))
    -- expiry of a new proposal never later than max_voting_period.after(creation block)
    let f5 := f5 ++ (O.props.filter (fun p => (findProp P p.id).isNone)).flatMap fun p =>
      match mu.maxp, p.expires with
      | some d, some e =>
        (match e.cmp? (d.after blk) with
          | some .gt | none => [mk "C05" "C05/expiry-beyond-max" s!"id={p.id} expires={e.render} max={(d.after blk).render}"]
          | _ => [])
      | _, _ => []
    -- funds and failures
    let keys := (P.bal.map (·.1) ++ O.bal.map (·.1)).eraseDups
    let balSame := keys.all fun k => balOf P k == balOf O k
    let sumBal (o : Obs) (d : String) : Nat := (o.bal.filter (·.1.2 == d)).foldl (fun acc p => acc + p.2) 0
    let stripStatus (o : Obs) : List String := o.props.map (·.content)
    let f5 := f5 ++ (if fresh then [] else
      if kind == "fund" || kind == "sink" then []
      else if !implOk then
        -- a failed transaction leaves everything unchanged (reported statuses may move with time only)
        (if balSame then [] else [mk "C05" "C05/failed-tx-moved-funds" s!"by {kind}"]) ++
        (if prev.str "raw" == cur.str "raw" && prev.str "votes" == cur.str "votes" && stripStatus P == stripStatus O then []
         else [mk "C05" "C05/failed-tx-changed-state" s!"by {kind}"])
      else if kind == "execute" then
        let p := findProp P opId
        (match p with
          | some p =>
            (match findProp O opId with
              | some q => if q.status == "executed" then [] else [mk "C05" "C05/execute-not-executed" s!"id={opId} status={q.status}"]
              | none => []) ++
            (if p.status == "executed" then [mk "C05" "C05/executed-twice" s!"id={opId} was already executed"] else []) ++
            -- messages are exactly those proposed: with bank sends only, the balances move by exactly those sends
            (if p.msgs.all (fun m => m.startsWith "bank:") then
              let expect := applyBank mu.self P.bal p.msgs
              let ks := (expect.map (·.1) ++ O.bal.map (·.1)).eraseDups
              if ks.all (fun k => (expect.get? k).getD 0 == balOf O k) then [] else [mk "C05" "C05/execute-funds" s!"id={opId} msgs={p.msgs}"]
             else [])
          | none => []) ++
        (if DENOMS.all (fun d => sumBal P d == sumBal O d) then [] else [mk "C05" "C05/funds-not-conserved" s!"by {kind}"])
      else
        -- propose / vote / close dispatch nothing
        (if balSame then [] else [mk "C05" "C05/funds-moved-without-execute" s!"by {kind}"]))
    let cnt := (mu.execOk.get? opId).getD 0
    let mu := if kind == "execute" && implOk && !fresh then { mu with execOk := mu.execOk.set opId (cnt + 1) } else mu
    let f5 := f5 ++ (if kind == "execute" && implOk && !fresh && cnt ≥ 1 then [mk "C05" "C05/executed-twice" s!"id={opId} successful Execute #{cnt + 1}"] else [])
    -- ================= C06: ballots are the fixed voters' weights
    let weightOf (x : String) : Option Nat := AMap.get? O.voters x
    let f6 :=
      (if O.voters == mu.voters0 then [] else [mk "C06" "C06/fixed/voters-changed" s!"by {kind}"]) ++
      (if (O.voters.foldl (fun acc p => acc + p.2) 0) == totalCfg then [] else
        [mk "C06" "C06/fixed/total-ne-sum-voters" s!"total={totalCfg} sum_of_listed_voters={O.voters.foldl (fun acc p => acc + p.2) 0}"]) ++
      (if cur.list "pvotes" |>.all (fun b => (cur.list "votes").contains b) then [] else
        [mk "C06" "C06/fixed/vote-views-differ" "Vote vs ListVotes",
         -- the complete paged walk of ListVotes misses a ballot the point query returns: the listing is not complete
         mk "C20" "C20/votes-listing-vs-point-queries" "a ballot returned by Vote is missing from the paged ListVotes walk"]) ++
      (let ks := O.votes.map fun b => (b.id, b.addr)
       if ks.eraseDups.length == ks.length then [] else [mk "C06" "C06/fixed/two-ballots" "an address is listed twice for one proposal"]) ++
      (O.votes.flatMap fun b =>
        let p := findProp O b.id
        let isProposerYes := (p.map (·.proposer)) == some b.addr && b.vote == "yes"
        (match weightOf b.addr with
          | none => [mk "C06" "C06/fixed/ballot-of-outsider" s!"id={b.id} voter={b.addr}"]
          | some w =>
            (if w == b.weight then [] else [mk "C06" "C06/fixed/ballot-weight" s!"id={b.id} voter={b.addr} ballot={b.weight} voter_weight={w}"]) ++
            (if b.weight ≥ 1 || isProposerYes then [] else [mk "C06" "C06/fixed/zero-weight-ballot" s!"id={b.id} voter={b.addr}"]))) ++
      (O.props.flatMap fun p =>
        let t := tallyOf O.votes p.id
        (if t.total ≤ p.total then [] else [mk "C06" "C06/fixed/ballots-outweigh-total" s!"id={p.id} ballots={t.total} total={p.total}"]) ++
        (if p.total == totalCfg then [] else [mk "C06" "C06/fixed/proposal-total" s!"id={p.id} total={p.total} config_total={totalCfg}"])) ++
      -- ballots never change or disappear
      (P.votes.flatMap fun b => if O.votes.contains b then [] else [mk "C06" "C06/fixed/ballot-changed" s!"id={b.id} voter={b.addr}"]) ++
      -- new ballots on existing proposals: only before expiry, not on executed ones
      (O.votes.flatMap fun b =>
        if P.votes.contains b then [] else
        match findProp P b.id, findRaw P b.id with
        | some p, some r =>
          (if isExp p.expires blk then [mk "C06" "C06/fixed/vote-after-expiry" s!"id={b.id} voter={b.addr}"] else []) ++
          (if r.status == "executed" then [mk "C06" "C06/fixed/vote-on-executed" s!"id={b.id} voter={b.addr}"] else [])
        | _, _ => [])
    (mu, f3 ++ f5 ++ f6)

def scen : Scen MState Mon where
  init h := { pool := h.list "pool", self := h.str "self" }
  step := stepOp
  obs := obsOf
  monInit h := { self := h.str "self" }
  monitor := monitorOp
  resync := some resyncOf

end CwPlus.Driver.Cw3Fixed
