import CwPlus.Driver.Common
import CwPlus.Model.Cw1Whitelist
import CwPlus.Model.Cw1Subkeys
/-!
Scenarios `cw1wl` (cw1-whitelist) and `cw1sk` (cw1-subkeys): op-line parser,
observation renderer and property monitors (C07, C08, C16, C17).
-/
-- SCENARIO cw1wl Cw1.wlScen
-- SCENARIO cw1sk Cw1.skScen
-- SCENARIO cw1skwide Cw1.skScen
namespace CwPlus.Driver.Cw1
open CwPlus Wire Driver
open CwPlus.Cw1Whitelist (AddrArg CosmosMsg StakingKind DistrKind)
open CwPlus.Cw1Subkeys (Allowance Permissions)

/-! ## canonical text forms (identical to `harness/src/scen_cw1.rs`) -/

def addrArg (s : String) : AddrArg := let p := parseAddr s; ⟨p.1, p.2⟩

/-- `<amount><denom>` -/
def parseCoin (s : String) : Coin :=
  let cs := s.toList
  (String.ofList (cs.dropWhile Char.isDigit), (String.ofList (cs.takeWhile Char.isDigit)).toNat?.getD 0)

def parseCoins (s : String) : List Coin :=
  if s == "" then [] else (s.splitOn "+").map parseCoin

def renderCoin (c : Coin) : String := s!"{c.2}{c.1}"
def renderCoins (cs : List Coin) : String := "+".intercalate (cs.map renderCoin)

def slash (xs : List String) : String := "/".intercalate xs

def parseMsg (s : String) : Option CosmosMsg :=
  match s.splitOn "/" with
  | ["bank", to, coins] => some (.bankSend to (parseCoins coins))
  | ["burn", coins] => some (.bankBurn (parseCoins coins))
  | "stake" :: "delegate" :: rest => some (.staking .delegate (slash rest))
  | "stake" :: "undelegate" :: rest => some (.staking .undelegate (slash rest))
  | "stake" :: "redelegate" :: rest => some (.staking .redelegate (slash rest))
  | "distr" :: "setaddr" :: rest => some (.distribution .setWithdrawAddress (slash rest))
  | "distr" :: "withdraw" :: rest => some (.distribution .withdrawDelegatorReward (slash rest))
  | "distr" :: "other" :: rest => some (.distribution .other (slash rest))
  | "wasm" :: rest => some (.wasm (slash rest))
  | "ibc" :: rest => some (.ibc (slash rest))
  | "gov" :: rest => some (.gov (slash rest))
  | "other" :: rest => some (.other (slash rest))
  | _ => none

def renderMsg : CosmosMsg → String
  | .bankSend to coins => s!"bank/{to}/{renderCoins coins}"
  | .bankBurn coins => s!"burn/{renderCoins coins}"
  | .staking .delegate p => s!"stake/delegate/{p}"
  | .staking .undelegate p => s!"stake/undelegate/{p}"
  | .staking .redelegate p => s!"stake/redelegate/{p}"
  | .distribution .setWithdrawAddress p => s!"distr/setaddr/{p}"
  | .distribution .withdrawDelegatorReward p => s!"distr/withdraw/{p}"
  | .distribution .other p => s!"distr/other/{p}"
  | .wasm p => s!"wasm/{p}"
  | .ibc p => s!"ibc/{p}"
  | .gov p => s!"gov/{p}"
  | .other p => s!"other/{p}"

def parseMsgs (s : String) : List CosmosMsg :=
  if s == "" then [] else (s.splitOn ";").filterMap parseMsg

def renderMsgs (ms : List CosmosMsg) : String := ";".intercalate (ms.map renderMsg)

def renderAllowance (a : Allowance) : String := s!"{renderCoins a.balance}:{a.expires.render}"

def b01 (b : Bool) : String := if b then "1" else "0"

def renderPerm (p : Permissions) : String :=
  b01 p.delegate ++ b01 p.redelegate ++ b01 p.undelegate ++ b01 p.withdraw

def parsePerm (s : String) : Permissions :=
  let c := s.toList
  let b (i : Nat) : Bool := c[i]? == some '1'
  ⟨b 0, b 1, b 2, b 3⟩

/-- `addr:coins:exp` -/
def parseAllowEntry (e : String) : Option (String × Allowance) :=
  match e.splitOn ":" with
  | [a, coins, exp] => (parseExp exp).map fun x => (a, ⟨parseCoins coins, x⟩)
  | _ => none

/-- `addr:flags` -/
def parsePermEntry (e : String) : Option (String × Permissions) :=
  match e.splitOn ":" with
  | [a, f] => some (a, parsePerm f)
  | _ => none

/-! ## model side -/

structure MState where
  sub : Bool
  wl : Option Cw1Whitelist.State := none
  sk : Option Cw1Subkeys.State := none
  blk : Block := ⟨12345, 1571797419879305533⟩
  pool : List String := []

def MState.inited (m : MState) : Bool := if m.sub then m.sk.isSome else m.wl.isSome

/-- `M.m.p[-pre]`; `none` when the string is not of that shape (the generator only emits strings on
which this and the `semver` crate agree). -/
def parseSemVer (s : String) : Option Cw1Subkeys.SemVer :=
  match s.splitOn "-" with
  | main :: rest =>
    let pre := if rest.isEmpty then none else some ("-".intercalate rest)
    match main.splitOn "." with
    | [x, y, z] => do
      let a ← x.toNat?; let b ← y.toNat?; let c ← z.toNat?
      pure ⟨a, b, c, pre⟩
    | _ => none
  | [] => none

def renderSemVer (v : Cw1Subkeys.SemVer) : String :=
  s!"{v.major}.{v.minor}.{v.patch}" ++ (match v.pre with | some p => "-" ++ p | none => "")

/-- `name/version` (`?` for a version string that is not a semantic version), `-` when absent -/
def renderCw2 : Option Cw1Subkeys.Cw2 → String
  | none => "-"
  | some c => s!"{c.contract}/{match c.version with | some v => renderSemVer v | none => "?"}"

open Paginate in
def obsOf (m : MState) : Args :=
  if m.sub then
    match m.sk with
    | none => [("uninit", "1")]
    | some s =>
      let allow := m.pool.filterMap fun a =>
        match Cw1Subkeys.queryAllowance s m.blk ⟨true, a⟩ with
        | .ok al => if al.balance != [] || al.expires != .never then some s!"{a}:{renderAllowance al}" else none
        | .error _ => some s!"{a}:?"
      let perm := m.pool.filterMap fun a =>
        match Cw1Subkeys.queryPermissions s ⟨true, a⟩ with
        | .ok p => if p != Permissions.default then some s!"{a}:{renderPerm p}" else none
        | .error _ => some s!"{a}:?"
      let raw := sortedEntries strLt s.allowances
      let lallow := raw.filter (fun p => !p.2.expires.isExpired m.blk)
      let ra (l : List (Addr × Allowance)) := joinC (l.map fun p => s!"{p.1}:{renderAllowance p.2}")
      [("admins", joinC s.cfg.admins), ("mutable", toString s.cfg.mutable),
       ("allow", joinC allow), ("lallow", ra lallow), ("rallow", ra raw),
       ("perm", joinC perm),
       ("lperm", joinC ((sortedEntries strLt s.permissions).map fun p => s!"{p.1}:{renderPerm p.2}")),
       ("cw2", renderCw2 s.cw2)]
  else
    match m.wl with
    | none => [("uninit", "1")]
    | some s => [("admins", joinC s.admins), ("mutable", toString s.mutable)]

/-! ## Re-synchronisation -/

/-- Inverse of `renderCw2` (`none`: not of that shape). -/
def parseCw2 (s : String) : Option (Option Cw1Subkeys.Cw2) :=
  if s == "-" then some none else
  match s.splitOn "/" with
  | [n, v] => some (some ⟨n, if v == "?" then none else parseSemVer v⟩)
  | _ => none

/-- The whole model state is in the observation: admin list and `mutable`; for subkeys the raw allowance
map (`rallow`, a storage range read), the permissions (`lperm`, the complete paged listing) and the cw2
item.  Block and pool stay. -/
def resyncOf (m : MState) (o : Args) : Option MState :=
  if (o.get "uninit").isSome then some { m with wl := none, sk := none }
  else if o.str "admins" == "?" then none
  else
    let cfg : Cw1Whitelist.AdminList := ⟨o.list "admins", o.str "mutable" == "true"⟩
    if m.sub then do
      let cw2 ← parseCw2 (o.str "cw2")
      let allowances : AMap Addr Allowance :=
        ((o.list "rallow").filterMap parseAllowEntry).foldl (fun acc (k, v) => acc.set k v) []
      let permissions : AMap Addr Permissions :=
        ((o.list "lperm").filterMap parsePermEntry).foldl (fun acc (k, v) => acc.set k v) []
      pure { m with sk := some { cfg, allowances, permissions, cw2 } }
    else pure { m with wl := some cfg }

def err (m : MState) (tag : String) : MState × StepResult := (m, { ok := some false, tag := tag })

def parseSkMsg (kind : String) (a : Args) : Option Cw1Subkeys.Msg :=
  let coin : Coin := (a.str "denom", a.nat "amt")
  match kind with
  | "execute" => some (.execute (parseMsgs (a.str "msgs")))
  | "freeze" => some .freeze
  | "update_admins" => some (.updateAdmins ((a.list "admins").map addrArg))
  | "increase_allowance" => some (.increaseAllowance (addrArg (a.str "spender")) coin (a.optExp "expires"))
  | "decrease_allowance" => some (.decreaseAllowance (addrArg (a.str "spender")) coin (a.optExp "expires"))
  | "set_permissions" => some (.setPermissions (addrArg (a.str "spender")) (parsePerm (a.str "perm")))
  | _ => none

def parseWlMsg (kind : String) (a : Args) : Option Cw1Whitelist.Msg :=
  match kind with
  | "execute" => some (.execute (parseMsgs (a.str "msgs")))
  | "freeze" => some .freeze
  | "update_admins" => some (.updateAdmins ((a.list "admins").map addrArg))
  | _ => none

def boolRes (r : Res Bool) : String :=
  match r with
  | .ok true => "true"
  | .ok false => "false"
  | .error _ => "err"

def stepOp (m : MState) (toks : List String) : MState × StepResult :=
  match toks with
  | "env" :: rest =>
    let a := args rest
    ({ m with blk := ⟨a.nat "height", a.nat "time"⟩ }, { ok := none, tag := "env" })
  | "inst" :: rest =>
    let a := args rest
    let msg : Cw1Whitelist.InstMsg := { admins := (a.list "admins").map addrArg, mutable := a.str "mutable" == "true" }
    if m.inited then err m "inst.twice"
    else if m.sub then
      match Cw1Subkeys.instantiate msg with
      | .ok s => ({ m with sk := some s }, { ok := some true, tag := "inst.ok" })
      | .error e => err m s!"inst.{e}"
    else
      match Cw1Whitelist.instantiate msg with
      | .ok s => ({ m with wl := some s }, { ok := some true, tag := "inst.ok" })
      | .error e => err m s!"inst.{e}"
  | "inst_legacy" :: rest =>
    -- subkeys only: the real `instantiate`, then the cw2 item as an older / foreign code version left it
    let a := args rest
    let msg : Cw1Whitelist.InstMsg := { admins := (a.list "admins").map addrArg, mutable := a.str "mutable" == "true" }
    if m.inited || !m.sub then err m "inst.twice"
    else
      match Cw1Subkeys.instantiate msg with
      | .ok s =>
        let cw2 := (a.optStr "ver").map fun v => (⟨a.str "name", parseSemVer v⟩ : Cw1Subkeys.Cw2)
        ({ m with sk := some { s with cw2 := cw2 } }, { ok := some true, tag := "inst_legacy.ok" })
      | .error e => err m s!"inst_legacy.{e}"
  | "migrate" :: _ =>
    match m.sk with
    | none => err m "uninit"
    | some s =>
      match Cw1Subkeys.migrate s with
      | .ok s' => ({ m with sk := some s' }, { ok := some true, tag := if s'.cw2 == s.cw2 then "migrate.ok.kept" else "migrate.ok.set" })
      | .error e => err m s!"migrate.{e}"
  | "exec" :: snd :: kind :: rest =>
    if m.sub then
      match m.sk with
      | none => err m "uninit"
      | some s =>
        match parseSkMsg kind (args rest) with
        | none => err m "badop"
        | some msg =>
          match Cw1Subkeys.execute s m.blk snd msg with
          | .ok (s', out) =>
            let cls := if kind == "execute" then (if s.cfg.isAdmin snd then ".admin" else ".subkey") else ""
            ({ m with sk := some s' }, { ok := some true, out := [("msgs", renderMsgs out)], tag := s!"{kind}.ok{cls}" })
          | .error e => err m s!"{kind}.{e}"
    else
      match m.wl with
      | none => err m "uninit"
      | some s =>
        match parseWlMsg kind (args rest) with
        | none => err m "badop"
        | some msg =>
          match Cw1Whitelist.execute s m.blk snd msg with
          | .ok (s', out) => ({ m with wl := some s' }, { ok := some true, out := [("msgs", renderMsgs out)], tag := s!"{kind}.ok" })
          | .error e => err m s!"{kind}.{e}"
  | "probe" :: sender :: rest =>
    let a := args rest
    match parseMsg (a.str "msg") with
    | none => err m "probe.badmsg"
    | some cm =>
      let sa := addrArg sender
      if m.sub then
        match m.sk with
        | none => err m "uninit"
        | some s =>
          let can := Cw1Subkeys.queryCanExecute s m.blk sa cm
          let ex := Cw1Subkeys.execute s m.blk sa.text (.execute [cm])
          (m, { ok := some true, out := [("can", boolRes can), ("exec", if ex.isOk then "ok" else "err")],
                tag := s!"probe.{boolRes can}.{ex.tag}" })
      else
        match m.wl with
        | none => err m "uninit"
        | some s =>
          let can := Cw1Whitelist.queryCanExecute s m.blk sa cm
          let ex := Cw1Whitelist.execute s m.blk sa.text (.execute [cm])
          (m, { ok := some true, out := [("can", boolRes can), ("exec", if ex.isOk then "ok" else "err")],
                tag := s!"probe.{boolRes can}.{ex.tag}" })
  | "query" :: kind :: rest =>
    let a := args rest
    let after := a.optStr "after"
    let limit := a.optNat "limit"
    let r : Res String :=
      if m.sub then
        match m.sk with
        | none => .error "uninit"
        | some s =>
          match kind with
          | "can_execute" =>
            match parseMsg (a.str "msg") with
            | some cm => (Cw1Subkeys.queryCanExecute s m.blk (addrArg (a.str "sender")) cm).map toString
            | none => .error "badmsg"
          | "admin_list" => .ok s!"{s.cfg.mutable}:{joinC s.cfg.admins}"
          | "allowance" => (Cw1Subkeys.queryAllowance s m.blk (addrArg (a.str "spender"))).map renderAllowance
          | "permissions" => (Cw1Subkeys.queryPermissions s (addrArg (a.str "spender"))).map renderPerm
          | "all_allowances" =>
            .ok (joinC ((Cw1Subkeys.queryAllAllowances s m.blk after limit).map fun p => s!"{p.1}:{renderAllowance p.2}"))
          | "all_permissions" =>
            .ok (joinC ((Cw1Subkeys.queryAllPermissions s after limit).map fun p => s!"{p.1}:{renderPerm p.2}"))
          | _ => .error "badquery"
      else
        match m.wl with
        | none => .error "uninit"
        | some s =>
          match kind with
          | "can_execute" =>
            match parseMsg (a.str "msg") with
            | some cm => (Cw1Whitelist.queryCanExecute s m.blk (addrArg (a.str "sender")) cm).map toString
            | none => .error "badmsg"
          | "admin_list" => .ok s!"{s.mutable}:{joinC s.admins}"
          | _ => .error "badquery"
    match r with
    | .ok v => (m, { ok := some true, out := [("result", v)], tag := s!"q.{kind}.ok" })
    | .error e => err m s!"q.{kind}.{e}"
  | _ => (m, { ok := none, tag := "unknown" })

/-! ## Monitors: the properties' own predicates, evaluated on implementation observations -/

structure Mon where
  sub : Bool
  /-- the proxy's own address (header field `me`; empty in older corpus files) -/
  me : String := ""
  blk : Block := ⟨12345, 1571797419879305533⟩
  inited : Bool := false
  /-- C17 ghost: the admin configuration observed when the contract was first seen immutable -/
  frozenCfg : Option (String × String) := none
  /-- C08 ghosts: cumulative amount granted to / relayed by (subkey, denom) -/
  granted : AMap (String × String) Nat := []
  spent : AMap (String × String) Nat := []
  /-- C08 ghost: the deadline the admins' calls gave each subkey's allowance (changed only by an Increase /
  Decrease that names an expiry; an entry deleted by a Decrease starts afresh) -/
  gexp : AMap String Expiration := []
  /-- C07/C17 ghost: the admin list as set by instantiation and by every successful UpdateAdmins -/
  gadmins : Option (List String) := none

def mk (p sig d : String) : Finding := ⟨p, sig, d⟩

def obsAdmins (o : Args) : List String := o.list "admins"
def obsMutable (o : Args) : Bool := o.str "mutable" == "true"
def obsRaw (o : Args) : AMap String Allowance := (o.list "rallow").filterMap parseAllowEntry
def obsPerms (o : Args) : AMap String Permissions := (o.list "lperm").filterMap parsePermEntry

/-- Coverage of one message for a non-admin sender, recomputed from an observation:
`(remaining allowance, covered?)`. -/
def coverMsg (blk : Block) (perm : Option Permissions) (al : Option Allowance) (m : CosmosMsg) : Option Allowance × Bool :=
  match m with
  | .bankSend _ coins =>
    match al with
    | none => (al, false)
    | some a =>
      if a.expires.isExpired blk then (al, false)
      else match a.balance.subCoins coins with
        | .ok b => (some { a with balance := b }, true)
        | .error _ => (al, false)
  | .staking k _ =>
    match perm with
    | some p => (al, match k with | .delegate => p.delegate | .undelegate => p.undelegate | .redelegate => p.redelegate)
    | none => (al, false)
  | .distribution k _ =>
    match perm with
    | some p => (al, match k with | .setWithdrawAddress => p.withdraw | .withdrawDelegatorReward => p.withdraw | .other => false)
    | none => (al, false)
  | _ => (al, false)

def coverAll (blk : Block) (perm : Option Permissions) (al : Option Allowance) : List CosmosMsg → Option Allowance × Bool
  | [] => (al, true)
  | m :: ms =>
    let (al', ok) := coverMsg blk perm al m
    if ok then coverAll blk perm al' ms else (al', false)

/-- all denoms mentioned in balances / coin lists -/
def denomsOf (bs : List (List Coin)) : List String := (bs.flatMap fun b => b.map (·.1)).eraseDups

def sentCoins (ms : List CosmosMsg) : List Coin :=
  ms.flatMap fun m => match m with | .bankSend _ cs => cs | _ => []

def balOf (m : AMap String Allowance) (k : String) : NativeBalance :=
  match AMap.get? m k with | some a => a.balance | none => []

def monitorOp (mu : Mon) (prev : Args) (toks : List String) (implOk : Bool) (out cur : Args) : Mon × List Finding :=
  match toks with
  | "env" :: rest => let a := args rest; ({ mu with blk := ⟨a.nat "height", a.nat "time"⟩ }, [])
  | "query" :: _ => (mu, [])
  | "probe" :: sender :: rest =>
    -- ---------- C16: CanExecute answers true exactly when Execute{[msg]} succeeds (valid senders)
    let a := args rest
    let valid := (parseAddr sender).1
    let can := out.str "can"; let ex := out.str "exec"
    let f16 := if valid && implOk && ((can == "true") != (ex == "ok")) then
        [mk "C16" "C16/query-vs-execute" s!"sender={sender} msg={a.str "msg"} can={can} exec={ex}"] else []
    (mu, f16)
  | _ =>
    if (cur.get "uninit").isSome then (mu, []) else
    let kind := match toks with | "exec" :: _ :: k :: _ => k | k :: _ => k | [] => ""
    let snd := match toks with | "exec" :: s :: _ => s | _ => ""
    let a := match toks with | "exec" :: _ :: _ :: rest => args rest | _ :: rest => args rest | [] => []
    let isInst := kind == "inst"
    let fresh := isInst || !mu.inited
    let mu := if fresh then { mu with inited := true, granted := [], spent := [], frozenCfg := none, gexp := [] } else mu
    let pAdmins := obsAdmins prev; let cAdmins := obsAdmins cur
    let pMut := obsMutable prev; let cMut := obsMutable cur
    let pRaw := obsRaw prev; let cRaw := obsRaw cur
    let pPerm := obsPerms prev; let cPerm := obsPerms cur
    let wasAdmin := pAdmins.contains snd
    let spender := (parseAddr (a.str "spender")).2
    let stateSame := cur.str "admins" == prev.str "admins" && cur.str "mutable" == prev.str "mutable"
        && cur.str "rallow" == prev.str "rallow" && cur.str "lperm" == prev.str "lperm"
    let msgs := parseMsgs (a.str "msgs")
    -- coverage of the submitted list, recomputed from the previous observation
    let (_, covered) := coverAll mu.blk (AMap.get? pPerm snd) (AMap.get? pRaw snd) msgs
    -- ---------- C07
    let f7 := if fresh then [] else
      (if !implOk && !stateSame then [mk "C07" "C07/failed-call-changed-state" s!"state changed by failing {kind} from {snd}"] else []) ++
      (if !implOk && out.str "msgs" != "" then [mk "C07" "C07/relay-on-failure" s!"msgs={out.str "msgs"}"] else []) ++
      (if kind == "execute" && implOk then
        (if out.str "msgs" != a.str "msgs" then
          [mk "C07" "C07/relay-not-exact" s!"submitted={a.str "msgs"} relayed={out.str "msgs"}"] else []) ++
        (if !wasAdmin && !mu.sub then [mk "C07" "C07/unauthorised-relay" s!"sender={snd} is not an admin"] else []) ++
        (if !wasAdmin && mu.sub && !covered then
          [mk "C07" "C07/uncovered-relay" s!"sender={snd} msgs={a.str "msgs"} not covered by its grants"] else [])
       else if kind != "execute" && implOk && out.str "msgs" != "" then
        [mk "C07" "C07/spurious-message" s!"{kind} emitted {out.str "msgs"}"]
       else [])
    -- ghost admin list: what instantiation and the successful UpdateAdmins calls said
    let submitted : List String := (a.list "admins").map fun x => (parseAddr x).2
    let gPrevAdmins := mu.gadmins
    let mu : Mon := if isInst && implOk then { mu with gadmins := some submitted }
      else if !fresh && kind == "update_admins" && implOk then { mu with gadmins := some submitted } else mu
    -- instantiation stores the submitted admins, nobody else (compared as sets: the order and repetitions of the
    -- stored list are not part of either statement)
    let finst := if isInst && implOk && !(cAdmins.all submitted.contains && submitted.all cAdmins.contains) then
        [mk "C17" "C17/instantiate-admins-not-as-submitted" s!"submitted={submitted} stored={cAdmins}",
         mk "C07" "C07/admin-set-not-as-instantiated" s!"submitted={submitted} stored={cAdmins}"] else []
    let fadm := finst ++ if fresh then [] else
      -- a successful UpdateAdmins takes effect
      (if kind == "update_admins" && implOk && cAdmins != submitted then
        [mk "C17" "C17/update-admins-no-effect" s!"submitted={submitted} stored={cAdmins}",
         mk "C07" "C07/admin-set-not-updated" s!"submitted={submitted} stored={cAdmins}"] else []) ++
      -- a relay for a caller that the admin calls had removed and whose grants do not cover the messages
      (match gPrevAdmins with
        | some ga => if kind == "execute" && implOk && !ga.contains snd && !(mu.sub && covered) then
            [mk "C07" "C07/relay-by-removed-admin" s!"sender={snd} admins_as_set={ga}"] else []
        | none => [])
    -- a successful SetPermissions stores exactly the submitted flags
    let fperm := if fresh || !mu.sub || !(kind == "set_permissions" && implOk) then [] else
      let want := parsePerm (a.str "perm")
      match AMap.get? cPerm spender with
      | some got => if want == got then [] else
          [mk "C07" "C07/permissions-not-updated" s!"subkey={spender} submitted={a.str "perm"}",
           mk "C17" "C17/set-permissions-no-effect" s!"subkey={spender} submitted={a.str "perm"}"]
      | none => if want == parsePerm "" then [] else
          [mk "C07" "C07/permissions-not-updated" s!"subkey={spender} submitted={a.str "perm"} stored=-"]
    -- ---------- C08
    let keys := (pRaw.map (·.1) ++ cRaw.map (·.1)).eraseDups
    let changedAl := keys.filter fun k => AMap.get? pRaw k != AMap.get? cRaw k
    let pkeys := (pPerm.map (·.1) ++ cPerm.map (·.1)).eraseDups
    let changedPerm := pkeys.filter fun k => AMap.get? pPerm k != AMap.get? cPerm k
    let sent := sentCoins msgs
    let f8 := if fresh || !mu.sub then [] else
      -- exact deduction, coin by coin, for the sender's own successful non-admin Execute
      (if kind == "execute" && implOk && !wasAdmin then
        let ds := denomsOf [balOf pRaw snd, balOf cRaw snd, sent]
        (ds.filterMap fun d =>
          if NativeBalance.total (balOf cRaw snd) d + NativeBalance.total sent d == NativeBalance.total (balOf pRaw snd) d then none
          else some (mk "C08" "C08/deduction-not-exact"
            s!"subkey={snd} denom={d} before={NativeBalance.total (balOf pRaw snd) d} sent={NativeBalance.total sent d} after={NativeBalance.total (balOf cRaw snd) d}")) ++
        (if !sent.isEmpty || msgs.any (fun m => match m with | .bankSend _ _ => true | _ => false) then
          match AMap.get? pRaw snd with
          | some al => if al.expires.isExpired mu.blk then [mk "C08" "C08/spend-on-expired" s!"subkey={snd}"] else []
          | none => [mk "C08" "C08/spend-without-allowance" s!"subkey={snd}"]
         else [])
       else []) ++
      -- the only way a subkey moves the proxy's funds is a bank send charged to its allowance: a relayed burn spends
      -- them without any deduction (whatever the burnt amount, it is beyond the allowance)
      (if kind == "execute" && implOk && !wasAdmin && mu.sub
          && msgs.any (fun m => match m with | .bankBurn cs => cs.any (fun c => c.2 != 0) | _ => false) then
        [mk "C08" "C08/burn-relayed-for-subkey" s!"subkey={snd} msgs={a.str "msgs"}"] else []) ++
      -- frame: an allowance changes only by an admin's increase/decrease for that subkey, or by its own Execute
      (changedAl.filterMap fun k =>
        if implOk && wasAdmin && (kind == "increase_allowance" || kind == "decrease_allowance") && spender == k then none
        else if implOk && kind == "execute" && snd == k then none
        else some (mk "C08" "C08/allowance-frame" s!"allowance of {k} changed by {kind} from {snd}")) ++
      -- decrease saturates at zero per denom, never raises anything
      (if kind == "decrease_allowance" && implOk then
        let d := a.str "denom"; let amt := a.nat "amt"
        let ds := denomsOf [balOf pRaw spender, balOf cRaw spender]
        ds.filterMap fun x =>
          let o := NativeBalance.total (balOf pRaw spender) x; let n := NativeBalance.total (balOf cRaw spender) x
          if x == d then (if n == o - amt then none else some (mk "C08" "C08/decrease-not-saturating" s!"denom={x} {o}->{n} amt={amt}"))
          else (if n == o then none else some (mk "C08" "C08/decrease-other-denom" s!"denom={x} {o}->{n}"))
       else []) ++
      -- a grant or reduction that names an expiry records exactly that expiry, and never an expired one
      (if (kind == "increase_allowance" || kind == "decrease_allowance") && implOk then
        match a.optExp "expires", AMap.get? cRaw spender with
        | some e, some al =>
          (if al.expires != e then [mk "C08" "C08/expiry-not-recorded" s!"requested={e.render} stored={al.expires.render}"] else []) ++
          (if e.isExpired mu.blk then [mk "C08" "C08/expired-expiry-accepted" s!"requested={e.render}"] else [])
        | _, _ => []
       else []) ++
      -- an increase adds exactly the granted coin to what is still live (an expired allowance restarts from zero)
      (if kind == "increase_allowance" && implOk then
        let d := a.str "denom"; let amt := a.nat "amt"
        let base : NativeBalance := match AMap.get? pRaw spender with
          | some o => if o.expires.isExpired mu.blk then [] else o.balance
          | none => []
        let ds := denomsOf [base, balOf cRaw spender, [(d, amt)]]
        ds.filterMap fun x =>
          let want := NativeBalance.total base x + (if x == d then amt else 0)
          let got := NativeBalance.total (balOf cRaw spender) x
          if want == got then none else some (mk "C08" "C08/increase-effect" s!"subkey={spender} denom={x} expected={want} stored={got}")
       else []) ++
      -- one subkey's activity never changes another's permissions
      (changedPerm.filterMap fun k =>
        if implOk && wasAdmin && kind == "set_permissions" && spender == k then none
        else some (mk "C08" "C08/permissions-frame" s!"permissions of {k} changed by {kind} from {snd}")) ++
      -- the point query and the listing show exactly the unexpired stored allowances
      (let live := cRaw.filter fun p => !p.2.expires.isExpired mu.blk
       let lst := (cur.list "lallow").filterMap parseAllowEntry
       if lst != live then [mk "C08" "C08/listing-vs-stored" s!"listing={cur.str "lallow"} stored={cur.str "rallow"}",
                            -- the same fact as a statement about the listing (C20: every current item exactly once, in key
                            -- order): the items collected by paging AllAllowances are the stored, unexpired allowances
                            mk "C20" "C20/allowances-listing-vs-current-items" s!"listing={cur.str "lallow"} stored={cur.str "rallow"}"] else [])
    -- ghost ledger
    let mu := if fresh || !mu.sub || !implOk then mu else
      if kind == "increase_allowance" then
        let k := (spender, a.str "denom")
        { mu with granted := mu.granted.set k ((mu.granted.get? k).getD 0 + a.nat "amt") }
      else if kind == "execute" && !wasAdmin then
        (denomsOf [sent]).foldl (fun (mu : Mon) d =>
          let k := (snd, d)
          { mu with spent := mu.spent.set k ((mu.spent.get? k).getD 0 + NativeBalance.total sent d) }) mu
      else mu
    -- ghost deadline of every subkey's allowance
    let gPrev := mu.gexp
    let mu := if fresh || !mu.sub || !implOk then mu else
      if kind == "increase_allowance" then
        let e := match a.optExp "expires" with
          | some e => e
          | none => (mu.gexp.get? spender).getD .never
        { mu with gexp := mu.gexp.set spender e }
      else if kind == "decrease_allowance" then
        if (AMap.get? cRaw spender).isNone then { mu with gexp := mu.gexp.erase spender }
        else match a.optExp "expires" with
          | some e => { mu with gexp := mu.gexp.set spender e }
          | none => mu
      else mu
    let fexp := if fresh || !mu.sub then [] else
      -- the stored deadline is the one the admins' calls set
      (cRaw.filterMap fun (x, al) =>
        match mu.gexp.get? x with
        | some g => if al.expires == g then none else
            some (mk "C08" "C08/expiry-drift" s!"subkey={x} stored={al.expires.render} set_by_admins={g.render} after {kind}")
        | none => none) ++
      -- a bank send relayed for a subkey whose allowance deadline (as set by the admins) has passed
      (if kind == "execute" && implOk && !wasAdmin && !sent.isEmpty then
        match gPrev.get? snd with
        | some g => if g.isExpired mu.blk then
            [mk "C08" "C08/spend-after-deadline" s!"subkey={snd} deadline={g.render}",
             mk "C07" "C07/relay-after-deadline" s!"subkey={snd} deadline={g.render}"] else []
        | none => []
       else [])
    let fg := if !mu.sub then [] else fexp ++
      (mu.spent.filterMap fun (k, sp) =>
        let g := (mu.granted.get? k).getD 0
        if sp ≤ g then none else some (mk "C08" "C08/cumulative" s!"subkey={k.1} denom={k.2} spent={sp} granted={g}")) ++
      (cRaw.flatMap fun (x, al) => (denomsOf [al.balance]).filterMap fun d =>
        let g := (mu.granted.get? (x, d)).getD 0; let sp := (mu.spent.get? (x, d)).getD 0
        if sp + NativeBalance.total al.balance d ≤ g then none
        else some (mk "C08" "C08/cumulative" s!"subkey={x} denom={d} spent={sp} remaining={NativeBalance.total al.balance d} granted={g}"))
    -- ---------- C17
    let cfgChanged := cur.str "admins" != prev.str "admins" || cMut != pMut
    let f17x := if fresh || !mu.sub then [] else
      (if kind == "execute" && implOk && !wasAdmin then
        match AMap.get? pRaw snd, AMap.get? cRaw snd with
        | some o, some n => if o.expires == n.expires then [] else
            [mk "C17" "C17/expiry-changed-by-subkey" s!"subkey={snd} {o.expires.render}->{n.expires.render}"]
        | _, _ => []
       else [])
    -- a non-admin may never have the proxy call ITSELF while the proxy is one of its own admins: the relayed call
    -- arrives with the proxy as sender and passes every admin check (UpdateAdmins, Freeze, grants) - seeded change C17-18
    let f17s := if fresh || mu.me == "" then [] else
      (if kind == "execute" && implOk && !wasAdmin && pAdmins.contains mu.me &&
          (msgs.any fun m => match m with | .wasm p => p.startsWith s!"exec/{mu.me}/" | _ => false) then
        [mk "C17" "C17/self-call-relayed-for-non-admin"
          s!"{snd} (not an admin) had the proxy call itself while the proxy is one of its own admins: msgs={a.str "msgs"}"]
       else [])
    let f17 := if fresh then [] else
      (if cAdmins != pAdmins && !(implOk && kind == "update_admins" && pMut && wasAdmin) then
        [mk "C17" "C17/admins-changed" s!"admins changed by {kind} from {snd} (mutable={pMut}, sender admin={wasAdmin})"] else []) ++
      (if cMut != pMut && !(implOk && kind == "freeze" && pMut && !cMut && wasAdmin) then
        [mk "C17" "C17/mutable-changed" s!"mutable {pMut}->{cMut} by {kind} from {snd}"] else []) ++
      (if !pMut && cfgChanged then [mk "C17" "C17/changed-after-freeze" s!"admin config changed by {kind} from {snd}"] else []) ++
      (match mu.frozenCfg with
       | some (ad, _) => if cur.str "admins" != ad || cMut then
           [mk "C17" "C17/changed-after-freeze" s!"admins={cur.str "admins"} mutable={cMut}, frozen with admins={ad}"] else []
       | none => []) ++
      (changedAl.filterMap fun k =>
        if implOk && wasAdmin then none
        else if implOk && kind == "execute" && snd == k then
          -- a subkey's own relay may only use up a record the admins created: it neither creates one nor raises an amount
          match AMap.get? pRaw k, AMap.get? cRaw k with
          | none, some _ => some (mk "C17" "C17/allowance-created-by-subkey" s!"allowance record of {k} created by its own Execute")
          | some o, some n =>
            if (denomsOf [o.balance, n.balance]).all fun d => decide (NativeBalance.total n.balance d ≤ NativeBalance.total o.balance d)
            then none else some (mk "C17" "C17/allowance-raised-by-subkey" s!"allowance of {k} raised by its own Execute")
          -- … nor deletes the record (with it the deadline the admins set): theorem C08.own_spend_only_lowers
          | some _, none => some (mk "C17" "C17/allowance-removed-by-subkey" s!"allowance record of {k} removed by its own Execute")
          | none, none => none
        else some (mk "C17" "C17/grant-by-non-admin" s!"allowance of {k} changed by {kind} from {snd}")) ++
      (changedPerm.filterMap fun k =>
        if implOk && wasAdmin then none
        else some (mk "C17" "C17/grant-by-non-admin" s!"permissions of {k} changed by {kind} from {snd}"))
    let mu := if !cMut && mu.frozenCfg.isNone then { mu with frozenCfg := some (cur.str "admins", "false") } else mu
    (mu, f7 ++ fadm ++ fperm ++ f8 ++ fg ++ f17 ++ f17x ++ f17s)

def wlScen : Scen MState Mon where
  init h := { sub := false, pool := h.list "pool" }
  step := stepOp
  obs := obsOf
  monInit h := { sub := false, me := h.str "me" }
  monitor := monitorOp
  resync := some resyncOf

def skScen : Scen MState Mon where
  init h := { sub := true, pool := h.list "pool" }
  step := stepOp
  obs := obsOf
  monInit h := { sub := true, me := h.str "me" }
  monitor := monitorOp
  resync := some resyncOf

end CwPlus.Driver.Cw1
