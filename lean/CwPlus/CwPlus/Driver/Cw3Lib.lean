import CwPlus.Driver.Common
import CwPlus.Model.Cw3
/-!
Scenario `cw3lib`: direct evaluations of the cw3 proposal library
(`is_passed`, `is_rejected`, `current_status`, `Threshold::validate`) on constructed
proposals, and the monitors of property C04 (threshold arithmetic).

The monitors are written with cross-multiplied integer comparisons, independent of
`votesNeeded`, and are evaluated on the IMPLEMENTATION's answers.
-/
-- SCENARIO cw3lib Cw3Lib.scen
namespace CwPlus.Driver.Cw3Lib
open CwPlus Wire Driver CwPlus.Cw3

structure MState where
  blk : Block := ⟨12345, 1571797419879305533⟩

/-- `count:k` | `pct:atomics` | `quorum:threshold atomics:quorum atomics` -/
def parseThr (s : String) : Option Threshold :=
  match s.splitOn ":" with
  | ["count", k] => k.toNat?.map .absoluteCount
  | ["pct", a] => a.toNat?.map .absolutePercentage
  | ["quorum", t, q] =>
    match t.toNat?, q.toNat? with
    | some t, some q => some (.thresholdQuorum t q)
    | _, _ => none
  | _ => none

def parseStatus : String → Option Status
  | "pending" => some .pending | "open" => some .open | "rejected" => some .rejected
  | "passed" => some .passed | "executed" => some .executed | _ => none

def parseTally (a : Args) : Option Tally :=
  match parseThr (a.str "thr"), parseStatus (a.str "status"), parseExp (a.str "expires") with
  | some thr, some st, some ex =>
    some { status := st, threshold := thr, totalWeight := a.nat "total",
           votes := ⟨a.nat "yes", a.nat "no", a.nat "abstain", a.nat "veto"⟩, expires := ex }
  | _, _, _ => none

def renderBool : Res Bool → String
  | .ok true => "true" | .ok false => "false" | .error _ => "panic"

def renderStatus : Res Status → String
  | .ok s => s.render | .error _ => "panic"

def resTag {α} : Res α → String
  | .ok _ => "" | .error e => e

def thrKind : Threshold → String
  | .absoluteCount _ => "count" | .absolutePercentage _ => "pct" | .thresholdQuorum _ _ => "quorum"

def stepOp (m : MState) (toks : List String) : MState × StepResult :=
  match toks with
  | "env" :: rest =>
    let a := args rest
    ({ m with blk := ⟨a.nat "height", a.nat "time"⟩ }, { ok := none, tag := "env" })
  | "validate" :: rest =>
    let a := args rest
    match parseThr (a.str "thr") with
    | none => (m, { ok := some false, tag := "badop" })
    | some thr =>
      match thr.validate (a.nat "total") with
      | .ok _ => (m, { ok := some true, tag := s!"validate.{thrKind thr}.ok" })
      | .error e => (m, { ok := some false, tag := s!"validate.{e}" })
  | "eval" :: rest =>
    match parseTally (args rest) with
    | none => (m, { ok := some false, tag := "badop" })
    | some p =>
      let pa := isPassed p m.blk
      let rj := isRejected p m.blk
      let st := currentStatus p m.blk
      let ex := if p.expires.isExpired m.blk then "exp" else "live"
      let errs := (if pa.isOk then "" else s!".P!{resTag pa}") ++ (if rj.isOk then "" else s!".R!{resTag rj}")
      (m, { ok := some true,
            out := [("passed", renderBool pa), ("rejected", renderBool rj), ("status", renderStatus st)],
            tag := s!"eval.{thrKind p.threshold}.{ex}.{p.status.render}.{renderBool pa}.{renderBool rj}.{renderStatus st}{errs}" })
  | _ => (m, { ok := some false, tag := "badop" })

/-! ## C04 monitors -/

def E18 : Nat := 1000000000000000000
def E9 : Nat := 1000000000

/-- The documented requirement `x / w ≥ a` in exact arithmetic: `x·10^18 ≥ a·w`
(i.e. `x ≥ ⌈w·a/10^18⌉`, the required weight rounded up). -/
def exactOk (x w a : Nat) : Bool := decide (a * w ≤ x * E18)

/-- What C04 allows the library: exact for decimals with at most 9 places; for 18-digit
decimals the library may require one vote less than the exact ceiling (never more). -/
def laxOk (x w a : Nat) : Bool :=
  if a % E9 == 0 then exactOk x w a else decide (a * w ≤ (x + 1) * E18)

/-- premise of C04: valid threshold for this total, tally within the total, all in u64 -/
def inPremise (p : Tally) : Bool :=
  (p.threshold.validate p.totalWeight).isOk &&
  decide (p.votes.yes + p.votes.no + p.votes.abstain + p.votes.veto ≤ p.totalWeight) &&
  decide (p.totalWeight ≤ U64_MAX)

/-- documented pass condition of a *final* tally, strict (exact) version -/
def passesExact (thr : Threshold) (total : Nat) (v : Votes) : Bool :=
  let cast := v.yes + v.no + v.abstain + v.veto
  decide (0 < v.yes) &&
  match thr with
  | .absoluteCount k => decide (k ≤ v.yes)
  | .absolutePercentage a => exactOk v.yes (total - v.abstain) a
  | .thresholdQuorum t q => exactOk cast total q && exactOk v.yes (cast - v.abstain) t

/-- … and the most permissive reading C04 allows (18-digit decimals: one vote less) -/
def passesLax (thr : Threshold) (total : Nat) (v : Votes) : Bool :=
  let cast := v.yes + v.no + v.abstain + v.veto
  decide (0 < v.yes) &&
  match thr with
  | .absoluteCount k => decide (k ≤ v.yes)
  | .absolutePercentage a => laxOk v.yes (total - v.abstain) a
  | .thresholdQuorum t q => laxOk cast total q && laxOk v.yes (cast - v.abstain) t

def showTally (p : Tally) : String :=
  s!"total={p.totalWeight} yes={p.votes.yes} no={p.votes.no} abstain={p.votes.abstain} veto={p.votes.veto}"

structure Mon where
  blk : Block := ⟨12345, 1571797419879305533⟩

def monitorOp (mu : Mon) (_prev : Args) (toks : List String) (_implOk : Bool) (out : Args) (_cur : Args) :
    Mon × List Finding :=
  match toks with
  | "env" :: rest =>
    let a := args rest
    ({ mu with blk := ⟨a.nat "height", a.nat "time"⟩ }, [])
  | "eval" :: rest =>
    match parseTally (args rest) with
    | none => (mu, [])
    | some p =>
      if !inPremise p then (mu, []) else
      let mk (sig detail : String) : Finding := ⟨"C04", s!"C04/{sig}", s!"{detail} {showTally p}"⟩
      let passed := out.str "passed"
      let rejected := out.str "rejected"
      let status := out.str "status"
      let expired := p.expires.isExpired mu.blk
      let v := p.votes
      let outstanding := p.totalWeight - (v.yes + v.no + v.abstain + v.veto)
      -- (v) no panic inside the premise
      let f5 := if passed == "panic" || rejected == "panic" || status == "panic" then
          [mk "panic-in-premise" s!"passed={passed} rejected={rejected} status={status}"] else []
      -- (i) never both
      let f1 := if passed == "true" && rejected == "true" then [mk "both-passed-and-rejected" ""] else []
      -- (ii) never passed without yes weight
      let f2 := if passed == "true" && v.yes == 0 then [mk "passed-without-yes" ""] else []
      -- (iii) after expiry the decision is the documented formula
      let f3 := if !expired then [] else
        (if passed == "true" && !passesLax p.threshold p.totalWeight v then
           [mk "expired-passed-below-formula" "passed although the documented formula (even with one vote of slack) fails"] else []) ++
        (if passed == "false" && passesExact p.threshold p.totalWeight v then
           [mk "expired-stricter-than-exact" "not passed although the exact formula holds"] else [])
      -- (iv) early decisions are sound
      let f4 := if expired then [] else
        (if passed == "true" &&
            !passesLax p.threshold p.totalWeight { v with no := v.no + outstanding } then
           [mk "early-pass-unsound" "passed before expiry, but fails if all outstanding weight votes no"] else []) ++
        (if rejected == "true" &&
            passesExact p.threshold p.totalWeight { v with yes := v.yes + outstanding } then
           [mk "early-reject-unsound" "rejected before expiry, but passes if all outstanding weight votes yes"] else [])
      -- (vi) the status computed for a proposal stored Open (`current_status`) is that same decision
      let stored := (args rest).str "status"
      let f6 := if stored != "open" || status == "panic" || status == "" then [] else
        if expired then
          (if status == "passed" && !passesLax p.threshold p.totalWeight v then
             [mk "expired-status-passed-below-formula" "status Passed although the documented formula fails"] else []) ++
          (if status != "passed" && passesExact p.threshold p.totalWeight v then
             [mk "expired-status-not-passed" s!"status {status} after expiry although the exact formula holds"] else [])
        else
          (if status == "passed" && !passesLax p.threshold p.totalWeight { v with no := v.no + outstanding } then
             [mk "early-status-passed-unsound" "status Passed before expiry, but fails if all outstanding weight votes no"] else []) ++
          (if status == "rejected" && passesExact p.threshold p.totalWeight { v with yes := v.yes + outstanding } then
             [mk "early-status-rejected-unsound" "status Rejected before expiry, but passes if all outstanding weight votes yes"] else [])
      (mu, f5 ++ f1 ++ f2 ++ f3 ++ f4 ++ f6)
  | _ => (mu, [])

def scen : Scen MState Mon where
  init _ := {}
  step := stepOp
  obs _ := []
  monInit _ := {}
  monitor := monitorOp
  -- stateless (every op is an independent evaluation, no observation lines): a disagreement never stops
  -- the comparison of the following ops
  resync := some fun m _ => some m

end CwPlus.Driver.Cw3Lib
