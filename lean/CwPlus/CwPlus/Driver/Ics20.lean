import CwPlus.Driver.Common
import CwPlus.Driver.Cw20
import CwPlus.Model.Ics20
import CwPlus.Model.Ics20Wire
import CwPlus.Model.MsgWire
/-!
Scenario `ics20`: op-line parser, observation renderer and property monitors
(C11, C12, C18) for the cw20-ics20 model (app mode: contract + bank + two cw20 tokens).

Wire format (Base/Json.lean, Model/Ics20Wire.lean): an `ibc recv` line may carry `data=<hex>`, the exact bytes of
`IbcPacket.data`; they are decoded by `Json.decodePacketBytes` here (undecodable = the `raw=1` branch of old
lines, now a computed fact) and the printed fields `amt= denom= snd=` are then ignored (`rcv=` still carries the
result of `addr_validate` on the receiver).  An `ibc ack` line may carry `ackdata=<hex>`, the exact bytes of the
acknowledgement (decoded by `Json.decodeAckBytes`; without it `ok=1|0|raw` as before).  Outcome lines get
`pkt=<hex>` (the data of every emitted `IbcMsg::SendPacket`, `;`-separated; the model renders
`Json.encodePacketBytes` of its packet) and `ackraw=<hex>` (the acknowledgement bytes; the model renders
`ack_success()` exactly, and nothing for an error acknowledgement, whose text it does not know: those bytes are
checked by the monitor `C12/ack-wire-format` — they must decode, with `Json.decodeAckBytes`, to an error
acknowledgement whose canonical encoding they are).  Free text (`to=`, `memo=`, the receiver / memo inside
`sent=`, `rcv=` / `memo=` of ack and timeout lines) is percent-encoded (`Cw20.textEnc`).
-/
-- SCENARIO ics20 Ics20.scen
-- SCENARIO ics20wide Ics20.scen
namespace CwPlus.Driver.Ics20
open CwPlus Wire Driver CwPlus.Ics20

def SELF : String := "@ics20"
def BLOCK0 : Block := ⟨12345, 1571797419879305533⟩

structure MState where
  w : World
  inited : Bool := false
  blk : Block := BLOCK0
  pool : List String := []
  tokens : List String := []
  denoms : List String := []
  chans : List String := []
  /-- header `extra=` (`ics20wide`): further addresses probed by the point queries `pallow` -/
  extra : List String := []

def addrArg (s : String) : AddrArg := let p := parseAddr s; ⟨p.1, p.2⟩

def parseDenom (s : String) : Denom := Ics20Wire.parseDenom s

/-- `a|b|c` -/
def bar (s : String) : List String := s.splitOn "|"

def optNat' (s : String) : Option Nat := if s == "-" then none else s.toNat?

/-- `addr|gas` entries of an allow list -/
def parseAllowList (a : Args) (k : String) : List (AddrArg × Option Nat) :=
  (a.list k).map fun e =>
    match bar e with
    | [ad, g] => (addrArg ad, optNat' g)
    | _ => (addrArg e, none)

/-- `amt|denom` entries -/
def parseFunds (a : Args) : List (String × Nat) :=
  ((a.list "funds").filter (· != "-")).map fun e =>
    match bar e with
    | [amt, d] => (d, amt.toNat?.getD 0)
    | _ => (e, 0)

def parseVersion (s : String) : Version :=
  match s.splitOn "-" with
  | main :: rest =>
    let pre := if rest.isEmpty then none else some ("-".intercalate rest)
    match main.splitOn "." with
    | [x, y, z] => ⟨x.toNat?.getD 0, y.toNat?.getD 0, z.toNat?.getD 0, pre⟩
    | _ => ⟨0, 0, 0, pre⟩
  | [] => ⟨0, 0, 0, none⟩

/-- free text of an op line (`to=`, `memo=`, …) is percent-encoded -/
def txt (s : String) : String := Cw20.textDec s

def parseTransferMsg (a : Args) : TransferMsg :=
  ⟨a.str "chan", txt (a.str "to"), a.optNat "timeout", (a.optStr "memo").map txt⟩

/-- `splitn(3, '/')` of the voucher denom -/
def parseVoucher (s : String) : Option (String × String × Denom) := Ics20Wire.splitVoucher s

/-- `data=<hex>`: the bytes of `IbcPacket.data` (`none`: no such argument; hex that does not parse is the empty
payload followed by nothing decodable: `some none`) -/
def dataArg (a : Args) (k : String) : Option (Option Json.Bytes) := (a.get k).map Json.ofHex

def parsePacketIn (a : Args) : PacketIn :=
  match dataArg a "data" with
  | some (some bytes) => Ics20Wire.packetInOfData (a.str "sport") (a.str "schan") (a.str "chan") bytes
  | some none =>
    { srcPort := a.str "sport", srcChan := a.str "schan", destChan := a.str "chan", amount := none, voucher := none,
      receiver := "", sender := "" }
  | none =>
    let raw := (a.get "raw").isSome
    { srcPort := a.str "sport", srcChan := a.str "schan", destChan := a.str "chan",
      amount := if raw then none else some (a.nat "amt"),
      voucher := if raw then none else parseVoucher (a.str "denom"),
      receiver := (parseAddr (a.str "rcv")).2, sender := a.str "snd" }

/-- What an `ibc recv` line says the packet is, for the monitors: `(amount, voucher denom, receiver)`;
`none` = the data does not decode (`data=` present: decided by `Json.decodePacketBytes`; old lines: `raw=1`). -/
def recvView (a : Args) : Option (Nat × String × String) :=
  match dataArg a "data" with
  | some (some bytes) =>
    match Json.decodePacketBytes bytes with
    | .ok p => some (p.amount, p.denom, p.receiver)
    | .error _ => none
  | some none => none
  | none => if (a.get "raw").isSome then none else some (a.nat "amt", a.str "denom", (parseAddr (a.str "rcv")).2)

def parseFlight (a : Args) : String × Packet :=
  (a.str "chan", ⟨a.nat "amt", parseDenom (a.str "denom"), txt (a.str "rcv"), (parseAddr (a.str "snd")).2, (a.optStr "memo").map txt⟩)

def renderAck : Option Ack → String
  | none => "-"
  | some .success => "success"
  | some .error => "error"

/-- a denom inside a `/`-separated rendering (`sent=`, `sub=`): its own `/` is written `~` (harness `slash_enc`) -/
def slashEnc (d : String) : String := d.replace "/" "~"
def slashDec (d : String) : String := d.replace "~" "/"

def renderSend (o : SendOut) : String :=
  s!"{o.channel}/{slashEnc o.packet.denom.render}/{o.packet.amount}/{o.packet.sender}/{Cw20.textEnc o.packet.receiver}/{Cw20.optTextEnc o.packet.memo}/{o.timeout}"

def renderSub (s : SubMsg) : String :=
  -- the numeric reply id is private to the contract and not compared (the harness routes replies by the code's own id)
  s!"{s.to}/{s.amount}/{slashEnc s.denom.render}/{optNatStr s.gas}"

def renderOutcome (o : Outcome) : Args :=
  [("ack", renderAck o.ack),
   ("sent", if o.sent.isEmpty then "-" else ";".intercalate (o.sent.map renderSend)),
   ("sub", match o.sub with | some s => renderSub s | none => "-"),
   -- the bytes of every emitted packet
   ("pkt", if o.sent.isEmpty then "-" else ";".intercalate (o.sent.map fun x => Json.toHex (Ics20Wire.packetData x.packet))),
   -- the bytes of the `Cw20ExecuteMsg::Transfer` of a cw20 payout / refund sub-message (`send_amount`)
   ("subraw", MsgWire.subRawOfIcs20 o.sub)] ++
  -- the acknowledgement bytes (an error acknowledgement's text is not modelled: not rendered, see `C12/ack-wire-format`)
  (match o.ack with
   | none => [("ackraw", "-")]
   | some a => match Ics20Wire.ackData a with
     | some b => [("ackraw", Json.toHex b)]
     | none => [])

/-- The default counterparty channel of the harness: ids are numbered independently per chain, so our `channel-0 ↔` their
`channel-1`, our `channel-1 ↔` their `channel-2` (the other side's id of one channel is the local id of another);
otherwise `channel-N ↔ channel-1N`. -/
def counterparty (ch : String) : String :=
  if ch == "channel-0" then "channel-1" else if ch == "channel-1" then "channel-2"
  else "channel-1" ++ (ch.drop "channel-".length).toString

/-- The other side as named on a `connect` line (`cport=`, `cchan=`, `conn=`; defaults as in the harness). -/
def parsePeer (a : Args) : Peer :=
  { port := (a.optStr "cport").getD "transfer",
    chan := (a.optStr "cchan").getD (counterparty (a.str "chan")),
    connection := (a.optStr "conn").getD "connection-0" }

def renderChanInfo (i : ChanInfo) : String := s!"{i.id}|{i.cpPort}|{i.cpChan}|{i.connection}"

def allDenoms (m : MState) : List String := m.denoms ++ m.tokens.map (fun t => "cw20:" ++ t)

def obsOf (m : MState) : Args :=
  if !m.inited then [("uninit", "1")] else
  let s := m.w.st
  let (cfg, gov) := match queryConfig s with
    | .ok (t, g, gv) => (s!"{t}/{optNatStr g}", if gv == "" then "-" else gv)
    | .error _ => ("?", "?")
  let allow := (Paginate.sortedEntries Paginate.strLt s.allow).map fun p => s!"{p.1}|{optNatStr p.2}"
  let pallow := (m.tokens ++ m.pool ++ m.extra).map fun a =>
    match queryAllowed s ⟨true, a⟩ with
    | .ok (b, g) => s!"{a}|{if b then 1 else 0}|{optNatStr g}"
    | .error _ => s!"{a}|?"
  let chs := m.chans.map fun c =>
    (s!"ch.{c}", match queryChannel s c with
      | .ok es => joinC (es.map fun e => s!"{e.1}|{e.2.outstanding}|{e.2.totalSent}")
      | .error _ => "-")
  let hold := (allDenoms m).map fun d => s!"{d}|{(m.w.holdings (parseDenom d)).getD 0}"
  let bal := m.pool.map fun a =>
    "|".intercalate (a :: (m.denoms.map fun d => toString (m.w.bankBal a d)) ++ (m.tokens.map fun t => toString (m.w.tokBal t a)))
  [("cfg", cfg), ("gov", gov), ("admin", match queryAdmin s with | .ok a => a | .error _ => "?"), ("allow", joinC allow), ("pallow", joinC pallow),
   ("channels", joinC ((queryListChannels s).map renderChanInfo))]
    ++ chs ++ [("hold", joinC hold), ("bal", joinC bal),
               ("cw2", s!"{s.versionName}@{s.version.major}.{s.version.minor}.{s.version.patch}{match s.version.pre with | some p => "-" ++ p | none => ""}")]

/-! ## Re-synchronisation -/

/-- `name@version` (split at the last `@`) -/
def parseCw2 (s : String) : Option (String × Version) :=
  match (s.splitOn "@").reverse with
  | v :: n :: rest => some ("@".intercalate (n :: rest).reverse, parseVersion v)
  | _ => none

def parseChanInfo (e : String) : Option ChanInfo :=
  match bar e with
  | [id, p, c, conn] => some ⟨id, p, c, conn⟩
  | _ => none

/-- Config / admin (`cfg`, `admin`; when the queries fail — a pre-0.12 layout — the old model's `config`,
`v1gov` stay), the allow list, the channel registry (`channels`), the per-channel books of the header's
channels (`ch.<id>`; an unregistered channel shows `-`: its old entries stay), the cw2 item (`cw2`), the
balances of the pool and the contract's holdings.  Kept: block, header data, `replyArgs` (written before it
is ever read), anybody else's balances. -/
def resyncOf (m : MState) (o : Args) : Option MState :=
  if (o.get "uninit").isSome then some { m with inited := false } else do
  let old := m.w.st
  let (config, v1gov) ← (if o.str "cfg" == "?" then
      (if m.inited then some (old.config, old.v1gov) else none)
    else match (o.str "cfg").splitOn "/" with
      | [t, g] => t.toNat?.map fun t => ((⟨t, optNat' g⟩ : Config), (none : Option Addr))
      | _ => none)
  let admin : Option Addr := if o.str "admin" == "?" || o.str "admin" == "-" then none else some (o.str "admin")
  let allow : AMap Addr (Option Nat) := (o.list "allow").foldl (fun acc e =>
    match bar e with
    | [a, g] => acc.set a (optNat' g)
    | _ => acc) []
  let infos : Option (List ChanInfo) := if o.str "channels" == "?" then none else some ((o.list "channels").filterMap parseChanInfo)
  let chanInfo : AMap String ChanInfo := match infos with
    | some l => l.foldl (fun acc i => acc.set i.id i) []
    | none => old.chanInfo
  let channels : List String := match infos with
    | some l => let ids := l.map (·.id); (old.channels.filter ids.contains) ++ (ids.filter fun c => !old.channels.contains c)
    | none => old.channels
  let chan : ChanMap := m.chans.foldl (fun (acc : ChanMap) c =>
    match o.get s!"ch.{c}" with
    | none => acc
    | some "-" => acc
    | some v =>
      (splitList v).foldl (fun (acc : ChanMap) e =>
        match bar e with
        | [d, x, t] => acc.set (c, parseDenom d) ⟨x.toNat?.getD 0, t.toNat?.getD 0⟩
        | _ => acc) (acc.filter fun e => e.1.1 != c)) old.chan
  let (versionName, version) := match parseCw2 (o.str "cw2") with
    | some p => p
    | none => (old.versionName, old.version)
  let st : State := { config, v1gov, admin, allow, channels, chanInfo, chan, replyArgs := old.replyArgs, versionName, version }
  -- balances
  let setIf {κ : Type} [DecidableEq κ] (mp : AMap κ Nat) (k : κ) (v : Nat) : AMap κ Nat :=
    if (mp.get? k).getD 0 == v then mp else mp.set k v
  let (bank, tok) := (o.list "hold").foldl (fun (acc : AMap (Addr × String) Nat × AMap (Addr × Addr) Nat) e =>
    match bar e with
    | [d, h] =>
      (match parseDenom d with
       | .native dd => (setIf acc.1 (m.w.self, dd) (h.toNat?.getD 0), acc.2)
       | .cw20 t => if m.w.tokens.contains t then (acc.1, setIf acc.2 (t, m.w.self) (h.toNat?.getD 0)) else acc)
    | _ => acc) (m.w.bank, m.w.tok)
  let (bank, tok) := (o.list "bal").foldl (fun (acc : AMap (Addr × String) Nat × AMap (Addr × Addr) Nat) e =>
    match bar e with
    | a :: vals =>
      let nd := m.denoms.length
      let b := (m.denoms.zip (vals.take nd)).foldl (fun b (d, v) => setIf b (a, d) (v.toNat?.getD 0)) acc.1
      let t := (m.tokens.zip (vals.drop nd)).foldl (fun t (tk, v) => setIf t (tk, a) (v.toNat?.getD 0)) acc.2
      (b, t)
    | [] => acc) (bank, tok)
  pure { m with inited := true, w := { m.w with st, bank, tok } }

def err (m : MState) (tag : String) : MState × StepResult := (m, { ok := some false, tag := tag })

/-- Run a world-level op. -/
def runOp (m : MState) (kind : String) (op : Op) (withOut : Bool := true) : MState × StepResult :=
  if !m.inited then err m "uninit" else
  match m.w.exec m.blk op with
  | .ok (w', o) =>
    ({ m with w := w' }, { ok := some true, out := if withOut then renderOutcome o else [], tag := s!"{kind}.ok.{renderAck o.ack}{if o.sub.isSome then "+sub" else ""}" })
  | .error e => err m s!"{kind}.{e}"

def initWorld (h : Args) : World :=
  let pool := h.list "pool"; let tokens := h.list "tokens"; let denoms := h.list "denoms"
  let fund := h.nat "fund"
  let st : State := { config := ⟨0, none⟩, admin := none, allow := [], channels := [], chan := [],
                      versionName := CONTRACT_NAME, version := CONTRACT_VERSION }
  { st := st, self := SELF, tokens := tokens, faulty := h.list "faulty",
    bank := pool.flatMap fun a => denoms.map fun d => ((a, d), fund),
    tok := tokens.flatMap fun t => pool.map fun a => ((t, a), fund) }

def stepOp (m : MState) (toks : List String) : MState × StepResult :=
  match toks with
  | "env" :: rest =>
    let a := args rest
    ({ m with blk := ⟨a.nat "height", a.nat "time"⟩ }, { ok := none, tag := "env" })
  | "inst" :: rest =>
    let a := args rest
    if m.inited then err m "inst.twice" else
    let msg : InstMsg := { defaultTimeout := a.nat "timeout", gov := addrArg (a.str "gov"),
                           allowlist := parseAllowList a "allow", defaultGasLimit := a.optNat "gas" }
    match instantiate msg with
    | .ok s => ({ m with w := { m.w with st := s }, inited := true }, { ok := some true, tag := "inst.ok" })
    | .error e => err m s!"inst.{e}"
  | "inst_legacy" :: rest =>
    let a := args rest
    if m.inited then err m "inst.twice" else
    let v1 := a.str "fmt" == "v1"
    let gov := (parseAddr (a.str "gov")).2
    let chan : ChanMap := (a.list "state").foldl (fun acc e =>
      match bar e with
      | [c, d, o, t] => acc.set (c, parseDenom d) ⟨o.toNat?.getD 0, t.toNat?.getD 0⟩
      | _ => acc) []
    let allow : AMap Addr (Option Nat) :=
      if v1 then [] else (parseAllowList a "allow").foldl (fun acc p => acc.set p.1.text p.2) []
    let st : State :=
      { config := ⟨a.nat "timeout", if v1 then none else a.optNat "gas"⟩,
        v1gov := if v1 then some gov else none,
        admin := if v1 then none else some gov,
        allow := allow, channels := a.list "chans", chan := chan,
        chanInfo := (a.list "chans").foldl (fun acc c => acc.set c ⟨c, "transfer", counterparty c, "connection-0"⟩) [],
        versionName := a.str "name", version := parseVersion (a.str "ver") }
    -- the tokens the old code held
    let w := (a.list "hold").foldl (fun (w : World) e =>
      match bar e with
      | [d, h] =>
        (match parseDenom d with
         | .native dd => { w with bank := w.bank.set (SELF, dd) (h.toNat?.getD 0) }
         | .cw20 t => { w with tok := w.tok.set (t, SELF) (h.toNat?.getD 0) })
      | _ => w) { m.w with st := st }
    ({ m with w := w, inited := true }, { ok := some true, tag := s!"inst_legacy.{a.str "fmt"}" })
  | "migrate" :: rest =>
    let a := args rest
    runOp m "migrate" (.migrate (a.optNat "gas")) false
  | "exec" :: snd :: kind :: rest =>
    let a := args rest
    match kind with
    | "transfer" => runOp m kind (.transferNative snd (parseFunds a) (parseTransferMsg a))
    | "send" =>
      runOp m kind (.sendCw20 snd (a.str "token") (a.nat "amt") (if (a.get "raw").isSome then none else some (parseTransferMsg a)))
    | "hook" => runOp m kind (.hook snd (parseFunds a) (addrArg (a.str "sender")) (a.nat "amt") (some (parseTransferMsg a)))
    | "allow" => runOp m kind (.allow snd (addrArg (a.str "contract")) (a.optNat "gas"))
    | "update_admin" => runOp m kind (.updateAdmin snd (addrArg (a.str "admin")))
    | _ => err m "badop"
  | "ibc" :: kind :: rest =>
    let a := args rest
    let fail := a.nat "fail" == 1
    let tv := a.nat "tv" == 1
    match kind with
    | "connect" =>
      runOp m kind (.connect (a.str "chan") (a.str "ver") (a.optStr "cver") (a.str "order" == "ordered") (parsePeer a))
    | "open" => runOp m kind (.chanOpen (a.str "ver") (a.optStr "cver") (a.str "order" == "ordered"))
    | "close" => runOp m kind (.chanClose (a.str "chan"))
    | "recv" => runOp m kind (.recv (parsePacketIn a) (parseAddr (a.str "rcv")).1 tv fail)
    | "ack" =>
      let f := parseFlight a
      let ok := match dataArg a "ackdata" with
        | some (some bytes) => Ics20Wire.ackOkOfData bytes
        | some none => none
        | none => match a.str "ok" with | "1" => some true | "0" => some false | _ => none
      runOp m kind (.ack f.1 (some f.2) ok (parseAddr (a.str "snd")).1 tv fail)
    | "timeout" =>
      let f := parseFlight a
      runOp m kind (.timeout f.1 (some f.2) (parseAddr (a.str "snd")).1 tv fail)
    | _ => err m "badop"
  | "query" :: kind :: rest =>
    let a := args rest
    if !m.inited then err m "uninit" else
    let s := m.w.st
    let r : Res String :=
      match kind with
      | "allowed" => (queryAllowed s (addrArg (a.str "contract"))).map fun (b, g) => s!"{if b then 1 else 0}|{optNatStr g}"
      | "list_allowed" =>
        (queryListAllowed s ((a.optStr "after").map addrArg) (a.optNat "limit")).map fun l =>
          joinC (l.map fun p => s!"{p.1}|{optNatStr p.2}")
      | "port" => queryPort (a.optStr "env")
      | "list_channels" => .ok (joinC ((queryListChannels s).map renderChanInfo))
      | "channel" => do
        let i ← queryChannelInfo s (a.str "id")
        let es ← queryChannel s (a.str "id")
        pure (renderChanInfo i ++ ";" ++ joinC (es.map fun e => s!"{e.1}|{e.2.outstanding}|{e.2.totalSent}"))
      | "config" => (queryConfig s).map fun (t, g, gv) => s!"{t}/{optNatStr g}/{if gv == "" then "-" else gv}"
      | "admin" => queryAdmin s
      | _ => .error "badquery"
    match r with
    | .ok v => (m, { ok := some true, out := [("result", v)], tag := s!"q.{kind}.ok" })
    | .error e => err m s!"q.{kind}.{e}"
  | _ => (m, { ok := none, tag := "unknown" })

/-! ## Monitors: the properties' own predicates, evaluated on implementation observations -/

abbrev Ledger := AMap (String × String) Nat

def Ledger.at (l : Ledger) (k : String × String) : Nat := (l.get? k).getD 0
def Ledger.add (l : Ledger) (k : String × String) (n : Nat) : Ledger := l.set k (l.at k + n)

structure Mon where
  blk : Block := BLOCK0
  inited : Bool := false
  chans : List String := []
  pool : List String := []
  denoms : List String := []
  tokens : List String := []
  /-- C11/C12 ghosts per (channel, denom): Σ accepted transfers (plus what a legacy state / a
  migration brought in), Σ failed-or-timed-out sends, Σ redeemed, Σ actually paid out -/
  escrowed : Ledger := []
  totalSent : Ledger := []
  failed : Ledger := []
  redeemed : Ledger := []
  paidOut : Ledger := []
  /-- the (legacy) start state was solvent -/
  solvent0 : Bool := true
  /-- version of the legacy layout the trace started from (`none` = fresh instantiation) -/
  legacyVer : Option (Nat × Nat × Nat) := none
  /-- no op has succeeded since the legacy state was written -/
  legacyUntouched : Bool := false

/-- `ch.<id>` → entries `(denom, outstanding, total_sent)`; `none` if the channel is unknown -/
def obsChan (o : Args) (c : String) : Option (List (String × Nat × Nat)) :=
  match o.get s!"ch.{c}" with
  | none => none
  | some "-" => none
  | some v => some ((splitList v).filterMap fun e =>
      match bar e with
      | [d, x, t] => some (d, x.toNat?.getD 0, t.toNat?.getD 0)
      | _ => none)

def obsOut (o : Args) (c d : String) : Nat :=
  match obsChan o c with
  | some es => ((es.find? (·.1 == d)).map (·.2.1)).getD 0
  | none => 0

def obsTotal (o : Args) (c d : String) : Nat :=
  match obsChan o c with
  | some es => ((es.find? (·.1 == d)).map (·.2.2)).getD 0
  | none => 0

def obsHold (o : Args) : List (String × Nat) :=
  (o.list "hold").filterMap fun e => match bar e with | [d, n] => some (d, n.toNat?.getD 0) | _ => none

/-- allow list `addr ↦ gas` -/
def obsAllow (o : Args) : List (String × Option Nat) :=
  (o.list "allow").filterMap fun e => match bar e with | [a, g] => some (a, optNat' g) | _ => none

/-- balance of `actor` in the `i`-th column (natives, then tokens) -/
def obsBal (o : Args) (actor : String) (i : Nat) : Nat :=
  match (o.list "bal").find? (fun e => (bar e).head? == some actor) with
  | some e => (((bar e).drop (i + 1)).head?.bind String.toNat?).getD 0
  | none => 0

/-- `t/g` of the `cfg` field -/
def obsCfg (o : Args) : Option (Nat × Option Nat) :=
  match (o.str "cfg").splitOn "/" with
  | [t, g] => some (t.toNat?.getD 0, optNat' g)
  | _ => none

def mk (p sig d : String) : Finding := ⟨p, sig, d⟩

/-- `some a ⊑ some b (a ≤ b) ⊑ none` -/
def gasLe (a b : Option Nat) : Bool :=
  match a, b with
  | _, none => true
  | none, some _ => false
  | some x, some y => decide (x ≤ y)

def idxOf (l : List String) (x : String) : Option Nat :=
  let rec go : List String → Nat → Option Nat
    | [], _ => none
    | y :: ys, i => if y == x then some i else go ys (i + 1)
  go l 0

def monitorOp (mu : Mon) (prev : Args) (toks : List String) (implOk : Bool) (out cur : Args) : Mon × List Finding :=
  match toks with
  | "env" :: rest => let a := args rest; ({ mu with blk := ⟨a.nat "height", a.nat "time"⟩ }, [])
  | "query" :: _ => (mu, [])
  | _ =>
    if (cur.get "uninit").isSome then (mu, []) else
    let kind := match toks with | "exec" :: _ :: k :: _ => k | "ibc" :: k :: _ => s!"ibc.{k}" | k :: _ => k | [] => ""
    let snd := match toks with | "exec" :: s :: _ => s | _ => ""
    let a := match toks with | "exec" :: _ :: _ :: rest => args rest | "ibc" :: _ :: rest => args rest | _ :: rest => args rest | [] => []
    let isInst := kind == "inst" || kind == "inst_legacy"
    let allD := mu.denoms ++ mu.tokens.map (fun t => "cw20:" ++ t)
    -- every (channel, denom) pair visible now or before
    let pairs : List (String × String) := (mu.chans.flatMap fun c =>
      (((obsChan cur c).getD []).map fun e => (c, e.1)) ++ (((obsChan prev c).getD []).map fun e => (c, e.1))).eraseDups
    -- ---------- ghost ledgers
    let mu :=
      if isInst then
        let es : List ((String × String) × Nat × Nat) := mu.chans.flatMap fun c => ((obsChan cur c).getD []).map fun e => ((c, e.1), e.2)
        let solvent := (obsHold cur).all fun (d, h) => decide ((mu.chans.foldl (fun acc c => acc + obsOut cur c d) 0) ≤ h)
        { mu with inited := true, escrowed := es.map (fun e => (e.1, e.2.1)), totalSent := es.map (fun e => (e.1, e.2.2)),
                  failed := [], redeemed := [], paidOut := [], solvent0 := solvent }
      else mu
    let fresh := isInst || !mu.inited
    -- an incoming packet as the line states it (`data=`: decoded here)
    let view : Option (Nat × String × String) := if kind == "ibc.recv" then recvView a else none
    let undec := kind == "ibc.recv" && view.isNone
    let amt := match view with | some v => v.1 | none => a.nat "amt"
    let rdenom := match view with | some v => v.2.1 | none => a.str "denom"
    let rrcv := match view with | some v => v.2.2 | none => (parseAddr (a.str "rcv")).2
    let ackS := out.str "ack"
    -- the packet emitted by an accepted transfer: chan/denom/amt/snd/rcv/memo/timeout
    let sentL := if out.str "sent" == "-" || out.str "sent" == "" then [] else (out.str "sent").splitOn ";"
    let mu := if fresh || !implOk then mu else
      if kind == "transfer" || kind == "send" || kind == "hook" then
        sentL.foldl (fun (mu : Mon) p =>
          match p.splitOn "/" with
          | [c, d0, n, _, _, _, _] =>
            let d := slashDec d0
            { mu with escrowed := mu.escrowed.add (c, d) (n.toNat?.getD 0), totalSent := mu.totalSent.add (c, d) (n.toNat?.getD 0) }
          | _ => mu) mu
      else if kind == "migrate" && (match mu.legacyVer with
          | some (x, y, z) => x < 1 && (y < 13 || (y == 13 && z == 0))
          | none => false) then
        -- `v2::update_balances` books tokens in flight under the old rules as sent — only when the store was written by
        -- a version ≤ 0.13.0; a migrate of a current store must not touch the books (else: C11/reported-beyond-escrow)
        pairs.foldl (fun (mu : Mon) k =>
          let o0 := obsOut prev k.1 k.2; let o1 := obsOut cur k.1 k.2
          if o1 > o0 then { mu with escrowed := mu.escrowed.add k (o1 - o0), totalSent := mu.totalSent.add k (o1 - o0) } else mu) mu
      else if kind == "ibc.recv" && ackS == "success" then
        match parseVoucher rdenom with
        | some (_, _, d) =>
          let k := (a.str "chan", d.render)
          { mu with redeemed := mu.redeemed.add k amt, paidOut := mu.paidOut.add k amt }
        | none => mu
      else if (kind == "ibc.ack" && a.str "ok" == "0") || kind == "ibc.timeout" then
        let k := (a.str "chan", a.str "denom")
        let mu := { mu with failed := mu.failed.add k amt }
        if ackS == "-" then { mu with paidOut := mu.paidOut.add k amt } else mu
      else mu
    -- ---------- C11
    let f11 := if !mu.inited then [] else
      -- solvency: real holdings cover the sum over channels of what is reported outstanding
      (if !mu.solvent0 then [] else (obsHold cur).filterMap fun (d, h) =>
        let tot := mu.chans.foldl (fun acc c => acc + obsOut cur c d) 0
        if tot ≤ h then none else some (mk "C11" "C11/insolvent" s!"denom={d} holdings={h} outstanding={tot}")) ++
      -- paid out on a channel never exceeds what was escrowed there
      (mu.paidOut.filterMap fun (k, p) =>
        if p ≤ mu.escrowed.at k then none
        else some (mk "C11" "C11/paid-beyond-escrow" s!"chan={k.1} denom={k.2} paid={p} escrowed={mu.escrowed.at k}")) ++
      -- ... and what a channel still reports as its own, plus what it already paid, never exceeds what was escrowed there
      (pairs.filterMap fun k =>
        if obsOut cur k.1 k.2 + mu.paidOut.at k ≤ mu.escrowed.at k then none
        else some (mk "C11" "C11/reported-beyond-escrow"
          s!"chan={k.1} denom={k.2} outstanding={obsOut cur k.1 k.2} paid={mu.paidOut.at k} escrowed={mu.escrowed.at k}")) ++
      -- bad packets release nothing
      (if kind == "ibc.recv" && !fresh then
        let bad : Bool := undec ||
          (match parseVoucher rdenom with
           | none => true
           | some (p, c, d) => p != a.str "sport" || c != a.str "schan" || amt > obsOut prev (a.str "chan") d.render)
        if bad && (ackS == "success" || prev.str "hold" != cur.str "hold" || prev.str "bal" != cur.str "bal") then
          [mk "C11" "C11/bad-packet-released" s!"ack={ackS}"] else []
       else [])
    -- ---------- C12
    let mu := if kind == "inst_legacy" then
        let v := ((a.str "ver").splitOn "-").headD ""
        { mu with legacyUntouched := true,
                  legacyVer := match v.splitOn "." with
                               | [x, y, z] => some (x.toNat?.getD 0, y.toNat?.getD 0, z.toNat?.getD 0)
                               | _ => none }
      else if kind == "inst" then { mu with legacyVer := none } else mu
    let _untouched := mu.legacyUntouched
    let mu := if kind != "inst_legacy" && implOk then { mu with legacyUntouched := false } else mu
    -- C12, upgrade path: a contract stored at a version ≤ 0.13.0 (tokens in flight were not yet booked
    -- per channel) comes out of `migrate` with every outstanding balance equal to what it really holds
    let fmig := match mu.legacyVer with
      | some (x, y, z) =>
        -- (whatever happened since the legacy state was written: a successful migrate from such a version implies a
        -- single channel, and `update_balances` then sets each of its balances to the contract's holdings)
        if kind == "migrate" && implOk && (x < 0 + 1 && (y < 13 || (y == 13 && z == 0))) then
          (pairs.filterMap fun k =>
            let o := obsOut cur k.1 k.2
            let h := ((obsHold cur).find? (fun p => p.1 == k.2)).map (·.2)
            match h with
            | some hv => if o == hv then none else
                some (mk "C12" "C12/migrate-not-reconciled" s!"chan={k.1} denom={k.2} outstanding={o} holdings={hv}")
            | none => none) ++
          -- … which can only be true of ONE channel per denomination: the tokens held are booked once
          ((pairs.map (·.2)).eraseDups.filterMap fun d =>
            let tot := (pairs.filter (·.2 == d)).foldl (fun acc k => acc + obsOut cur k.1 k.2) 0
            match ((obsHold cur).find? (fun p => p.1 == d)).map (·.2) with
            | some hv => if tot ≤ hv then none else
                some (mk "C12" "C12/migrate-booked-twice" s!"denom={d} outstanding over all channels={tot} holdings={hv}")
            | none => none)
        else []
      | none => []
    -- a successful migrate stores the current version: later migrates are not upgrades from a legacy layout
    -- C12, upgrade path: a successful migrate of an older contract records the code's version (otherwise the next
    -- migrate runs the one-shot balance reconciliation again); a same-or-newer stored version is left as it is
    let older := match mu.legacyVer with
      | some (x, y, z) => let v := Ics20.CONTRACT_VERSION
                          x < v.major || (x == v.major && (y < v.minor || (y == v.minor && z < v.patch)))
      | none => false
    let fver := if kind == "migrate" && implOk && older then
        let v := Ics20.CONTRACT_VERSION
        let want := s!"{Ics20.CONTRACT_NAME}@{v.major}.{v.minor}.{v.patch}"
        if cur.str "cw2" == want || cur.str "cw2" == "" then [] else
          [mk "C12" "C12/migrate-version-not-recorded" s!"stored={cur.str "cw2"} expected={want}"]
      else []
    let mu := if kind == "migrate" && implOk then { mu with legacyVer := none } else mu
    let f12 := if !mu.inited then [] else fmig ++ fver ++
      -- outstanding = sent − failed-or-timed-out − redeemed, total_sent = sent
      (pairs.filterMap fun k =>
        let o := obsOut cur k.1 k.2
        if o + mu.failed.at k + mu.redeemed.at k == mu.escrowed.at k then none
        else some (mk "C12" "C12/outstanding-identity"
          s!"chan={k.1} denom={k.2} outstanding={o} sent={mu.escrowed.at k} failed={mu.failed.at k} redeemed={mu.redeemed.at k}")) ++
      (pairs.filterMap fun k =>
        if obsTotal cur k.1 k.2 == mu.totalSent.at k then none
        else some (mk "C12" "C12/total-sent" s!"chan={k.1} denom={k.2} total_sent={obsTotal cur k.1 k.2} ghost={mu.totalSent.at k}")) ++
      (if fresh then [] else
       if kind == "ibc.recv" then
        (if !implOk then [mk "C12" "C12/receive-aborted" "ibc_packet_receive transaction failed"] else
         if ackS == "error" then
           (if cur == prev then [] else
             let d := (firstDiff prev cur).map (fun x => x.1)
             [mk "C12" "C12/error-ack-changed-state" s!"field={d.getD "?"}"])
         else if ackS == "success" then
           match parseVoucher rdenom with
           | none => [mk "C12" "C12/success-ack-unparsed" "success ack for a denom without prefix"]
           | some (_, _, d) =>
             let c := a.str "chan"; let ds := d.render
             let rcv := rrcv
             let col := idxOf allD ds
             (if obsOut cur c ds + amt == obsOut prev c ds then [] else
               [mk "C12" "C12/success-ack-balance" s!"outstanding {obsOut prev c ds}->{obsOut cur c ds} amt={amt}"]) ++
             (match col with
              | some i =>
                if mu.pool.contains rcv && obsBal cur rcv i != obsBal prev rcv i + amt then
                  [mk "C12" "C12/success-ack-not-paid" s!"receiver balance {obsBal prev rcv i}->{obsBal cur rcv i} amt={amt}"]
                else []
              | none => [mk "C12" "C12/success-ack-not-paid" s!"no such token {ds}"])
         else [mk "C12" "C12/no-ack" s!"ack={ackS}"])
       else if kind == "transfer" || kind == "send" || kind == "hook" then
        (if !implOk then [] else
          let tmo : Option Nat := match a.optNat "timeout" with
            | some t => some t
            | none => (obsCfg prev).map (fun (p : Nat × Option Nat) => p.1)
          let denom := if kind == "transfer" then ((parseFunds a).head?.map (·.1)).getD "?" else
                       if kind == "send" then "cw20:" ++ a.str "token" else "cw20:" ++ snd
          let amount := if kind == "transfer" then ((parseFunds a).head?.map (·.2)).getD 0 else amt
          let sender := if kind == "hook" then (parseAddr (a.str "sender")).2 else snd
          let expect := s!"{a.str "chan"}/{slashEnc denom}/{amount}/{sender}/{a.str "to"}/{optStrStr (a.optStr "memo")}/{mu.blk.time + (tmo.getD 0) * 1000000000}"
          if sentL == [expect] && amount ≤ U64_MAX && amount != 0 then [] else
            [mk "C12" "C12/transfer-packet" s!"sent={out.str "sent"} expected={expect}"])
       else []) ++
      -- the acknowledgement bytes are `ack_success()` or a canonical `{"error":"<text>"}`, in agreement with their class
      (if fresh || !implOk || !(kind == "ibc.recv" || kind == "ibc.ack" || kind == "ibc.timeout") then [] else
        match out.get "ackraw" with
        | none => []
        | some hx =>
          let cls := if hx == "-" then "-" else
            match Json.ofHex hx with
            | some bytes => renderAck (Ics20Wire.ackClass bytes)
            | none => "?"
          if cls == ackS then [] else [mk "C12" "C12/ack-wire-format" s!"ack={ackS} bytes={cls}"])
    -- ---------- C18
    let f18 := if fresh then [] else
      let pa := obsAllow prev; let ca := obsAllow cur
      let adminP := prev.str "admin"; let adminC := cur.str "admin"
      -- never removed, never lowered
      (pa.filterMap fun (t, g) =>
        match ca.find? (·.1 == t) with
        | none => some (mk "C18" "C18/allow-removed" s!"token={t}")
        | some (_, g') => if gasLe g g' then none else some (mk "C18" "C18/gas-lowered" s!"token={t} {optNatStr g}->{optNatStr g'}")) ++
      -- only the admin changes the list
      (if prev.str "allow" != cur.str "allow" && !(kind == "allow" && implOk && snd == adminP) then
        [mk "C18" "C18/allow-changed-by-non-admin" s!"by {kind} from {snd}, admin={adminP}"] else []) ++
      -- only the admin hands governance over (a v1 migration installs the old gov_contract)
      (if adminP != adminC && !(kind == "update_admin" && implOk && snd == adminP) && !(kind == "migrate" && implOk && adminP == "?") then
        [mk "C18" "C18/admin-changed" s!"{adminP}->{adminC} by {kind} from {snd}"] else []) ++
      (if (adminC == "-" || adminC == "?") && !(adminP == "-" || adminP == "?") then [mk "C18" "C18/admin-cleared" s!"by {kind}"] else []) ++
      -- the default gas limit changes only by migrate and is never unset
      (match obsCfg prev, obsCfg cur with
       | some (_, gp), some (_, gc) =>
         (if gp != gc && !(kind == "migrate" && implOk) then [mk "C18" "C18/default-gas-changed" s!"by {kind}"] else []) ++
         (if gp.isSome && gc.isNone then [mk "C18" "C18/default-gas-unset" s!"by {kind}"] else [])
       | _, _ => []) ++
      -- cw20 transfer gate
      (if (kind == "send" || kind == "hook") && implOk then
        let t := if kind == "send" then a.str "token" else snd
        let dflt := ((obsCfg prev).map (·.2)).getD none
        if dflt.isSome || (pa.find? (·.1 == t)).isSome then [] else
          [mk "C18" "C18/transfer-gate" s!"token={t} neither allowed nor default gas limit"]
       else []) ++
      -- payout / refund sub-message carries the token's current limit, else the default
      (if (kind == "ibc.recv" || kind == "ibc.ack" || kind == "ibc.timeout") && implOk && out.str "sub" != "-" then
        match (out.str "sub").splitOn "/" with
        | [_, _, d, g] =>
          let expect : Option (Option Nat) :=
            if d.startsWith "cw20:" then
              match pa.find? (·.1 == (d.drop 5).toString) with
              | some (_, g) => some g
              | none => ((obsCfg prev).map (·.2)).getD none |>.map some
            else some none
          (match expect with
           | some e => if optNatStr e == g then [] else [mk "C18" "C18/payout-gas" s!"sub={out.str "sub"} expected={optNatStr e}"]
           | none => [mk "C18" "C18/payout-gas" s!"sub={out.str "sub"} for a token that is neither allowed nor covered by a default"])
        | _ => [mk "C18" "C18/payout-gas" s!"unparsed sub={out.str "sub"}"]
       else [])
    -- an accepted instantiate records every entry of its allow list (the last one per address) with its gas limit
    let f18i := if kind == "inst" && implOk then
        let ca := obsAllow cur
        let want : AMap String (Option Nat) := (parseAllowList a "allow").foldl (fun acc p => acc.set p.1.text p.2) []
        want.filterMap fun (t, g) =>
          match ca.find? (·.1 == t) with
          | some (_, g') => if g == g' then none else some (mk "C18" "C18/initial-allow-gas" s!"token={t} submitted={optNatStr g} stored={optNatStr g'}")
          | none => some (mk "C18" "C18/initial-allow-missing" s!"token={t} gas={optNatStr g}")
      else []
    (mu, f11 ++ f12 ++ f18 ++ f18i)

def scen : Scen MState Mon where
  init h := { w := initWorld h, pool := h.list "pool", tokens := h.list "tokens", denoms := h.list "denoms", chans := h.list "chans", extra := h.list "extra" }
  step := stepOp
  obs := obsOf
  monInit h := { chans := h.list "chans", pool := h.list "pool", denoms := h.list "denoms", tokens := h.list "tokens" }
  monitor := monitorOp
  resync := some resyncOf

end CwPlus.Driver.Ics20
