import CwPlus.Base.Wire
/-!
Generic lock-step trace runner.  A trace file is a sequence of blocks

    scenario <name> k=v …
    <op line>
    > ok|err k=v …        (implementation outcome; absent for `env` lines)
    obs k=v …             (implementation observation; absent for queries)

For every op the model is stepped, outcome and observation are compared field by
field, and the property monitors are evaluated on the *implementation's*
observations.  Output: one line per finding plus one summary line per trace.
-/
namespace CwPlus.Driver
open CwPlus Wire

structure OpRec where
  op : String
  outcome : Option String := none
  obs : Option String := none
  deriving Repr, Inhabited

/-- Group the lines of one trace (without its header) into op records. -/
def groupOps (lines : List String) : List OpRec :=
  let rec go (ls : List String) (cur : Option OpRec) (acc : List OpRec) : List OpRec :=
    match ls with
    | [] => (match cur with | some c => c :: acc | none => acc).reverse
    | l :: rest =>
      if l.startsWith ">" then
        go rest (cur.map fun c => { c with outcome := some ((l.drop 1).toString.trimAscii.toString) }) acc
      else if l.startsWith "obs" then
        go rest (cur.map fun c => { c with obs := some ((l.drop 3).toString.trimAscii.toString) }) acc
      else if l.trimAscii.toString == "" || l.startsWith "#" then go rest cur acc
      else
        go rest (some { op := l }) (match cur with | some c => c :: acc | none => acc)
  go lines none []

/-- What the model says about one op. -/
structure StepResult where
  /-- model outcome; `none` = this op's outcome is not modelled (frame check only) -/
  ok : Option Bool
  /-- outcome arguments to compare when both sides succeed (`msgs`, `result`, …) -/
  out : Args := []
  /-- branch tag for coverage statistics -/
  tag : String := ""

/-- A monitor finding: property id, signature (for known findings), detail. -/
structure Finding where
  prop : String
  sig : String
  detail : String

/-- Keep the first finding of every signature. -/
def dedupFindings (fs : List Finding) : List Finding :=
  fs.foldl (fun acc f => if acc.any (fun g => g.sig == f.sig) then acc else acc ++ [f]) []

structure Scen (σ μ : Type) where
  init : Args → σ
  /-- Run one op on the model.  The returned state is adopted only when the
  implementation accepted the op as well. -/
  step : σ → List String → σ × StepResult
  obs : σ → Args
  monInit : Args → μ
  /-- Property predicates evaluated on implementation observations:
  `monitor μ prevObs op implOk implOut curObs`. -/
  monitor : μ → Args → List String → Bool → Args → Args → μ × List Finding

/-- Replace blanks so a value can be carried in a `key=value` token. -/
def sanitize (s : String) : String := s.map (fun c => if c == ' ' then '_' else c)

def truncate (s : String) (n : Nat := 300) : String :=
  if s.length ≤ n then s else (s.take n).toString ++ "…"

structure RunState (σ μ : Type) where
  model : σ
  mon : μ
  prevObs : Args
  diverged : Bool := false
  step : Nat := 0
  out : List String := []
  tags : List String := []
  compared : Nat := 0
  /-- monitor signatures already reported in this trace (each is reported once) -/
  seen : List String := []

def runTrace {σ μ : Type} (sc : Scen σ μ) (header : String) (lines : List String) : List String :=
  let hargs := args (tokens header)
  let tid := hargs.str "trace"
  let recs := groupOps lines
  let st0 : RunState σ μ := { model := sc.init hargs, mon := sc.monInit hargs, prevObs := [] }
  let st := recs.foldl (fun (st : RunState σ μ) (r : OpRec) =>
    let toks := tokens r.op
    let k := st.step
    let implOut : Args := match r.outcome with | some o => args (tokens o) | none => []
    let implOk : Bool := match r.outcome with | some o => (tokens o).head? == some "ok" | none => true
    -- model
    let (st, tag) :=
      if st.diverged then (st, "")
      else
        let (s', res) := sc.step st.model toks
        match r.outcome with
        | none => ({ st with model := s' }, res.tag)
        | some _ =>
          match res.ok with
          | none => ({ st with model := s' }, res.tag)     -- outcome not modelled
          | some mok =>
            if mok && implOk then
              -- both accepted: compare outcome arguments
              match (res.out.find? (fun p => implOut.str p.1 != p.2)).map (fun p => (p.1, p.2, implOut.str p.1)) with
              | some (f, m, i) =>
                ({ st with model := s', diverged := true,
                           out := s!"T {tid} DISAGREE step={k} field=out.{f} dir=value model={truncate (sanitize m)} impl={truncate (sanitize i)} op={r.op}" :: st.out }, res.tag)
              | none => ({ st with model := s', compared := st.compared + 1 }, res.tag)
            else if !mok && !implOk then ({ st with compared := st.compared + 1 }, res.tag)
            else if mok && !implOk then
              -- implementation is stricter: follow it (model state stays), report
              ({ st with out := s!"T {tid} DISAGREE step={k} field=outcome dir=impl_stricter model=ok impl=err tag={res.tag} op={r.op}" :: st.out }, res.tag)
            else
              ({ st with diverged := true,
                         out := s!"T {tid} DISAGREE step={k} field=outcome dir=impl_laxer model=err impl=ok tag={res.tag} op={r.op}" :: st.out }, res.tag)
    -- observation
    let st :=
      match r.obs with
      | none =>
        -- ops without an observation (block changes, queries): monitors still see the op
        let (mon', fs) := sc.monitor st.mon st.prevObs toks implOk implOut st.prevObs
        -- generic C20 clause: no page exceeds min(requested or 10, 30)
        let fs := fs ++ (match toks with
          | "query" :: _ :: rest =>
            let qa := args rest
            if implOk && (qa.get "limit").isSome && (implOut.get "result").isSome then
              let n := (implOut.list "result").length
              let cap := min ((qa.optNat "limit").getD 10) 30
              if n > cap then [Finding.mk "C20" "C20/page-too-long" s!"items={n} cap={cap}"] else []
            else []
          | _ => [])
        let fs := dedupFindings (fs.filter (fun (f : Finding) => !st.seen.contains f.sig))
        let st := { st with seen := fs.map Finding.sig ++ st.seen }
        let outs := fs.map (fun (f : Finding) => s!"T {tid} MONITOR prop={f.prop} step={k} sig={f.sig} detail={sanitize f.detail} op={r.op}")
        { st with mon := mon', out := outs.reverse ++ st.out }
      | some o =>
        let implObsAll := args (tokens o)
        -- `pagediff` is the harness's own, model-independent C20 audit of the listings
        let pagediff := implObsAll.str "pagediff"
        let implObs : Args := implObsAll.filter (fun (p : String × String) => p.1 != "pagediff")
        let st :=
          if pagediff != "" && !st.seen.contains "C20/paging-inconsistent" then
            { st with seen := "C20/paging-inconsistent" :: st.seen,
                      out := s!"T {tid} MONITOR prop=C20 step={k} sig=C20/paging-inconsistent detail={sanitize pagediff} op={r.op}" :: st.out }
          else st
        let st :=
          if st.diverged then st
          else
            match firstDiff (sc.obs st.model) implObs with
            | some (f, m, i) =>
              { st with diverged := true,
                        out := s!"T {tid} DISAGREE step={k} field=obs.{f} dir=value model={truncate (sanitize m)} impl={truncate (sanitize i)} op={r.op}" :: st.out }
            | none => st
        let (mon', fs) := sc.monitor st.mon st.prevObs toks implOk implOut implObs
        let fs := dedupFindings (fs.filter (fun (f : Finding) => !st.seen.contains f.sig))
        let st := { st with seen := fs.map Finding.sig ++ st.seen }
        let outs := fs.map (fun (f : Finding) => s!"T {tid} MONITOR prop={f.prop} step={k} sig={f.sig} detail={sanitize f.detail} op={r.op}")
        { st with mon := mon', prevObs := implObs, out := outs.reverse ++ st.out }
    { st with step := k + 1, tags := if tag == "" then st.tags else tag :: st.tags }) st0
  let status := if st.out.isEmpty then "OK" else "FINDINGS"
  st.out.reverse ++ [s!"T {tid} {status} steps={st.step} compared={st.compared} tags={joinC st.tags.reverse}"]

/-- Split the whole input into traces at `scenario` lines. -/
def splitTraces (lines : List String) : List (String × List String) :=
  let rec go (ls : List String) (cur : Option (String × List String)) (acc : List (String × List String)) :=
    match ls with
    | [] => (match cur with | some (h, b) => (h, b.reverse) :: acc | none => acc).reverse
    | l :: rest =>
      if l.startsWith "scenario " then
        go rest (some (l, [])) (match cur with | some (h, b) => (h, b.reverse) :: acc | none => acc)
      else
        go rest (cur.map fun (h, b) => (h, l :: b)) acc
  go lines none []

end CwPlus.Driver
