import CwPlus.Base.Wire
/-!
Generic lock-step trace runner.  A trace file is a sequence of blocks

    scenario <name> k=v …
    <op line>
    > ok|err k=v …        (implementation outcome; absent for `env` lines)
    obs k=v …             (implementation observation; absent for queries)

For every op the model is stepped, outcome and observation are compared field by
field, and the property monitors are evaluated on the *implementation's*
observations.  Output: one line per finding plus one summary line per trace.

Re-synchronisation.  After a value disagreement (or an `impl_laxer` outcome: the real
code accepted a call the model rejects) the model state no longer is the
implementation's state.  Every disagreement found at that op is reported (one DISAGREE
line per differing field); then, if the scenario has a `resync` function, the model
state is rebuilt from the implementation's observation of that op and the comparison
goes on: every later op is compared from the implementation's real pre-state, so a
trace can report several disagreements (bounded: `maxPerKey` lines per field and op
kind).  Without `resync` (or when it gives up) only the monitors keep running on the
rest of the trace, as before.  Ops without an observation (queries, probes) do not
change the implementation's state: with `resync` a disagreement there never stops the
comparison.  The monitors never see the model and are unaffected.  Summary line:
`resyncs=` rebuilt states, `inexact=` rebuilt states that still render differently from
the observation (the implementation is in a state the model cannot represent),
`suppressed=` DISAGREE lines beyond the bound.  Header key `forceresync=1` (self-test,
`tools/resync_selftest.sh`): rebuild after *every* observation; `noresync=1`: never rebuild
(the behaviour before re-synchronisation existed, for A/B comparisons).
-/
namespace CwPlus.Driver
open CwPlus Wire

structure OpRec where
  op : String
  outcome : Option String := none
  obs : Option String := none
  deriving Repr, Inhabited

/-- Group the lines of one trace (without its header) into op records. -/
def groupOps (lines : List String) : List OpRec :=
  let rec go (ls : List String) (cur : Option OpRec) (acc : List OpRec) : List OpRec :=
    match ls with
    | [] => (match cur with | some c => c :: acc | none => acc).reverse
    | l :: rest =>
      if l.startsWith ">" then
        go rest (cur.map fun c => { c with outcome := some ((l.drop 1).toString.trimAscii.toString) }) acc
      else if l.startsWith "obs" then
        go rest (cur.map fun c => { c with obs := some ((l.drop 3).toString.trimAscii.toString) }) acc
      else if l.trimAscii.toString == "" || l.startsWith "#" then go rest cur acc
      else
        go rest (some { op := l }) (match cur with | some c => c :: acc | none => acc)
  go lines none []

/-- What the model says about one op. -/
structure StepResult where
  /-- model outcome; `none` = this op's outcome is not modelled (frame check only) -/
  ok : Option Bool
  /-- outcome arguments to compare when both sides succeed (`msgs`, `result`, …) -/
  out : Args := []
  /-- branch tag for coverage statistics -/
  tag : String := ""

/-- A monitor finding: property id, signature (for known findings), detail. -/
structure Finding where
  prop : String
  sig : String
  detail : String

/-- Keep the first finding of every signature. -/
def dedupFindings (fs : List Finding) : List Finding :=
  fs.foldl (fun acc f => if acc.any (fun g => g.sig == f.sig) then acc else acc ++ [f]) []

structure Scen (σ μ : Type) where
  init : Args → σ
  /-- Run one op on the model.  The returned state is adopted only when the
  implementation accepted the op as well. -/
  step : σ → List String → σ × StepResult
  obs : σ → Args
  monInit : Args → μ
  /-- Property predicates evaluated on implementation observations:
  `monitor μ prevObs op implOk implOut curObs`. -/
  monitor : μ → Args → List String → Bool → Args → Args → μ × List Finding
  /-- Re-synchronisation: rebuild the model state from this complete implementation observation, keeping
  from the old model state only what the observation does not show (block, pool, …).  `none` (the field or
  the result) = this scenario / this observation cannot be resynchronised: after the first value
  disagreement only the monitors keep running, as before. -/
  resync : Option (σ → Args → Option σ) := none

/-- Replace blanks so a value can be carried in a `key=value` token. -/
def sanitize (s : String) : String := s.map (fun c => if c == ' ' then '_' else c)

def truncate (s : String) (n : Nat := 300) : String :=
  if s.length ≤ n then s else (s.take n).toString ++ "…"

/-- The op kind as `check` computes it (`op_kind`): the message kind of an `exec`, `query.<kind>`,
`ibc.<kind>`, else the first word. -/
def opKind (toks : List String) : String :=
  match toks with
  | "exec" :: _ :: k :: _ => k
  | "query" :: k :: _ => "query." ++ k
  | "ibc" :: k :: _ => "ibc." ++ k
  | t :: _ => t
  | [] => ""

/-- At most this many DISAGREE lines per trace for one (field, op kind): with re-synchronisation a trace
can disagree many times on the same thing; `check` de-duplicates by (field, direction, op kind) anyway.
Lines beyond the cap are counted in `suppressed=` of the summary line. -/
def maxPerKey : Nat := 5

structure RunState (σ μ : Type) where
  model : σ
  mon : μ
  prevObs : Args
  diverged : Bool := false
  step : Nat := 0
  out : List String := []
  tags : List String := []
  compared : Nat := 0
  /-- monitor signatures already reported in this trace (each is reported once) -/
  seen : List String := []
  /-- successful re-synchronisations of the model from the implementation's observation -/
  resyncs : Nat := 0
  /-- re-synchronisations after which the model still renders differently from the observation it was
  rebuilt from (the implementation is in a state the model cannot represent) -/
  inexact : Nat := 0
  /-- DISAGREE lines printed per (field, op kind) -/
  dcount : List (String × Nat) := []
  suppressed : Nat := 0

/-- Print a value / `impl_laxer` DISAGREE line, bounded per (field, op kind). -/
def RunState.report {σ μ : Type} (st : RunState σ μ) (key line : String) : RunState σ μ :=
  let n := ((st.dcount.find? (·.1 == key)).map (·.2)).getD 0
  if n < maxPerKey then
    { st with out := line :: st.out, dcount := (key, n + 1) :: st.dcount.filter (·.1 != key) }
  else { st with suppressed := st.suppressed + 1 }

def runTrace {σ μ : Type} (sc : Scen σ μ) (header : String) (lines : List String) : List String :=
  let hargs := args (tokens header)
  let tid := hargs.str "trace"
  let recs := groupOps lines
  -- header `noresync=1` (A/B comparison by hand): behave as a scenario without `resync`
  let resync := if hargs.str "noresync" == "1" then none else sc.resync
  let canResync := resync.isSome
  -- self-test of `resync` (header `forceresync=1`, added to a trace file by hand): the model is rebuilt
  -- from every observation, also when nothing disagrees; an exact `resync` changes no verdict
  let force := hargs.str "forceresync" == "1"
  let st0 : RunState σ μ := { model := sc.init hargs, mon := sc.monInit hargs, prevObs := [] }
  let st := recs.foldl (fun (st : RunState σ μ) (r : OpRec) =>
    let toks := tokens r.op
    let k := st.step
    let okind := opKind toks
    let implOut : Args := match r.outcome with | some o => args (tokens o) | none => []
    let implOk : Bool := match r.outcome with | some o => (tokens o).head? == some "ok" | none => true
    -- An op without an observation (query, probe, stateless evaluation) leaves the implementation's state
    -- as it was: when the scenario can resynchronise, a disagreement on such an op does not stop the
    -- comparison (the model state is still the one tied to the last observation).
    let stop : Bool := !(canResync && r.obs.isNone)
    -- model; `cmpObs` = the model ran this op, its post-state is comparable with the observation
    let (st, tag, cmpObs) :=
      if st.diverged then
        -- block changes (ops without an outcome line) still reach a model that will be resynchronised
        if canResync && r.outcome.isNone then
          let (s', res) := sc.step st.model toks
          ({ st with model := s' }, res.tag, false)
        else (st, "", false)
      else
        let (s', res) := sc.step st.model toks
        match r.outcome with
        | none => ({ st with model := s' }, res.tag, true)
        | some _ =>
          match res.ok with
          | none => ({ st with model := s' }, res.tag, true)     -- outcome not modelled
          | some mok =>
            if mok && implOk then
              -- both accepted: compare outcome arguments
              match res.out.filter (fun p => implOut.str p.1 != p.2) with
              | [] => ({ st with model := s', compared := st.compared + 1 }, res.tag, true)
              | bad =>
                let st := bad.foldl (fun (st : RunState σ μ) p =>
                  st.report s!"out.{p.1}/{okind}"
                    s!"T {tid} DISAGREE step={k} field=out.{p.1} dir=value model={truncate (sanitize p.2)} impl={truncate (sanitize (implOut.str p.1))} op={r.op}") st
                -- the post-states are still compared below; then the model is resynchronised (or stops)
                ({ st with model := s', diverged := stop }, res.tag, true)
            else if !mok && !implOk then ({ st with compared := st.compared + 1 }, res.tag, true)
            else if mok && !implOk then
              -- implementation is stricter: follow it (model state stays), report
              ({ st with out := s!"T {tid} DISAGREE step={k} field=outcome dir=impl_stricter model=ok impl=err tag={res.tag} op={r.op}" :: st.out }, res.tag, true)
            else
              let st := st.report s!"outcome.laxer/{okind}"
                s!"T {tid} DISAGREE step={k} field=outcome dir=impl_laxer model=err impl=ok tag={res.tag} op={r.op}"
              ({ st with diverged := stop }, res.tag, false)
    -- observation
    let st :=
      match r.obs with
      | none =>
        -- ops without an observation (block changes, queries): monitors still see the op
        let (mon', fs) := sc.monitor st.mon st.prevObs toks implOk implOut st.prevObs
        -- generic C20 clause: no page exceeds min(requested or 10, 30)
        let fs := fs ++ (match toks with
          | "query" :: _ :: rest =>
            let qa := args rest
            if implOk && (qa.get "limit").isSome && (implOut.get "result").isSome then
              let n := (implOut.list "result").length
              let cap := min ((qa.optNat "limit").getD 10) 30
              if n > cap then [Finding.mk "C20" "C20/page-too-long" s!"items={n} cap={cap}"] else []
            else []
          | _ => [])
        let fs := dedupFindings (fs.filter (fun (f : Finding) => !st.seen.contains f.sig))
        let st := { st with seen := fs.map Finding.sig ++ st.seen }
        let outs := fs.map (fun (f : Finding) => s!"T {tid} MONITOR prop={f.prop} step={k} sig={f.sig} detail={sanitize f.detail} op={r.op}")
        { st with mon := mon', out := outs.reverse ++ st.out }
      | some o =>
        let implObsAll := args (tokens o)
        -- `pagediff` is the harness's own, model-independent C20 audit of the listings
        let pagediff := implObsAll.str "pagediff"
        -- `hdiff`: likewise, the cw4 helper functions against the group's own smart queries (C09)
        let hdiff := implObsAll.str "hdiff"
        let implObs : Args := implObsAll.filter (fun (p : String × String) => p.1 != "pagediff" && p.1 != "hdiff")
        let st :=
          if hdiff != "" && !st.seen.contains "C09/helper-vs-smart-query" then
            { st with seen := "C09/helper-vs-smart-query" :: st.seen,
                      out := s!"T {tid} MONITOR prop=C09 step={k} sig=C09/helper-vs-smart-query detail={sanitize hdiff} op={r.op}" :: st.out }
          else st
        let st :=
          if pagediff != "" && !st.seen.contains "C20/paging-inconsistent" then
            { st with seen := "C20/paging-inconsistent" :: st.seen,
                      out := s!"T {tid} MONITOR prop=C20 step={k} sig=C20/paging-inconsistent detail={sanitize pagediff} op={r.op}" :: st.out }
          else st
        -- every differing field is reported (a disagreement on one field must not hide another's)
        let st :=
          if !cmpObs then st
          else
            match allDiffs (sc.obs st.model) implObs with
            | [] => st
            | ds =>
              let st := ds.foldl (fun (st : RunState σ μ) (d : String × String × String) =>
                st.report s!"obs.{d.1}/{okind}"
                  s!"T {tid} DISAGREE step={k} field=obs.{d.1} dir=value model={truncate (sanitize d.2.1)} impl={truncate (sanitize d.2.2)} op={r.op}") st
              { st with diverged := true }
        -- the model can no longer follow: rebuild it from what the implementation shows, so that the
        -- next op is compared again, from the implementation's real pre-state
        let st :=
          if !st.diverged && !force then st
          else
            match resync.bind (fun f => f st.model implObs) with
            | some m' =>
              { st with model := m', diverged := false, resyncs := st.resyncs + 1,
                        inexact := st.inexact + (if (allDiffs (sc.obs m') implObs).isEmpty then 0 else 1) }
            | none => st
        let (mon', fs) := sc.monitor st.mon st.prevObs toks implOk implOut implObs
        let fs := dedupFindings (fs.filter (fun (f : Finding) => !st.seen.contains f.sig))
        let st := { st with seen := fs.map Finding.sig ++ st.seen }
        let outs := fs.map (fun (f : Finding) => s!"T {tid} MONITOR prop={f.prop} step={k} sig={f.sig} detail={sanitize f.detail} op={r.op}")
        { st with mon := mon', prevObs := implObs, out := outs.reverse ++ st.out }
    { st with step := k + 1, tags := if tag == "" then st.tags else tag :: st.tags }) st0
  let status := if st.out.isEmpty then "OK" else "FINDINGS"
  st.out.reverse ++ [s!"T {tid} {status} steps={st.step} compared={st.compared} resyncs={st.resyncs} inexact={st.inexact} suppressed={st.suppressed} tags={joinC st.tags.reverse}"]

/-- Split the whole input into traces at `scenario` lines. -/
def splitTraces (lines : List String) : List (String × List String) :=
  let rec go (ls : List String) (cur : Option (String × List String)) (acc : List (String × List String)) :=
    match ls with
    | [] => (match cur with | some (h, b) => (h, b.reverse) :: acc | none => acc).reverse
    | l :: rest =>
      if l.startsWith "scenario " then
        go rest (some (l, [])) (match cur with | some (h, b) => (h, b.reverse) :: acc | none => acc)
      else
        go rest (cur.map fun (h, b) => (h, l :: b)) acc
  go lines none []

end CwPlus.Driver
