import CwPlus.Model.Cw4Group
import CwPlus.Lemmas.Snapshot
import CwPlus.Lemmas.Cw4Group
import CwPlus.Lemmas.Paginate
import CwPlus.Lemmas.Cw4GroupNodup
/-!
# C09 — cw4: totals and point-in-time weights always match the true history (cw4-group part)

1. The generic snapshot theorem (`snapshot_atHeight`, `snapshot_atHeight_bounded`, `snapshot_later_invisible`):
   for any sequence of writes with non-decreasing heights, `atHeight k h` is the value of `k` after exactly
   the writes with height `< h`.  Proved in `Lemmas/Snapshot.lean` by induction over the write list.
2. Instantiation for cw4-group: every `instantiate`/`execute` performs, on `MEMBERS` and on `TOTAL`, a list
   of writes at the height of its block (`execute_sameBlock`), so over every history of calls at
   non-decreasing block heights a member's weight and the total weight queried at height `h` equal the
   current values in the state reached by exactly the calls of the blocks before `h`
   (`member_at_height`, `total_at_height`; nothing / 0 at or before the instantiation height).
3. `total_eq_sum_members`: on every reachable state the stored total is the sum of the current member
   weights; the `u64` subtractions on the total never underflow (`update_members_no_underflow`).

**Raw keys.**  That the raw storage keys published by the cw4 spec (`TOTAL_KEY`, `member_key(addr)`) hold
the same values as the smart queries is proved in `Props/C09Raw.lean`, on the byte-level image of a model
state (`Base/RawStore.lean`, `Model/Cw4Raw.lean`); in *this* file raw and smart reads are the same map.  The
image is tied to the real storage by the observation field `rawkeys`; in addition the harness reads both keys
straight from the contract's storage after every op and the monitors `C09/raw-*` compare them with the smart
queries (`Driver/Cw4Group.lean`).
-/
namespace CwPlus.Props.C09
open CwPlus CwPlus.Cw4Group CwPlus.Snapshot

/-! ## 1. The generic snapshot theorem -/

section generic
variable {κ ν : Type} [DecidableEq κ]

/-- **Generic snapshot theorem.**  Start from any map of current values with an empty changelog and apply
any list of writes (`save`/`remove`) whose heights are non-decreasing.  Then for every key `k` and every
height `h`, `may_load_at_height(k, h)` is the value `k` has after exactly those writes whose height is
`< h`: the initial value before the first write, the value before the block's first write at a write
height, the current value in the future. -/
theorem snapshot_atHeight (m0 : AMap κ ν) (ws : List (SnapMap.MWrite κ ν)) (hord : SnapMap.Ordered ws)
    (k : κ) (h : Nat) :
    ((SnapMap.ofMap m0).writes ws).atHeight k h
      = ((SnapMap.ofMap m0).writes (ws.filter (fun w => w.2.1 < h))).get? k := by
  by_cases hh : 0 < h
  · exact SnapMap.atHeight_writes ws (SnapMap.logLe_ofMap m0 0) (fun _ _ => Nat.zero_le _) hord k h hh
  · have h0 : h = 0 := by omega
    subst h0
    rw [SnapMap.atHeight_writes_le ws (SnapMap.logLe_ofMap m0 0) (fun _ _ => Nat.zero_le _) hord k 0 (Nat.le_refl _)]
    have : ws.filter (fun w => w.2.1 < 0) = [] := by simp
    rw [this]
    simp [SnapMap.atHeight, SnapMap.cell, SnapMap.ofMap, SnapMap.logOf, Cell.atHeight, firstGE, SnapMap.get?]

/-- The same for a snapshot map that already has a history, all of it at heights `≤ b ≤` every new write:
every query above `b` sees exactly the writes below its height. -/
theorem snapshot_atHeight_bounded (m : SnapMap κ ν) (b : Nat) (hm : m.LogLe b) (ws : List (SnapMap.MWrite κ ν))
    (hge : ∀ w ∈ ws, b ≤ w.2.1) (hord : SnapMap.Ordered ws) (k : κ) (h : Nat) (hb : b < h) :
    (m.writes ws).atHeight k h = (m.writes (ws.filter (fun w => w.2.1 < h))).get? k :=
  SnapMap.atHeight_writes ws hm hge hord k h hb

/-- "Unaffected by any change made in block `h` or later", for every `h`. -/
theorem snapshot_later_invisible (m : SnapMap κ ν) (b : Nat) (hm : m.LogLe b) (ws : List (SnapMap.MWrite κ ν))
    (hge : ∀ w ∈ ws, b ≤ w.2.1) (hord : SnapMap.Ordered ws) (k : κ) (h : Nat) :
    (m.writes ws).atHeight k h = (m.writes (ws.filter (fun w => w.2.1 < h))).atHeight k h :=
  SnapMap.atHeight_writes_filter ws hm hge hord k h

/-- The same for a `SnapshotItem`. -/
theorem snapshot_item_atHeight (c : Cell ν) (b : Nat) (hc : c.LogLe b) (ws : List (Nat × Option ν))
    (hge : ∀ w ∈ ws, b ≤ w.1) (hord : Cell.Ordered ws) (h : Nat) (hb : b < h) :
    (c.writes ws).atHeight h = (c.writes (ws.filter (fun w => w.1 < h))).cur :=
  Cell.atHeight_writes ws hc hge hord h hb

end generic

/-! ## 2. cw4-group: every call is a list of writes at its block height -/

theorem createMembers_sameBlock {h : Nat} (l : List (AddrArg × Nat)) {m m' : SnapMap Addr Nat} {t t' : Nat}
    (hc : createMembers h l m t = .ok (m', t')) : SnapMap.SameBlock m m' h := by
  induction l generalizing m t with
  | nil => simp [createMembers] at hc; rw [← hc.1]; exact SnapMap.SameBlock.refl _ _
  | cons p rest ih =>
    obtain ⟨a, w⟩ := p
    simp [createMembers] at hc
    exact (SnapMap.SameBlock.write m a.text h (some w)).trans (ih hc.2.2)

theorem applyAdds_sameBlock {h : Nat} (l : List (AddrArg × Nat)) {m m' : SnapMap Addr Nat} {t t' : Nat} {ds : List Diff}
    (hc : applyAdds h l m t = .ok (m', t', ds)) : SnapMap.SameBlock m m' h := by
  induction l generalizing m t m' t' ds with
  | nil => simp [applyAdds] at hc; rw [← hc.1]; exact SnapMap.SameBlock.refl _ _
  | cons p rest ih =>
    obtain ⟨a, w⟩ := p
    simp [applyAdds] at hc
    obtain ⟨_, _, _, r, t2, d2, hr, rfl, _, _⟩ := hc
    exact (SnapMap.SameBlock.write m a.text h (some w)).trans (ih hr)

theorem applyRemoves_sameBlock {h : Nat} (l : List AddrArg) {m m' : SnapMap Addr Nat} {t t' : Nat} {ds : List Diff}
    (hc : applyRemoves h l m t = .ok (m', t', ds)) : SnapMap.SameBlock m m' h := by
  induction l generalizing m t m' t' ds with
  | nil => simp [applyRemoves] at hc; rw [← hc.1]; exact SnapMap.SameBlock.refl _ _
  | cons a rest ih =>
    simp only [applyRemoves] at hc
    simp only [check_bind_ok] at hc
    obtain ⟨_, hc⟩ := hc
    split at hc
    · exact ih hc
    · simp at hc
      obtain ⟨_, r, t2, d2, hr, rfl, _, _⟩ := hc
      exact (SnapMap.SameBlock.write m a.text h none).trans (ih hr)

/-- `update_members` writes `MEMBERS` and `TOTAL` at the block height only. -/
theorem updateMembers_sameBlock {s s' : State} {h : Nat} {snd : Addr} {rem : List AddrArg} {add : List (AddrArg × Nat)}
    {ds : List Diff} (hu : updateMembers s h snd rem add = .ok (s', ds)) :
    SnapMap.SameBlock s.members s'.members h ∧ Cell.SameBlock s.total s'.total h
      ∧ s'.admin = s.admin ∧ s'.hooks = s.hooks := by
  unfold updateMembers at hu
  simp only [check_bind_ok] at hu
  obtain ⟨_, _, hu⟩ := hu
  split at hu
  · cases hu
  · simp at hu
    obtain ⟨r1, t1, d1, h1, r2, t2, d2, h2, rfl, _⟩ := hu
    exact ⟨(applyAdds_sameBlock _ h1).trans (applyRemoves_sameBlock _ h2), Cell.SameBlock.write _ _ _, rfl, rfl⟩

/-- Every successful call performs a list of writes at its block height on `MEMBERS` and on `TOTAL`. -/
theorem execute_sameBlock {s s' : State} {h : Nat} {snd : Addr} {msg : Msg} {out : List Out}
    (he : execute s h snd msg = .ok (s', out)) :
    SnapMap.SameBlock s.members s'.members h ∧ Cell.SameBlock s.total s'.total h := by
  cases msg <;> simp only [execute] at he
  case updateAdmin new =>
    simp [execUpdateAdmin] at he
    obtain ⟨_, _, _, rfl, _⟩ := he
    exact ⟨SnapMap.SameBlock.refl _ _, Cell.SameBlock.refl _ _⟩
  case updateMembers rem add =>
    simp [execUpdateMembers] at he
    obtain ⟨r, ds, hr, rfl, _⟩ := he
    have := updateMembers_sameBlock hr
    exact ⟨this.1, this.2.1⟩
  case addHook a =>
    simp [execAddHook] at he
    obtain ⟨_, _, _, rfl, _⟩ := he
    exact ⟨SnapMap.SameBlock.refl _ _, Cell.SameBlock.refl _ _⟩
  case removeHook a =>
    simp [execRemoveHook] at he
    obtain ⟨_, _, _, rfl, _⟩ := he
    exact ⟨SnapMap.SameBlock.refl _ _, Cell.SameBlock.refl _ _⟩

/-- `instantiate` performs writes at the instantiation height on empty snapshots. -/
theorem instantiate_sameBlock {msg : InstMsg} {h0 : Nat} {s0 : State} (hi : instantiate msg h0 = .ok s0) :
    SnapMap.SameBlock SnapMap.empty s0.members h0 ∧ Cell.SameBlock Cell.empty s0.total h0 := by
  simp [instantiate, create] at hi
  obtain ⟨_, adm, _, m, t, hc, rfl⟩ := hi
  exact ⟨createMembers_sameBlock _ hc, Cell.SameBlock.write _ _ _⟩

/-! ### Histories (`Op`, `stepOp`, `run`, `Ordered` are defined in `Lemmas/Cw4Group.lean`) -/

theorem stepOp_sameBlock (s : State) (op : Op) :
    SnapMap.SameBlock s.members (stepOp s op).members op.height ∧ Cell.SameBlock s.total (stepOp s op).total op.height := by
  unfold stepOp step
  split
  · rename_i s' out he; exact execute_sameBlock he
  · exact ⟨SnapMap.SameBlock.refl _ _, Cell.SameBlock.refl _ _⟩

theorem run_logLe {s : State} {B : Nat} (ops : List Op) (hm : s.members.LogLe B) (ht : s.total.LogLe B)
    (hB : ∀ op ∈ ops, op.height ≤ B) : (run s ops).members.LogLe B ∧ (run s ops).total.LogLe B := by
  induction ops generalizing s with
  | nil => exact ⟨hm, ht⟩
  | cons op ops ih =>
    have hb := hB op (by simp)
    have hs := stepOp_sameBlock s op
    exact ih (hs.1.logLe hm hb) (hs.2.logLe ht hb) (fun o ho => hB o (by simp [ho]))

theorem filter_snoc_lt {ops : List Op} {op : Op} {h : Nat} (hord : Ordered (ops ++ [op])) (hlt : op.height < h) :
    (ops ++ [op]).filter (fun o => o.height < h) = ops ++ [op] := by
  apply List.filter_eq_self.mpr
  intro x hx
  have hp := List.pairwise_append.mp hord
  rcases List.mem_append.mp hx with hx | hx
  · have := hp.2.2 x hx op (by simp); simp; omega
  · simp at hx; subst hx; simpa using hlt

/-- Calls in block `h` or later are invisible to every query at height `h`. -/
theorem run_atHeight_filter {s : State} {b : Nat} (ops : List Op) (hm : s.members.LogLe b) (ht : s.total.LogLe b)
    (hge : ∀ op ∈ ops, b ≤ op.height) (hord : Ordered ops) (h : Nat) :
    (∀ a, (run s ops).members.atHeight a h = (run s (ops.filter (fun o => o.height < h))).members.atHeight a h)
    ∧ (run s ops).total.atHeight h = (run s (ops.filter (fun o => o.height < h))).total.atHeight h := by
  induction ops using List.rev_induction with
  | nil => exact ⟨fun _ => rfl, rfl⟩
  | snoc ops op ih =>
    have hp := List.pairwise_append.mp hord
    have hle : ∀ x ∈ ops, x.height ≤ op.height := fun x hx => hp.2.2 x hx op (by simp)
    by_cases hlt : op.height < h
    · rw [filter_snoc_lt hord hlt]; exact ⟨fun _ => rfl, rfl⟩
    · have hf : (ops ++ [op]).filter (fun o => o.height < h) = ops.filter (fun o => o.height < h) := by
        simp [List.filter_append, hlt]
      have hb : b ≤ op.height := hge op (by simp)
      have hl := run_logLe ops (hm.mono hb) (ht.mono hb) hle
      have hs := stepOp_sameBlock (run s ops) op
      have ih' := ih (fun x hx => hge x (by simp [hx])) hp.1
      rw [hf, run_append]
      simp only [run_cons, run_nil]
      constructor
      · intro a
        rw [hs.1.atHeight_le hl.1 a (by omega)]
        exact ih'.1 a
      · rw [hs.2.atHeight_le hl.2 (by omega)]
        exact ih'.2

/-- **Point-in-time weights, general form**: from any state whose changelogs are bounded by `b`, after any
history of calls at non-decreasing heights `≥ b`, a query at a height `h > b` returns the *current* weight /
total of the state reached by exactly the calls of the blocks before `h` — the value that held at the
start of block `h`. -/
theorem run_atHeight {s : State} {b : Nat} (ops : List Op) (hm : s.members.LogLe b) (ht : s.total.LogLe b)
    (hge : ∀ op ∈ ops, b ≤ op.height) (hord : Ordered ops) (h : Nat) (hb : b < h) :
    (∀ a, (run s ops).members.atHeight a h = weight (run s (ops.filter (fun o => o.height < h))) a)
    ∧ (run s ops).total.atHeight h = (run s (ops.filter (fun o => o.height < h))).total.cur := by
  have hf := run_atHeight_filter ops hm ht hge hord h
  have hl := run_logLe (B := h - 1) (ops.filter (fun o => o.height < h)) (hm.mono (by omega)) (ht.mono (by omega))
    (by intro op hop; have := (List.mem_filter.mp hop).2; simp at this; omega)
  constructor
  · intro a
    rw [hf.1 a]
    exact SnapMap.atHeight_of_logLe hl.1 (by omega) a
  · rw [hf.2]
    exact Cell.atHeight_of_logLe hl.2 (by omega)

/-- At or before the bound of the initial changelogs the whole history is invisible. -/
theorem run_atHeight_le {s : State} {b : Nat} (ops : List Op) (hm : s.members.LogLe b) (ht : s.total.LogLe b)
    (hge : ∀ op ∈ ops, b ≤ op.height) (hord : Ordered ops) (h : Nat) (hb : h ≤ b) :
    (∀ a, (run s ops).members.atHeight a h = s.members.atHeight a h)
    ∧ (run s ops).total.atHeight h = s.total.atHeight h := by
  have hf := run_atHeight_filter ops hm ht hge hord h
  have : ops.filter (fun o => o.height < h) = [] := by
    apply List.filter_eq_nil_iff.mpr
    intro op hop
    have := hge op hop
    simp; omega
  rw [this] at hf
  exact hf

/-- After `instantiate` at `h0` the changelogs are bounded by `h0`, and at every `h ≤ h0` nothing is visible. -/
theorem instantiate_snapshots {msg : InstMsg} {h0 : Nat} {s0 : State} (hi : instantiate msg h0 = .ok s0) :
    s0.members.LogLe h0 ∧ s0.total.LogLe h0
      ∧ (∀ a h, h ≤ h0 → s0.members.atHeight a h = none) ∧ (∀ h, h ≤ h0 → s0.total.atHeight h = none) := by
  have hs := instantiate_sameBlock hi
  refine ⟨hs.1.logLe (SnapMap.logLe_empty h0) (Nat.le_refl _), hs.2.logLe (Cell.logLe_empty h0) (Nat.le_refl _), ?_, ?_⟩
  · intro a h hh
    rw [hs.1.atHeight_le (SnapMap.logLe_empty h0) a hh]
    rfl
  · intro h hh
    rw [hs.2.atHeight_le (Cell.logLe_empty h0) hh]
    rfl

/-- **C09, point-in-time member weight** (`Member { addr, at_height: h }`).  For every accepted
instantiation at height `h0`, every history of calls at non-decreasing block heights `≥ h0`, every address
and every height `h` — from before instantiation into the future — the weight reported at height `h` is
the weight the address had at the start of block `h`: nothing for `h ≤ h0`, otherwise the current weight
in the state reached by exactly the calls of the blocks before `h`.  Calls made in block `h` or later
(first or repeated changes of the same address, removals, re-adds) do not affect it. -/
theorem member_at_height {msg : InstMsg} {h0 : Nat} {s0 : State} (hi : instantiate msg h0 = .ok s0)
    (ops : List Op) (hge : ∀ op ∈ ops, h0 ≤ op.height) (hord : Ordered ops) (a : Addr) (h : Nat) :
    (run s0 ops).members.atHeight a h
      = if h ≤ h0 then none else weight (run s0 (ops.filter (fun o => o.height < h))) a := by
  obtain ⟨hm, ht, hn, _⟩ := instantiate_snapshots hi
  split
  · rename_i hh
    rw [(run_atHeight_le ops hm ht hge hord h hh).1 a]
    exact hn a h hh
  · rename_i hh
    exact (run_atHeight ops hm ht hge hord h (by omega)).1 a

/-- **C09, point-in-time total** (`TotalWeight { at_height: h }`): 0 for `h ≤ h0`, otherwise the total
weight reported (without height) by the state reached by exactly the calls of the blocks before `h`. -/
theorem total_at_height {msg : InstMsg} {h0 : Nat} {s0 : State} (hi : instantiate msg h0 = .ok s0)
    (ops : List Op) (hge : ∀ op ∈ ops, h0 ≤ op.height) (hord : Ordered ops) (h : Nat) :
    queryTotalWeight (run s0 ops) (some h)
      = if h ≤ h0 then 0 else queryTotalWeight (run s0 (ops.filter (fun o => o.height < h))) none := by
  obtain ⟨hm, ht, _, hn⟩ := instantiate_snapshots hi
  simp only [queryTotalWeight]
  split
  · rename_i hh
    rw [(run_atHeight_le ops hm ht hge hord h hh).2, hn h hh]
    rfl
  · rename_i hh
    rw [(run_atHeight ops hm ht hge hord h (by omega)).2]

/-- The smart query `Member { addr, at_height }` is the snapshot read of the validated address. -/
theorem queryMember_eq (s : State) (a : AddrArg) (hv : a.valid = true) (at_ : Option Nat) :
    queryMember s a at_ = .ok (match at_ with | some h => s.members.atHeight a.text h | none => weight s a.text) := by
  simp [queryMember, hv, weight, check, bind, Except.bind, pure, Except.pure]
  rfl

/-! ## 3. The total is the sum of the member weights -/

/-- The invariant: the stored total is the sum of the current member weights and fits `u64`; the member
map has one entry per address. -/
def Inv (s : State) : Prop :=
  s.total.cur = some (AMap.sum s.members.cur) ∧ AMap.NodupKeys s.members.cur ∧ AMap.sum s.members.cur ≤ U64_MAX

/-- Loop invariant of the three loops: the running total is the sum of the map being built. -/
def LoopInv (m : SnapMap Addr Nat) (t : Nat) : Prop :=
  t = AMap.sum m.cur ∧ AMap.NodupKeys m.cur ∧ t ≤ U64_MAX

theorem createMembers_inv {h : Nat} (l : List (AddrArg × Nat)) {m m' : SnapMap Addr Nat} {t t' : Nat}
    (hnd : (l.map (·.1.text)).Nodup) (hfresh : ∀ a ∈ l, m.cur.get? a.1.text = none)
    (hc : createMembers h l m t = .ok (m', t')) (hi : LoopInv m t) : LoopInv m' t' := by
  induction l generalizing m t with
  | nil => simp [createMembers] at hc; obtain ⟨rfl, rfl⟩ := hc; exact hi
  | cons p rest ih =>
    obtain ⟨a, w⟩ := p
    simp [createMembers] at hc
    obtain ⟨hov, _, hc⟩ := hc
    simp at hnd
    apply ih hnd.2 _ hc
    · have := AMap.sum_set m.cur a.text w
      have e : m.cur.get? a.text = none := hfresh (a, w) (by simp)
      simp [e] at this
      obtain ⟨rfl, hn, _⟩ := hi
      exact ⟨by simp [SnapMap.write]; omega, by simpa [SnapMap.write] using AMap.nodup_set hn, hov⟩
    · intro x hx
      have hne : a.text ≠ x.1.text := fun e => hnd.1 x.1 x.2 hx e.symm
      simp only [SnapMap.write]
      rw [AMap.get?_set_ne _ _ _ _ hne]
      exact hfresh x (by simp [hx])

/-- Adds and re-weights: `total - old + new` keeps the total equal to the sum (and `old ≤ total`, so the
subtraction cannot underflow). -/
theorem applyAdds_inv {h : Nat} (l : List (AddrArg × Nat)) {m m' : SnapMap Addr Nat} {t t' : Nat} {ds : List Diff}
    (hc : applyAdds h l m t = .ok (m', t', ds)) (hi : LoopInv m t) : LoopInv m' t' := by
  induction l generalizing m t m' t' ds with
  | nil => simp [applyAdds] at hc; obtain ⟨rfl, rfl, _⟩ := hc; exact hi
  | cons p rest ih =>
    obtain ⟨a, w⟩ := p
    simp [applyAdds] at hc
    obtain ⟨_, hle, hov, r, t2, d2, hr, rfl, rfl, _⟩ := hc
    apply ih hr
    have := AMap.sum_set m.cur a.text w
    obtain ⟨rfl, hn, _⟩ := hi
    simp only [SnapMap.get?] at hle hov ⊢
    exact ⟨by simp [SnapMap.write]; omega, by simpa [SnapMap.write] using AMap.nodup_set hn, hov⟩

/-- Removals: `total - old`. -/
theorem applyRemoves_inv {h : Nat} (l : List AddrArg) {m m' : SnapMap Addr Nat} {t t' : Nat} {ds : List Diff}
    (hc : applyRemoves h l m t = .ok (m', t', ds)) (hi : LoopInv m t) : LoopInv m' t' := by
  induction l generalizing m t m' t' ds with
  | nil => simp [applyRemoves] at hc; obtain ⟨rfl, rfl, _⟩ := hc; exact hi
  | cons a rest ih =>
    simp only [applyRemoves, check_bind_ok] at hc
    obtain ⟨_, hc⟩ := hc
    split at hc
    · exact ih hc hi
    · rename_i w hw
      simp at hc
      obtain ⟨hle, r, t2, d2, hr, rfl, rfl, _⟩ := hc
      apply ih hr
      obtain ⟨rfl, hn, hm⟩ := hi
      have := AMap.sum_erase m.cur a.text hn
      simp only [SnapMap.get?] at hw
      simp [hw] at this
      exact ⟨by simp [SnapMap.write]; omega, by simpa [SnapMap.write] using AMap.nodup_erase hn, by omega⟩

theorem nodup_sortMembers {l : List (AddrArg × Nat)} (h : uniqueMembers l = true) :
    ((sortMembers l).map (·.1.text)).Nodup := by
  have hp := (sortMembers_perm l).map (·.1.text)
  exact hp.nodup_iff.mpr (by simpa [uniqueMembers] using h)

/-- Every accepted instantiation establishes the invariant. -/
theorem instantiate_inv {msg : InstMsg} {h0 : Nat} {s0 : State} (hi : instantiate msg h0 = .ok s0) : Inv s0 := by
  simp [instantiate, create] at hi
  obtain ⟨hu, adm, _, m, t, hc, rfl⟩ := hi
  have := createMembers_inv _ (nodup_sortMembers hu) (by simp [State.empty]) hc
    ⟨by simp [State.empty], by simp [State.empty, AMap.NodupKeys, AMap.keys], by simp [U64_MAX]⟩
  obtain ⟨rfl, hn, hm⟩ := this
  exact ⟨rfl, hn, hm⟩

/-- Every successful call preserves the invariant. -/
theorem execute_inv {s s' : State} {h : Nat} {snd : Addr} {msg : Msg} {out : List Out}
    (hi : Inv s) (he : execute s h snd msg = .ok (s', out)) : Inv s' := by
  cases msg <;> simp only [execute] at he
  case updateAdmin new =>
    simp [execUpdateAdmin] at he
    obtain ⟨_, _, _, rfl, _⟩ := he; exact hi
  case updateMembers rem add =>
    simp [execUpdateMembers] at he
    obtain ⟨r, ds, hr, rfl, _⟩ := he
    unfold updateMembers at hr
    simp only [check_bind_ok] at hr
    obtain ⟨_, _, hr⟩ := hr
    obtain ⟨ht, hn, hm⟩ := hi
    rw [ht] at hr
    simp at hr
    obtain ⟨m1, t1, d1, h1, m2, t2, d2, h2, rfl, _⟩ := hr
    have i1 := applyAdds_inv _ h1 ⟨rfl, hn, hm⟩
    obtain ⟨rfl, hn2, hm2⟩ := applyRemoves_inv _ h2 i1
    exact ⟨rfl, hn2, hm2⟩
  case addHook a =>
    simp [execAddHook] at he
    obtain ⟨_, _, _, rfl, _⟩ := he; exact hi
  case removeHook a =>
    simp [execRemoveHook] at he
    obtain ⟨_, _, _, rfl, _⟩ := he; exact hi

theorem stepOp_inv {s : State} (op : Op) (hi : Inv s) : Inv (stepOp s op) := by
  unfold stepOp step
  split
  · rename_i s' out he; exact execute_inv hi he
  · exact hi

theorem run_inv {s : State} (ops : List Op) (hi : Inv s) : Inv (run s ops) := by
  induction ops generalizing s with
  | nil => exact hi
  | cons op ops ih => exact ih (stepOp_inv op hi)

/-- **C09, total = Σ weights.**  For every accepted instantiation and every history of calls (any senders,
any heights; adds, re-weights, removals, re-adds, overlapping lists, failed calls rolled back) the total
weight reported by `TotalWeight {}` is the sum of the current weights of all members, and it fits `u64`. -/
theorem total_eq_sum_members {msg : InstMsg} {h0 : Nat} {s0 : State} (hi : instantiate msg h0 = .ok s0)
    (ops : List Op) :
    queryTotalWeight (run s0 ops) none = AMap.sum (run s0 ops).members.cur
      ∧ AMap.sum (run s0 ops).members.cur ≤ U64_MAX := by
  obtain ⟨ht, _, hm⟩ := run_inv ops (instantiate_inv hi)
  exact ⟨by simp [queryTotalWeight, ht], hm⟩

open Paginate in
/-- The members as listed by `ListMembers` (ascending, all pages together) carry the same sum. -/
theorem listed_sum (s : State) : AMap.sum (sortedEntries strLt s.members.cur) = AMap.sum s.members.cur := by
  unfold AMap.sum sortedEntries
  exact ((List.mergeSort_perm _ _).map (fun p : Addr × Nat => p.2)).sum_nat

/-- With the invariant, the first subtraction in the add loop has `old ≤ total` … -/
theorem old_le_total {m : SnapMap Addr Nat} {t : Nat} (hi : LoopInv m t) (a : Addr) : (m.get? a).getD 0 ≤ t := by
  rw [hi.1]; exact AMap.get?_le_sum m.cur a

theorem applyAdds_no_underflow {h : Nat} (l : List (AddrArg × Nat)) {m : SnapMap Addr Nat} {t : Nat}
    (hi : LoopInv m t) {e : String} (he : applyAdds h l m t = .error e) : e = "addr" ∨ e = "overflow.u64" := by
  induction l generalizing m t with
  | nil => simp [applyAdds] at he
  | cons p rest ih =>
    obtain ⟨a, w⟩ := p
    simp only [applyAdds] at he
    by_cases hv : a.valid = true
    · have hsub : subU64 t ((m.get? a.text).getD 0) = .ok (t - (m.get? a.text).getD 0) := by
        simp [subU64, old_le_total hi a.text]
      simp only [hv, check, if_true, hsub, bind, Except.bind] at he
      by_cases hov : t - (m.get? a.text).getD 0 + w ≤ U64_MAX
      · simp only [addU64, hov, if_true] at he
        have hinv : LoopInv (m.write a.text h (some w)) (t - (m.get? a.text).getD 0 + w) := by
          have := AMap.sum_set m.cur a.text w
          have hle := old_le_total hi a.text
          obtain ⟨rfl, hn, _⟩ := hi
          simp only [SnapMap.get?] at hle hov ⊢
          exact ⟨by simp [SnapMap.write]; omega, by simpa [SnapMap.write] using AMap.nodup_set hn, hov⟩
        cases hr : applyAdds h rest (m.write a.text h (some w)) (t - (m.get? a.text).getD 0 + w) with
        | error e' => rw [hr] at he; simp at he; subst he; exact ih hinv hr
        | ok r => rw [hr] at he; simp [pure, Except.pure] at he
      · simp only [addU64, hov] at he
        simp at he; subst he; simp
    · simp only [hv, check] at he
      simp [bind, Except.bind] at he; subst he; simp

theorem applyRemoves_no_underflow {h : Nat} (l : List AddrArg) {m : SnapMap Addr Nat} {t : Nat}
    (hi : LoopInv m t) {e : String} (he : applyRemoves h l m t = .error e) : e = "addr" := by
  induction l generalizing m t with
  | nil => simp [applyRemoves] at he
  | cons a rest ih =>
    simp only [applyRemoves] at he
    by_cases hv : a.valid = true
    · simp only [hv, check, if_true, bind, Except.bind] at he
      cases hw : m.get? a.text with
      | none => rw [hw] at he; exact ih hi he
      | some w =>
        rw [hw] at he
        have hle : w ≤ t := by have := old_le_total hi a.text; simpa [hw] using this
        have hinv : LoopInv (m.write a.text h none) (t - w) := by
          obtain ⟨rfl, hn, hm⟩ := hi
          have := AMap.sum_erase m.cur a.text hn
          simp only [SnapMap.get?] at hw
          simp [hw] at this
          exact ⟨by simp [SnapMap.write]; omega, by simpa [SnapMap.write] using AMap.nodup_erase hn, by omega⟩
        simp only [subU64, hle, if_true] at he
        cases hr : applyRemoves h rest (m.write a.text h none) (t - w) with
        | error e' => rw [hr] at he; simp at he; subst he; exact ih hinv hr
        | ok r => rw [hr] at he; simp [pure, Except.pure] at he
    · simp only [hv, check] at he
      simp [bind, Except.bind] at he; subst he; rfl

/-- **The `u64` arithmetic on the total cannot underflow**: on a state satisfying the invariant (every
reachable state), `UpdateMembers` never fails in one of its `checked_sub`s; it can fail only for a duplicate
address in `add`, a sender who is not the admin, an invalid address, or an overflow of the total. -/
theorem update_members_no_underflow {s : State} (hi : Inv s) (h : Nat) (snd : Addr) (rem : List AddrArg)
    (add : List (AddrArg × Nat)) {e : String} (he : execute s h snd (.updateMembers rem add) = .error e) :
    e = "duplicate" ∨ e = "unauthorized" ∨ e = "addr" ∨ e = "overflow.u64" := by
  simp only [execute, execUpdateMembers] at he
  cases hu : updateMembers s h snd rem add with
  | ok r => rw [hu] at he; simp [bind, Except.bind, pure, Except.pure] at he
  | error e' =>
    rw [hu] at he; simp [bind, Except.bind] at he; subst he
    unfold updateMembers at hu
    obtain ⟨ht, hn, hm⟩ := hi
    by_cases h1 : uniqueMembers add = true
    · by_cases h2 : isAdmin s snd = true
      · simp only [h1, h2, check, if_true, bind, Except.bind, ht] at hu
        cases ha : applyAdds h (sortMembers add) s.members (AMap.sum s.members.cur) with
        | error e1 =>
          rw [ha] at hu; simp at hu; subst hu
          rcases applyAdds_no_underflow _ ⟨rfl, hn, hm⟩ ha with h | h <;> simp [h]
        | ok r1 =>
          rw [ha] at hu; simp only at hu
          obtain ⟨m1, t1, d1⟩ := r1
          have i1 := applyAdds_inv _ ha ⟨rfl, hn, hm⟩
          cases hr : applyRemoves h rem m1 t1 with
          | error e2 =>
            rw [hr] at hu; simp at hu; subst hu
            simp [applyRemoves_no_underflow _ i1 hr]
          | ok r2 => rw [hr] at hu; simp [pure, Except.pure] at hu
      · simp only [h1, h2, check, if_true, bind, Except.bind] at hu
        simp at hu; subst hu; simp
    · simp only [h1, check, bind, Except.bind] at hu
      simp at hu; subst hu; simp

/-- In particular no `checked_sub` on the total ever fails on a reachable state. -/
theorem update_members_never_underflows {msg : InstMsg} {h0 : Nat} {s0 : State} (hi : instantiate msg h0 = .ok s0)
    (ops : List Op) (h : Nat) (snd : Addr) (rem : List AddrArg) (add : List (AddrArg × Nat)) :
    execute (run s0 ops) h snd (.updateMembers rem add) ≠ .error "underflow.u64" := by
  intro he
  rcases update_members_no_underflow (run_inv ops (instantiate_inv hi)) h snd rem add he with h | h | h | h <;>
    exact absurd h (by decide)

/-! ## Non-vacuity: a concrete history (several changes to one address in one block, a failing stranger,
removal and re-add in one block) on which the hypotheses hold and the conclusions are non-trivial -/

def exInst : InstMsg := { admin := some ⟨true, "adm"⟩, members := [(⟨true, "bob"⟩, 3), (⟨true, "alice"⟩, 5)] }

def exOps : List Op :=
  [ ⟨12, "adm", .updateMembers [⟨true, "bob"⟩] [(⟨true, "carol"⟩, 1), (⟨true, "alice"⟩, 7)]⟩,
    ⟨12, "adm", .updateMembers [] [(⟨true, "alice"⟩, 9)]⟩,
    ⟨12, "bob", .updateMembers [] [(⟨true, "bob"⟩, 100)]⟩,
    ⟨15, "adm", .updateMembers [⟨true, "alice"⟩] []⟩,
    ⟨15, "adm", .updateMembers [] [(⟨true, "alice"⟩, 2)]⟩,
    ⟨20, "adm", .updateMembers [] [(⟨true, "bob"⟩, 4)]⟩ ]

def exState : State := (match instantiate exInst 10 with | .ok s => s | .error _ => State.empty)

example : instantiate exInst 10 = .ok exState := by rfl
example : Ordered exOps ∧ ∀ op ∈ exOps, 10 ≤ op.height := by unfold Ordered; decide

example :
    let s := run exState exOps
    s.members.atHeight "alice" 10 = none ∧ s.members.atHeight "alice" 11 = some 5
    ∧ s.members.atHeight "alice" 12 = some 5 ∧ s.members.atHeight "alice" 13 = some 9
    ∧ s.members.atHeight "alice" 15 = some 9 ∧ s.members.atHeight "alice" 16 = some 2
    ∧ s.members.atHeight "bob" 12 = some 3 ∧ s.members.atHeight "bob" 13 = none
    ∧ s.members.atHeight "bob" 20 = none ∧ s.members.atHeight "bob" 21 = some 4
    ∧ queryTotalWeight s (some 10) = 0 ∧ queryTotalWeight s (some 12) = 8 ∧ queryTotalWeight s (some 13) = 10
    ∧ queryTotalWeight s (some 16) = 3 ∧ queryTotalWeight s (some 21) = 7 ∧ queryTotalWeight s none = 7
    ∧ AMap.sum s.members.cur = 7 := by decide

/-- The theorems apply to this history. -/
example (a : Addr) (h : Nat) :
    (run exState exOps).members.atHeight a h
      = if h ≤ 10 then none else weight (run exState (exOps.filter (fun o => o.height < h))) a :=
  member_at_height (msg := exInst) rfl exOps (by decide) (by unfold Ordered; decide) a h

example : queryTotalWeight (run exState exOps) none = AMap.sum (run exState exOps).members.cur :=
  (total_eq_sum_members (msg := exInst) (h0 := 10) rfl exOps).1

/-- The generic theorem on a concrete write list (first write of a block wins, removal is recorded). -/
example :
    let m := (SnapMap.ofMap [("k", 1)]).writes [("k", 5, some 2), ("k", 5, some 3), ("k", 7, none), ("j", 7, some 8)]
    m.atHeight "k" 5 = some 1 ∧ m.atHeight "k" 6 = some 3 ∧ m.atHeight "k" 7 = some 3 ∧ m.atHeight "k" 8 = none
    ∧ m.atHeight "j" 7 = none ∧ m.atHeight "j" 8 = some 8 := by decide


/-! ## 4. What an accepted `UpdateMembers` does to the membership ("the true history", one call)

The message documents: the `add` entries are applied (set weight), then the `remove` entries ("remove is applied
after add, so if an address is in both, it is removed").  The monitor `C09/update-members-effect` evaluates
exactly this on the implementation's observations. -/

/-- The membership an `add` list produces, address by address (later entries win). -/
def addsView (l : List (AddrArg × Nat)) (old : Option Nat) (k : Addr) : Option Nat :=
  l.foldl (fun acc p => if p.1.text = k then some p.2 else acc) old

theorem applyAdds_get {h : Nat} (l : List (AddrArg × Nat)) {m m' : SnapMap Addr Nat} {t t' : Nat} {ds : List Diff}
    (hr : applyAdds h l m t = .ok (m', t', ds)) (k : Addr) : m'.get? k = addsView l (m.get? k) k := by
  induction l generalizing m t ds with
  | nil => simp [applyAdds] at hr; obtain ⟨rfl, _, _⟩ := hr; rfl
  | cons p rest ih =>
    obtain ⟨a, w⟩ := p
    simp [applyAdds] at hr
    obtain ⟨_, t1, _, t2, _, r, hr', rfl, rfl, rfl⟩ := hr
    have := ih hr'
    simp only [addsView, List.foldl_cons] at this ⊢
    rw [this, SnapMap.get?_write]

theorem applyRemoves_get {h : Nat} (l : List AddrArg) {m m' : SnapMap Addr Nat} {t t' : Nat} {ds : List Diff}
    (hr : applyRemoves h l m t = .ok (m', t', ds)) (k : Addr) :
    m'.get? k = if k ∈ l.map (·.text) then none else m.get? k := by
  induction l generalizing m t ds with
  | nil => simp [applyRemoves] at hr; obtain ⟨rfl, _, _⟩ := hr; simp
  | cons a rest ih =>
    simp only [applyRemoves, check_bind_ok] at hr
    obtain ⟨_, hr⟩ := hr
    split at hr
    · rename_i hn
      rw [ih hr]
      by_cases hk : k = a.text
      · subst hk; simp [hn]
      · simp [hk]
    · rename_i w hw
      simp at hr
      obtain ⟨_, r, t2, d2, hr', rfl, rfl, rfl⟩ := hr
      rw [ih hr', SnapMap.get?_write]
      by_cases hk : k = a.text
      · subst hk; simp
      · have : ¬ a.text = k := fun e => hk e.symm
        simp [hk, this]

/-- **Effect of an accepted `UpdateMembers`**, for every address: removed if named in `remove`; otherwise the weight
of its `add` entry; otherwise unchanged. -/
theorem update_members_effect {s s' : State} {h : Nat} {snd : Addr} {rem : List AddrArg} {add : List (AddrArg × Nat)}
    {ds : List Diff} (hu : updateMembers s h snd rem add = .ok (s', ds)) (k : Addr) :
    s'.members.get? k
      = if k ∈ rem.map (·.text) then none else addsView (sortMembers add) (s.members.get? k) k := by
  unfold updateMembers at hu
  simp only [check_bind_ok] at hu
  obtain ⟨_, _, hu⟩ := hu
  split at hu
  · simp at hu
  · simp at hu
    obtain ⟨m1, t1, d1, h1, m2, t2, d2, h2, rfl, rfl⟩ := hu
    simp only
    rw [applyRemoves_get rem h2 k, applyAdds_get _ h1 k]

/-- With the uniqueness check of the handler the `add` view is simply "the entry of that address, if any". -/
theorem addsView_mem {l : List (AddrArg × Nat)} (hn : (l.map (·.1.text)).Nodup) {a : AddrArg} {w : Nat}
    (hm : (a, w) ∈ l) (old : Option Nat) : addsView l old a.text = some w := by
  induction l generalizing old with
  | nil => simp at hm
  | cons p rest ih =>
    simp only [List.map_cons, List.nodup_cons] at hn
    simp only [addsView, List.foldl_cons]
    rcases List.mem_cons.mp hm with rfl | hm'
    · simp only [if_true]
      -- no later entry names the same address
      have : ∀ (r : List (AddrArg × Nat)) (acc : Option Nat), (∀ q ∈ r, q.1.text ≠ a.text) →
          r.foldl (fun acc p => if p.1.text = a.text then some p.2 else acc) acc = acc := by
        intro r
        induction r with
        | nil => intros; rfl
        | cons q r ihr =>
          intro acc hq
          simp only [List.foldl_cons]
          rw [if_neg (hq q (List.mem_cons_self ..))]
          exact ihr acc (fun q' hq' => hq q' (List.mem_cons_of_mem _ hq'))
      apply this
      intro q hq he
      exact hn.1 (List.mem_map.mpr ⟨q, hq, he⟩)
    · exact ih hn.2 hm' _

theorem addsView_not_mem {l : List (AddrArg × Nat)} {k : Addr} (hk : k ∉ l.map (·.1.text)) (old : Option Nat) :
    addsView l old k = old := by
  induction l generalizing old with
  | nil => rfl
  | cons p rest ih =>
    simp only [List.map_cons, List.mem_cons, not_or] at hk
    simp only [addsView, List.foldl_cons]
    rw [if_neg (fun e => hk.1 e.symm)]
    exact ih hk.2 old

/-- The three cases of the documented semantics, in terms of the submitted lists themselves. -/
theorem update_members_cases {s s' : State} {h : Nat} {snd : Addr} {rem : List AddrArg} {add : List (AddrArg × Nat)}
    {ds : List Diff} (hu : updateMembers s h snd rem add = .ok (s', ds)) :
    (∀ a ∈ rem, s'.members.get? a.text = none)
    ∧ (∀ a w, (a, w) ∈ add → a.text ∉ rem.map (·.text) → s'.members.get? a.text = some w)
    ∧ (∀ k, k ∉ rem.map (·.text) → k ∉ add.map (·.1.text) → s'.members.get? k = s.members.get? k) := by
  have hun : uniqueMembers add = true := by
    unfold updateMembers at hu; simp only [check_bind_ok] at hu; exact hu.1
  refine ⟨?_, ?_, ?_⟩
  · intro a ha
    rw [update_members_effect hu, if_pos (List.mem_map.mpr ⟨a, ha, rfl⟩)]
  · intro a w hm hr
    rw [update_members_effect hu, if_neg hr]
    exact addsView_mem (nodup_sortMembers hun) ((sortMembers_perm add).mem_iff.mpr hm) _
  · intro k hr ha
    rw [update_members_effect hu, if_neg hr]
    apply addsView_not_mem
    intro hk
    exact ha (((sortMembers_perm add).map (·.1.text)).mem_iff.mp hk)

/-- Non-vacuity: an address that is not a member, named in both lists, is not a member afterwards. -/
example :
    (match updateMembers exState 11 "adm" [⟨true, "zoe"⟩] [(⟨true, "zoe"⟩, 4)] with
      | .ok r => (r.1.members.get? "zoe", r.1.members.get? "alice")
      | .error _ => (some 0, none)) = (none, some 5) := by decide

/-! # Review round: the pieces composed

* `total_at_height_eq_sum` / `snapshot_consistent`: the total *at a height* is the sum of the member weights
  *at that height* (what cw3-flex relies on when it freezes a proposal's total and later reads voters'
  weights at the proposal's start height);
* `total_eq_sum_listed`: the total is the sum over what a client actually gets by paging through
  `ListMembers`; `listing_vs_point`: every listed entry is what `Member {}` answers, and conversely. -/

/-- **C09, cross-snapshot consistency**: for every accepted instantiation at `h0`, every ordered history and
every height `h > h0`, `TotalWeight { at_height: h }` is the sum of the member table `T` that held at the
start of block `h` (the current table of the state reached by exactly the calls of the blocks before `h`),
and `Member { addr, at_height: h }` is the entry of `T` for every address: total and weights read at one
height always belong to one and the same table. -/
theorem total_at_height_eq_sum {msg : InstMsg} {h0 : Nat} {s0 : State} (hi : instantiate msg h0 = .ok s0)
    (ops : List Op) (hge : ∀ op ∈ ops, h0 ≤ op.height) (hord : Ordered ops) (h : Nat) (hh : h0 < h) :
    queryTotalWeight (run s0 ops) (some h) = AMap.sum (run s0 (ops.filter (fun o => o.height < h))).members.cur ∧
    ∀ a, (run s0 ops).members.atHeight a h = (run s0 (ops.filter (fun o => o.height < h))).members.cur.get? a := by
  constructor
  · rw [total_at_height hi ops hge hord h, if_neg (by omega)]
    exact (total_eq_sum_members hi _).1
  · intro a
    rw [member_at_height hi ops hge hord a h, if_neg (by omega)]
    rfl

/-- **C09, cross-snapshot consistency at every height** (also at or before instantiation, where the table is
empty): there is one member table with one entry per address whose sum is the total reported at height `h`
and whose entries are the weights reported at height `h`; its sum fits `u64`. -/
theorem snapshot_consistent {msg : InstMsg} {h0 : Nat} {s0 : State} (hi : instantiate msg h0 = .ok s0)
    (ops : List Op) (hge : ∀ op ∈ ops, h0 ≤ op.height) (hord : Ordered ops) (h : Nat) :
    ∃ T : AMap Addr Nat, AMap.NodupKeys T ∧ AMap.sum T ≤ U64_MAX ∧
      queryTotalWeight (run s0 ops) (some h) = AMap.sum T ∧
      ∀ a, (run s0 ops).members.atHeight a h = T.get? a := by
  by_cases hh : h ≤ h0
  · refine ⟨[], by simp [AMap.NodupKeys, AMap.keys], by simp [U64_MAX], ?_, ?_⟩
    · rw [total_at_height hi ops hge hord h, if_pos hh]; rfl
    · intro a; rw [member_at_height hi ops hge hord a h, if_pos hh]; rfl
  · obtain ⟨h1, h2⟩ := total_at_height_eq_sum hi ops hge hord h (by omega)
    have hinv := run_inv (ops.filter (fun o => o.height < h)) (instantiate_inv hi)
    exact ⟨_, hinv.2.1, hinv.2.2, h1, h2⟩

/-- What a client gets from one `ListMembers { start_after: c, limit }` call with a well-formed cursor
(nothing if the query is rejected). -/
def listPage (s : State) (limit : Option Nat) (c : Option Addr) : List (Addr × Nat) :=
  match queryListMembers s (c.map (⟨true, ·⟩)) limit with
  | .ok l => l
  | .error _ => []

open Paginate in
theorem listPage_eq (s : State) (limit : Option Nat) (c : Option Addr) :
    listPage s limit c = page strLt (sortedEntries strLt s.members.cur) c limit := by
  cases c <;> simp [listPage, queryListMembers, check, bind, Except.bind, pure, Except.pure]

open Paginate in
/-- Paging through `ListMembers` (cursor = last address of the previous page) returns the whole sorted
member table on every reachable state (the C20 statement, re-derived here from `Lemmas/Paginate`). -/
theorem fetch_complete {msg : InstMsg} {h0 : Nat} {s0 : State} (hi : instantiate msg h0 = .ok s0)
    (ops : List Op) (limit : Option Nat) (hl : limit ≠ some 0) {fuel : Nat}
    (hf : (run s0 ops).members.cur.length + 1 ≤ fuel) :
    fetchLoop (listPage (run s0 ops) limit) (·.1) none fuel = sortedEntries strLt (run s0 ops).members.cur := by
  have := fetchLoop_sortedEntries strictTotal_strLt (run_nodup ops (instantiate_nodup hi)) hl
    (q := listPage (run s0 ops) limit) (key := (·.1)) (f := id)
    (fun c => by rw [listPage_eq, List.map_id]) (fun _ => rfl) hf
  simpa using this

open Paginate in
/-- **C09 `total_eq_sum_members`, over the listing a client actually fetches**: after any accepted
instantiation and any history, paging through `ListMembers` (any page size `limit ≠ 0`, cursor = last
address of the previous page, enough rounds) yields a list whose weights sum to `TotalWeight {}`. -/
theorem total_eq_sum_listed {msg : InstMsg} {h0 : Nat} {s0 : State} (hi : instantiate msg h0 = .ok s0)
    (ops : List Op) (limit : Option Nat) (hl : limit ≠ some 0) {fuel : Nat}
    (hf : (run s0 ops).members.cur.length + 1 ≤ fuel) :
    queryTotalWeight (run s0 ops) none =
      AMap.sum (fetchLoop (listPage (run s0 ops) limit) (·.1) none fuel) := by
  rw [fetch_complete hi ops limit hl hf, listed_sum]
  exact (total_eq_sum_members hi ops).1

open Paginate in
/-- **C09, the listing agrees with the point query**: after any accepted instantiation and any history,
`(a, w)` is listed by `ListMembers` (all pages together) exactly when `Member { addr: a }` answers `w`; no
address is listed twice. -/
theorem listing_vs_point {msg : InstMsg} {h0 : Nat} {s0 : State} (hi : instantiate msg h0 = .ok s0)
    (ops : List Op) (a : Addr) (w : Nat) :
    ((a, w) ∈ sortedEntries strLt (run s0 ops).members.cur ↔ weight (run s0 ops) a = some w) ∧
    AMap.NodupKeys (sortedEntries strLt (run s0 ops).members.cur) := by
  have hn := run_nodup ops (instantiate_nodup hi)
  exact ⟨mem_sortedEntries_iff_get? strLt hn a w, sortedEntries_nodupKeys hn⟩

open Paginate in
/-- … in terms of the pages a client fetches. -/
theorem fetched_vs_point {msg : InstMsg} {h0 : Nat} {s0 : State} (hi : instantiate msg h0 = .ok s0)
    (ops : List Op) (limit : Option Nat) (hl : limit ≠ some 0) {fuel : Nat}
    (hf : (run s0 ops).members.cur.length + 1 ≤ fuel) (a : Addr) (w : Nat) :
    (a, w) ∈ fetchLoop (listPage (run s0 ops) limit) (·.1) none fuel ↔ weight (run s0 ops) a = some w := by
  rw [fetch_complete hi ops limit hl hf]
  exact (listing_vs_point hi ops a w).1

/-- non-vacuity on `exOps`: at height 13 the table is `{alice: 9, carol: 1}`, total 10 -/
example : queryTotalWeight (run exState exOps) (some 13)
    = AMap.sum (run exState (exOps.filter (fun o => o.height < 13))).members.cur :=
  (total_at_height_eq_sum (msg := exInst) rfl exOps (by decide) (by unfold Ordered; decide) 13 (by decide)).1
example : (run exState (exOps.filter (fun o => o.height < 13))).members.cur = [("alice", 9), ("carol", 1)] := by
  decide
example := total_eq_sum_listed (msg := exInst) (h0 := 10) rfl exOps (some 1) (by decide) (fuel := 4) (by decide)
example := fetched_vs_point (msg := exInst) (h0 := 10) rfl exOps (some 2) (by decide) (fuel := 4) (by decide) "bob" 4

end CwPlus.Props.C09
