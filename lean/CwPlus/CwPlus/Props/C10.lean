import CwPlus.Lemmas.Cw4Stake
/-!
# C10 — cw4-stake: stakes are fully backed, weight follows stake, exit only after the delay

All theorems are about the model `CwPlus.Cw4Stake` (contract + funds world).  `tx` is one atomic
transaction, `run` a finite history of `(block, transaction)` pairs with failed transactions rolled
back; nothing is assumed about the blocks (they need not even be monotone for these clauses).
Helper lemmas (specification of every transaction kind) live in `Lemmas/Cw4Stake.lean`.
-/
namespace CwPlus.Props.C10
open CwPlus CwPlus.Cw4Stake CwPlus.Snapshot

/-- Σ of all recorded stakes. -/
def stakeTotal (s : State) : Nat := AMap.sum s.stake
/-- Σ of all unreleased claims. -/
def claimsTotal (s : State) : Nat := claimTotal s.claims

/-- The books are backed: the contract's holdings in the stake token are exactly the recorded stakes
plus the unreleased claims plus what was sent to it without bonding. -/
def Backed (w : World) : Prop := w.held = stakeTotal w.st + claimsTotal w.st + w.extra

def Op.isDonate : Op → Bool
  | .donate _ _ => true
  | _ => false

/-! ## backing -/

theorem deposited_books {w w' : World} {h : Nat} {snd : Addr} {amt : Nat} {out : List Out}
    (hd : Deposited w w' h snd amt out) :
    stakeTotal w'.st = stakeTotal w.st + amt ∧ claimsTotal w'.st = claimsTotal w.st ∧
    w'.held = w.held + amt ∧ w'.extra = w.extra := by
  obtain ⟨new, _, _, _, hu, _, hh, _, he, _⟩ := hd
  obtain ⟨e1, _⟩ := um_pair hu
  obtain ⟨_, _, _, hs, hc⟩ := um_frame (bondState w.st snd amt) h snd new
  have := AMap.sum_set w.st.stake snd (stakeOf w.st snd + amt)
  refine ⟨?_, ?_, hh, he⟩
  · unfold stakeTotal; rw [e1, hs]; simp only [bondState]; unfold stakeOf at this ⊢; omega
  · unfold claimsTotal; rw [e1, hc]; simp only [bondState]

/-- Every successful transaction keeps the books backed (one step of `backing`). -/
theorem backing_tx {w w' : World} {blk : Block} {op : Op} {out : List Out}
    (hi : Backed w) (h : tx w blk op = .ok (w', out)) : Backed w' := by
  unfold Backed at *
  cases op with
  | bond snd coins =>
    obtain ⟨d, amt, _, _, _, hd⟩ := tx_bond_ok h
    obtain ⟨a, b, c, e⟩ := deposited_books hd
    omega
  | send snd token amt ok =>
    obtain ⟨_, _, hd⟩ := tx_send_ok h
    obtain ⟨a, b, c, e⟩ := deposited_books hd
    omega
  | receive snd sender amt ok => exact (tx_receive_never h).elim
  | unbond snd amt =>
    obtain ⟨new, hle, _, hu, _, hh, _, he, _⟩ := tx_unbond_ok h
    obtain ⟨e1, _⟩ := um_pair hu
    obtain ⟨_, _, _, hs, hc⟩ := um_frame (unbondState w.st blk snd amt) blk.height snd new
    have h1 := AMap.sum_set w.st.stake snd (stakeOf w.st snd - amt)
    have h2 := claimTotal_set w.st.claims snd (claimsOf w.st snd ++ [⟨amt, w.st.cfg.period.after blk⟩])
    have h3 := AMap.get?_le_sum w.st.stake snd
    rw [amountSum_append] at h2
    unfold stakeTotal claimsTotal at *
    rw [e1, hs, hc, hh, he]
    simp only [unbondState]
    simp only [amountSum, List.map_cons, List.map_nil, List.sum_cons, List.sum_nil] at h2
    unfold stakeOf claimsOf at *
    omega
  | claim snd =>
    obtain ⟨hne, hle, _, hst, hh, _, he, _⟩ := tx_claim_ok h
    have h2 := claimTotal_set w.st.claims snd (waiting blk (claimsOf w.st snd))
    have h3 := amountSum_matured_waiting blk (claimsOf w.st snd)
    simp only [stakeTotal, claimsTotal, hst, hh, he]
    unfold claimsOf at *
    simp only [stakeTotal, claimsTotal] at hi
    omega
  | updateAdmin snd a =>
    obtain ⟨_, _, adm, rfl⟩ := tx_updateAdmin_ok h
    simpa [stakeTotal, claimsTotal] using hi
  | addHook snd a =>
    obtain ⟨_, _, _, rfl⟩ := tx_addHook_ok h
    simpa [stakeTotal, claimsTotal] using hi
  | removeHook snd a =>
    obtain ⟨_, _, _, rfl⟩ := tx_removeHook_ok h
    simpa [stakeTotal, claimsTotal] using hi
  | donate snd amt =>
    obtain ⟨_, _, rfl⟩ := tx_donate_ok h
    simp only [stakeTotal, claimsTotal] at hi ⊢
    omega

/-- A fresh contract (holding nothing, no stakes, no claims) is backed. -/
theorem backing_init {m : InstMsg} {st : State} (h : instantiate m = .ok st) (bal : AMap Addr Nat) (acc : List Addr) :
    Backed (World.init st bal acc) := by
  simp [instantiate] at h
  obtain ⟨adm, _, rfl⟩ := h
  simp [Backed, World.init, stakeTotal, claimsTotal]

/-- **C10 `backing`**: after any accepted instantiation and any finite history of transactions (bond,
cw20 send, forged receive, unbond, claim, admin/hook operations, plain transfers to the contract; any
senders, amounts, blocks; failed ones rolled back) the contract holds exactly
Σ stakes + Σ unreleased claims + the plain transfers it received. -/
theorem backing {m : InstMsg} {st : State} (h : instantiate m = .ok st) (bal : AMap Addr Nat) (acc : List Addr)
    (ops : List (Block × Op)) : Backed (run (World.init st bal acc) ops) :=
  run_inv Backed (fun _ _ _ _ _ hi ht => backing_tx hi ht) (backing_init h bal acc) ops

/-- **C10 `backing`, lower bound**: holdings ≥ Σ stakes + Σ unreleased claims, always. -/
theorem backing_ge {m : InstMsg} {st : State} (h : instantiate m = .ok st) (bal : AMap Addr Nat) (acc : List Addr)
    (ops : List (Block × Op)) :
    stakeTotal (run (World.init st bal acc) ops).st + claimsTotal (run (World.init st bal acc) ops).st
      ≤ (run (World.init st bal acc) ops).held := by
  have := backing h bal acc ops
  unfold Backed at this
  omega

/-- The ghost counter of plain transfers moves only by a `donate`. -/
theorem extra_tx {w w' : World} {blk : Block} {op : Op} {out : List Out}
    (h : tx w blk op = .ok (w', out)) (hn : Op.isDonate op = false) : w'.extra = w.extra := by
  cases op with
  | bond snd coins => obtain ⟨_, _, _, _, _, hd⟩ := tx_bond_ok h; exact (deposited_books hd).2.2.2
  | send snd token amt ok => obtain ⟨_, _, hd⟩ := tx_send_ok h; exact (deposited_books hd).2.2.2
  | receive snd sender amt ok => exact (tx_receive_never h).elim
  | unbond snd amt => obtain ⟨_, _, _, _, _, _, _, he, _⟩ := tx_unbond_ok h; exact he
  | claim snd => obtain ⟨_, _, _, _, _, _, he, _⟩ := tx_claim_ok h; exact he
  | updateAdmin snd a => obtain ⟨_, _, adm, rfl⟩ := tx_updateAdmin_ok h; rfl
  | addHook snd a => obtain ⟨_, _, _, rfl⟩ := tx_addHook_ok h; rfl
  | removeHook snd a => obtain ⟨_, _, _, rfl⟩ := tx_removeHook_ok h; rfl
  | donate snd amt => simp [Op.isDonate] at hn

/-- **C10 `backing`, exact form**: when the contract is funded only by bonding (no plain transfer in
the history) its holdings are *exactly* Σ stakes + Σ unreleased claims. -/
theorem backing_exact {m : InstMsg} {st : State} (h : instantiate m = .ok st) (bal : AMap Addr Nat) (acc : List Addr)
    (ops : List (Block × Op)) (hno : ∀ o ∈ ops, Op.isDonate o.2 = false) :
    (run (World.init st bal acc) ops).held =
      stakeTotal (run (World.init st bal acc) ops).st + claimsTotal (run (World.init st bal acc) ops).st := by
  have hb := backing h bal acc ops
  have he : (run (World.init st bal acc) ops).extra = 0 := by
    have h0 : (World.init st bal acc).extra = 0 := rfl
    generalize World.init st bal acc = w at h0
    clear hb h
    induction ops generalizing w with
    | nil => exact h0
    | cons o rest ih =>
      simp only [run, List.foldl_cons]
      apply ih (fun o' ho' => hno o' (by simp [ho']))
      unfold step
      split
      · rename_i w' out ht
        rw [extra_tx ht (hno o (by simp))]; exact h0
      · exact h0
  unfold Backed at hb
  omega

/-- The payout of a claim can never fail for lack of funds: whatever matured is covered by the holdings. -/
theorem claim_covered {w : World} (hi : Backed w) (blk : Block) (snd : Addr) :
    amountSum (matured blk (claimsOf w.st snd)) ≤ w.held := by
  unfold Backed at hi
  have h1 := amountSum_matured_waiting blk (claimsOf w.st snd)
  have h2 := claimTotal_set w.st.claims snd []
  simp only [claimsTotal] at hi
  unfold claimsOf at *
  simp [amountSum] at h2
  simp only [amountSum] at h1 ⊢
  omega

/-- **C10, the paying direction of `claim_pays_matured_once`**: in a backed world whose holdings fit
`u128`, a `Claim` by an address with a positive amount of matured claims always succeeds — the payout
can fail neither for lack of funds nor by overflow — so the matured claims *are* paid. -/
theorem claim_succeeds {w : World} (hi : Backed w) (hfit : w.held ≤ U128_MAX) (blk : Block) (snd : Addr)
    (hdue : 0 < amountSum (matured blk (claimsOf w.st snd))) :
    ∃ w' out, tx w blk (.claim snd) = .ok (w', out) := by
  have hcov := claim_covered hi blk snd
  have h1 : amountSum (matured blk (claimsOf w.st snd)) ≤ U128_MAX := by omega
  have h2 : amountSum (matured blk (claimsOf w.st snd)) ≠ 0 := by omega
  obtain ⟨w', hw'⟩ := deliver_payout_ok
    { w with st := { w.st with claims := w.st.claims.set snd (waiting blk (claimsOf w.st snd)) } } snd _ h2 hcov
  refine ⟨w', [payout w.st.cfg.denom snd (amountSum (matured blk (claimsOf w.st snd)))], ?_⟩
  simp only [tx, execute, execClaim, finish]
  simp only [check, h1, h2, decide_true, if_true, ne_eq, not_false_eq_true, bind, Except.bind, pure, Except.pure]
  simp only at hw'
  rw [hw']

/-! ## stake_frame -/

/-- Stake tokens the transaction `op` bonds for `a`. -/
def bonded (op : Op) (a : Addr) : Nat :=
  match op with
  | .bond snd coins => if snd = a then (coins.map (·.2)).sum else 0
  | .send snd _ amt _ => if snd = a then amt else 0
  | _ => 0

/-- Stake tokens the transaction `op` unbonds for `a`. -/
def unbonded (op : Op) (a : Addr) : Nat :=
  match op with
  | .unbond snd amt => if snd = a then amt else 0
  | _ => 0

theorem deposited_stake {w w' : World} {h : Nat} {snd : Addr} {amt : Nat} {out : List Out}
    (hd : Deposited w w' h snd amt out) (a : Addr) :
    stakeOf w'.st a = if snd = a then stakeOf w.st a + amt else stakeOf w.st a := by
  obtain ⟨new, _, _, _, hu, _⟩ := hd
  obtain ⟨e1, _⟩ := um_pair hu
  obtain ⟨_, _, _, hs, _⟩ := um_frame (bondState w.st snd amt) h snd new
  unfold stakeOf
  rw [e1, hs]
  simp only [bondState, AMap.get?_set]
  split
  · rename_i e; subst e; simp [stakeOf]
  · rfl

/-- **C10 `stake_frame`**: a successful transaction changes the stake of `a` by exactly what `a`
itself bonded (`Bond` with funds / cw20 `Send`) or unbonded in it — nothing else ever moves a stake:
not another user's transaction, not a claim, not an admin operation, not a plain transfer. -/
theorem stake_frame {w w' : World} {blk : Block} {op : Op} {out : List Out}
    (h : tx w blk op = .ok (w', out)) (a : Addr) :
    stakeOf w'.st a + unbonded op a = stakeOf w.st a + bonded op a ∧ unbonded op a ≤ stakeOf w.st a := by
  cases op with
  | bond snd coins =>
    obtain ⟨d, amt, _, rfl, _, hd⟩ := tx_bond_ok h
    rw [deposited_stake hd a]
    simp only [bonded, unbonded]
    split <;> simp
  | send snd token amt ok =>
    obtain ⟨_, _, hd⟩ := tx_send_ok h
    rw [deposited_stake hd a]
    simp only [bonded, unbonded]
    split <;> simp
  | receive snd sender amt ok => exact (tx_receive_never h).elim
  | unbond snd amt =>
    obtain ⟨new, hle, _, hu, _⟩ := tx_unbond_ok h
    obtain ⟨e1, _⟩ := um_pair hu
    obtain ⟨_, _, _, hs, _⟩ := um_frame (unbondState w.st blk snd amt) blk.height snd new
    simp only [bonded, unbonded]
    unfold stakeOf at *
    rw [e1, hs]
    simp only [unbondState, stakeOf, AMap.get?_set]
    split
    · rename_i e; subst e; simp; omega
    · simp
  | claim snd =>
    obtain ⟨_, _, _, hst, _⟩ := tx_claim_ok h
    simp [bonded, unbonded, stakeOf, hst]
  | updateAdmin snd x => obtain ⟨_, _, adm, rfl⟩ := tx_updateAdmin_ok h; simp [bonded, unbonded, stakeOf]
  | addHook snd x => obtain ⟨_, _, _, rfl⟩ := tx_addHook_ok h; simp [bonded, unbonded, stakeOf]
  | removeHook snd x => obtain ⟨_, _, _, rfl⟩ := tx_removeHook_ok h; simp [bonded, unbonded, stakeOf]
  | donate snd amt => obtain ⟨_, _, rfl⟩ := tx_donate_ok h; simp [bonded, unbonded, stakeOf]

/-- **C10 `stake_frame`, histories**: over any history in which `a` signs no transaction, the stake of
`a` does not change. -/
theorem stake_frame_run (a : Addr) (w : World) (ops : List (Block × Op)) (hs : ∀ o ∈ ops, Op.sender o.2 ≠ a) :
    stakeOf (run w ops).st a = stakeOf w.st a := by
  induction ops generalizing w with
  | nil => rfl
  | cons o rest ih =>
    simp only [run, List.foldl_cons]
    have ih' := ih (step w o.1 o.2) (fun o' ho' => hs o' (by simp [ho']))
    simp only [run] at ih'
    rw [ih']
    unfold step
    split
    · rename_i w' out ht
      have hne := hs o (by simp)
      have := stake_frame ht a
      have hb : bonded o.2 a = 0 := by
        unfold bonded; split <;> simp_all [Op.sender]
      have hu : unbonded o.2 a = 0 := by
        unfold unbonded; split <;> simp_all [Op.sender]
      omega
    · rfl

/-! ## only_configured_token -/

/-- **C10 `only_configured_token`**: a bond succeeds only with exactly one coin of the configured
native denom (native configuration) or through a cw20 `Send` of the configured cw20 token carrying the
`Bond {}` payload (cw20 configuration); a `Receive` forged by an account never succeeds. -/
theorem only_configured_token {w w' : World} {blk : Block} {op : Op} {out : List Out}
    (h : tx w blk op = .ok (w', out)) :
    (∀ snd coins, op = .bond snd coins → ∃ d amt, w.st.cfg.denom = .native d ∧ coins = [(d, amt)] ∧ amt ≠ 0) ∧
    (∀ snd token amt ok, op = .send snd token amt ok → w.st.cfg.denom = .cw20 token ∧ ok = true) ∧
    (∀ snd sender amt ok, op ≠ .receive snd sender amt ok) := by
  refine ⟨?_, ?_, ?_⟩
  · rintro snd coins rfl
    obtain ⟨d, amt, hd, hc, hz, _⟩ := tx_bond_ok h
    exact ⟨d, amt, hd, hc, hz⟩
  · rintro snd token amt ok rfl
    obtain ⟨hd, hok, _⟩ := tx_send_ok h
    exact ⟨hd, hok⟩
  · rintro snd sender amt ok rfl
    exact tx_receive_never h

/-- The configuration never changes. -/
theorem cfg_tx {w w' : World} {blk : Block} {op : Op} {out : List Out}
    (h : tx w blk op = .ok (w', out)) : w'.st.cfg = w.st.cfg := by
  cases op with
  | bond snd coins =>
    obtain ⟨_, _, _, _, _, new, _, _, _, hu, _⟩ := tx_bond_ok h
    rw [(um_pair hu).1, (um_frame _ _ _ _).1]; rfl
  | send snd token amt ok =>
    obtain ⟨_, _, new, _, _, _, hu, _⟩ := tx_send_ok h
    rw [(um_pair hu).1, (um_frame _ _ _ _).1]; rfl
  | receive snd sender amt ok => exact (tx_receive_never h).elim
  | unbond snd amt =>
    obtain ⟨new, _, _, hu, _⟩ := tx_unbond_ok h
    rw [(um_pair hu).1, (um_frame _ _ _ _).1]; rfl
  | claim snd => obtain ⟨_, _, _, hst, _⟩ := tx_claim_ok h; rw [hst]
  | updateAdmin snd x => obtain ⟨_, _, adm, rfl⟩ := tx_updateAdmin_ok h; rfl
  | addHook snd x => obtain ⟨_, _, _, rfl⟩ := tx_addHook_ok h; rfl
  | removeHook snd x => obtain ⟨_, _, _, rfl⟩ := tx_removeHook_ok h; rfl
  | donate snd amt => obtain ⟨_, _, rfl⟩ := tx_donate_ok h; rfl

theorem cfg_run (w : World) (ops : List (Block × Op)) : (run w ops).st.cfg = w.st.cfg :=
  run_inv (fun x => x.st.cfg = w.st.cfg) (fun _ _ _ _ _ hi ht => (cfg_tx ht).trans hi) rfl ops

/-! ## claim_pays_matured_once -/

/-- **C10 `claim_pays_matured_once`**: a successful `Claim` by `snd` at block `blk` emits exactly one
message paying `snd` the sum of *all* its claims that are expired at `blk` (a positive amount, in the
configured token), removes exactly those claims, moves exactly that amount from the contract's holdings
to `snd`, leaves everybody else's claims alone — and a second `Claim` in the same block fails. -/
theorem claim_pays_matured_once {w w' : World} {blk : Block} {snd : Addr} {out : List Out}
    (h : tx w blk (.claim snd) = .ok (w', out)) :
    0 < amountSum (matured blk (claimsOf w.st snd)) ∧
    out = [payout w.st.cfg.denom snd (amountSum (matured blk (claimsOf w.st snd)))] ∧
    claimsOf w'.st snd = waiting blk (claimsOf w.st snd) ∧
    (∀ a, a ≠ snd → claimsOf w'.st a = claimsOf w.st a) ∧
    balOf w' snd = balOf w snd + amountSum (matured blk (claimsOf w.st snd)) ∧
    w'.held + amountSum (matured blk (claimsOf w.st snd)) = w.held ∧
    (∀ r, tx w' blk (.claim snd) ≠ .ok r) := by
  obtain ⟨hne, hle, ho, hst, hh, hb, _, _⟩ := tx_claim_ok h
  have hc : claimsOf w'.st snd = waiting blk (claimsOf w.st snd) := by simp [claimsOf, hst]
  refine ⟨by omega, ho, hc, ?_, ?_, by omega, ?_⟩
  · intro a ha
    simp only [claimsOf, hst]
    rw [AMap.get?_set_ne _ _ _ _ (Ne.symm ha)]
  · simp [balOf, hb]
  · rintro ⟨w'', out''⟩ h2
    obtain ⟨hne2, _⟩ := tx_claim_ok h2
    rw [hc, matured_waiting] at hne2
    exact hne2 rfl

/-! ## claim_not_early -/

/-- `(period.after b).is_expired(blk)` means that the whole unbonding period has passed since `b`. -/
theorem after_isExpired (d : Duration) (b blk : Block) :
    (d.after b).isExpired blk = true ↔
      (match d with
       | .height n => b.height + n ≤ blk.height
       | .time secs => b.time + secs * 1000000000 ≤ blk.time) := by
  cases d <;> simp [Duration.after, Expiration.isExpired]

/-- **C10 `claim_not_early` (creation)**: a successful `Unbond { tokens }` at block `blk` appends to the
sender's claims exactly one claim of `tokens` releasing at `unbonding_period.after(blk)`; other users'
claims are untouched. -/
theorem unbond_creates_claim {w w' : World} {blk : Block} {snd : Addr} {amt : Nat} {out : List Out}
    (h : tx w blk (.unbond snd amt) = .ok (w', out)) :
    claimsOf w'.st snd = claimsOf w.st snd ++ [⟨amt, w.st.cfg.period.after blk⟩] ∧
    (∀ a, a ≠ snd → claimsOf w'.st a = claimsOf w.st a) := by
  obtain ⟨new, _, _, hu, _⟩ := tx_unbond_ok h
  obtain ⟨e1, _⟩ := um_pair hu
  obtain ⟨_, _, _, _, hc⟩ := um_frame (unbondState w.st blk snd amt) blk.height snd new
  constructor
  · unfold claimsOf; rw [e1, hc]; simp [unbondState, claimsOf]
  · intro a ha
    unfold claimsOf; rw [e1, hc]; simp only [unbondState]
    rw [AMap.get?_set_ne _ _ _ _ (Ne.symm ha)]

/-- **C10 `claim_not_early` (payment)**: every claim that a successful `Claim` at block `blk` removes
(= pays) is expired at `blk`; claims that are not yet expired stay. -/
theorem claim_not_early {w w' : World} {blk : Block} {snd : Addr} {out : List Out}
    (h : tx w blk (.claim snd) = .ok (w', out)) (c : Claim) (hc : c ∈ claimsOf w.st snd) :
    (c ∉ claimsOf w'.st snd → c.releaseAt.isExpired blk = true) ∧
    (c.releaseAt.isExpired blk = false → c ∈ claimsOf w'.st snd) := by
  have e := (claim_pays_matured_once h).2.2.1
  rw [e]
  constructor
  · intro hn
    by_cases hx : c.releaseAt.isExpired blk = true
    · exact hx
    · exfalso; apply hn; simp [waiting, hc, hx]
  · intro hx
    simp [waiting, hc, hx]

/-- Claims change only by the owner's own unbond (append) or claim (matured ones removed). -/
theorem claims_frame {w w' : World} {blk : Block} {op : Op} {out : List Out}
    (h : tx w blk op = .ok (w', out)) (a : Addr) :
    claimsOf w'.st a =
      (match op with
       | .unbond snd amt => if snd = a then claimsOf w.st a ++ [⟨amt, w.st.cfg.period.after blk⟩] else claimsOf w.st a
       | .claim snd => if snd = a then waiting blk (claimsOf w.st a) else claimsOf w.st a
       | _ => claimsOf w.st a) := by
  cases op with
  | bond snd coins =>
    obtain ⟨_, _, _, _, _, new, _, _, _, hu, _⟩ := tx_bond_ok h
    simp only [claimsOf]; rw [(um_pair hu).1, (um_frame _ _ _ _).2.2.2.2]; rfl
  | send snd token amt ok =>
    obtain ⟨_, _, new, _, _, _, hu, _⟩ := tx_send_ok h
    simp only [claimsOf]; rw [(um_pair hu).1, (um_frame _ _ _ _).2.2.2.2]; rfl
  | receive snd sender amt ok => exact (tx_receive_never h).elim
  | unbond snd amt =>
    obtain ⟨h1, h2⟩ := unbond_creates_claim h
    simp only
    split
    · rename_i e; subst e; exact h1
    · rename_i e; exact h2 a (Ne.symm e)
  | claim snd =>
    obtain ⟨_, _, h1, h2, _⟩ := claim_pays_matured_once h
    simp only
    split
    · rename_i e; subst e; exact h1
    · rename_i e; exact h2 a (Ne.symm e)
  | updateAdmin snd x => obtain ⟨_, _, adm, rfl⟩ := tx_updateAdmin_ok h; rfl
  | addHook snd x => obtain ⟨_, _, _, rfl⟩ := tx_addHook_ok h; rfl
  | removeHook snd x => obtain ⟨_, _, _, rfl⟩ := tx_removeHook_ok h; rfl
  | donate snd amt => obtain ⟨_, _, rfl⟩ := tx_donate_ok h; rfl

/-- Every claim on the books stems from an unbond of its owner in the history, with that amount, and
releases exactly one unbonding period after the block of that unbond. -/
def ClaimsFrom (cfg : Config) (past : List (Block × Op)) (w : World) : Prop :=
  w.st.cfg = cfg ∧
  ∀ a c, c ∈ claimsOf w.st a → ∃ b amt, (b, Op.unbond a amt) ∈ past ∧ c = ⟨amt, cfg.period.after b⟩

theorem claimsFrom_step {cfg : Config} {past : List (Block × Op)} {w : World} (hi : ClaimsFrom cfg past w)
    (o : Block × Op) : ClaimsFrom cfg (past ++ [o]) (step w o.1 o.2) := by
  obtain ⟨hcfg, hcl⟩ := hi
  unfold step
  split
  · rename_i w' out ht
    refine ⟨(cfg_tx ht).trans hcfg, ?_⟩
    intro a c hc
    rw [claims_frame ht a] at hc
    have old : ∀ c, c ∈ claimsOf w.st a → ∃ b amt, (b, Op.unbond a amt) ∈ past ++ [o] ∧ c = ⟨amt, cfg.period.after b⟩ := by
      intro c hc
      obtain ⟨b, amt, hm, e⟩ := hcl a c hc
      exact ⟨b, amt, by simp [hm], e⟩
    obtain ⟨blk, op⟩ := o
    cases op with
    | unbond snd amt =>
      simp only at hc
      split at hc
      · rename_i e; subst e
        rw [List.mem_append] at hc
        rcases hc with hc | hc
        · exact old c hc
        · simp at hc; subst hc
          exact ⟨blk, amt, by simp, by rw [hcfg]⟩
      · exact old c hc
    | claim snd =>
      simp only at hc
      split at hc
      · exact old c (by simp [waiting] at hc; exact hc.1)
      · exact old c hc
    | bond snd coins => exact old c hc
    | send snd token amt ok => exact old c hc
    | receive snd sender amt ok => exact old c hc
    | updateAdmin snd x => exact old c hc
    | addHook snd x => exact old c hc
    | removeHook snd x => exact old c hc
    | donate snd amt => exact old c hc
  · refine ⟨hcfg, ?_⟩
    intro a c hc
    obtain ⟨b, amt, hm, e⟩ := hcl a c hc
    exact ⟨b, amt, by simp [hm], e⟩

theorem claimsFrom_run {cfg : Config} (past : List (Block × Op)) (w : World) (hi : ClaimsFrom cfg past w)
    (ops : List (Block × Op)) : ClaimsFrom cfg (past ++ ops) (run w ops) := by
  induction ops generalizing past w with
  | nil => simpa [run] using hi
  | cons o rest ih =>
    have := ih (past ++ [o]) (step w o.1 o.2) (claimsFrom_step hi o)
    simpa [run, List.append_assoc] using this

/-- **C10 `claim_not_early` (histories)**: after any history, every unreleased claim of `a` was created by
an `Unbond { amt }` of `a` itself at some block `b` of that history, has that amount, and its `release_at`
is `unbonding_period.after(b)`; together with `claim_not_early` (a claim is paid only when
`release_at.is_expired`) and `after_isExpired` nothing is paid before the whole unbonding period has
passed since the unbond. -/
theorem claim_release_at {m : InstMsg} {st : State} (h : instantiate m = .ok st) (bal : AMap Addr Nat) (acc : List Addr)
    (ops : List (Block × Op)) (a : Addr) (c : Claim) (hc : c ∈ claimsOf (run (World.init st bal acc) ops).st a) :
    ∃ b amt, (b, Op.unbond a amt) ∈ ops ∧ c = ⟨amt, st.cfg.period.after b⟩ := by
  have h0 : ClaimsFrom st.cfg [] (World.init st bal acc) := by
    refine ⟨rfl, ?_⟩
    simp [instantiate] at h
    obtain ⟨adm, _, rfl⟩ := h
    intro a c hc
    simp [World.init, claimsOf] at hc
  have := (claimsFrom_run [] _ h0 ops).2 a c hc
  simpa using this

/-! ## member_iff_min_bond, weight_is_quotient -/

/-- The membership table is exactly what `calc_weight` says about the current stakes. -/
def WeightInv (s : State) : Prop :=
  1 ≤ s.cfg.minBond ∧ ∀ a, calcWeight s.cfg (stakeOf s a) = .ok (weightOf s a)

theorem weightInv_um {s : State} {h : Nat} {snd : Addr} {st : Nat} {new : Option Nat} (stake' : AMap Addr Nat)
    (hi : WeightInv s) (hst : ∀ a, (stake'.get? a).getD 0 = if snd = a then st else stakeOf s a)
    (hc : calcWeight s.cfg st = .ok new) (claims' : AMap Addr (List Claim)) :
    WeightInv (um { s with stake := stake', claims := claims' } h snd new).1 := by
  obtain ⟨h1, h2⟩ := hi
  obtain ⟨ecfg, _, _, es, _⟩ := um_frame { s with stake := stake', claims := claims' } h snd new
  refine ⟨by rw [ecfg]; exact h1, ?_⟩
  intro a
  unfold weightOf stakeOf
  rw [um_get?, ecfg, es]
  simp only
  rw [hst a]
  split
  · exact hc
  · exact h2 a

/-- Every successful transaction keeps the membership table consistent with the stakes. -/
theorem weightInv_tx {w w' : World} {blk : Block} {op : Op} {out : List Out}
    (hi : WeightInv w.st) (h : tx w blk op = .ok (w', out)) : WeightInv w'.st := by
  cases op with
  | bond snd coins =>
    obtain ⟨_, amt, _, _, _, new, _, _, hc, hu, _⟩ := tx_bond_ok h
    rw [(um_pair hu).1]
    exact weightInv_um _ hi (fun a => by simp only [AMap.get?_set]; split <;> simp [stakeOf]) hc w.st.claims
  | send snd token amt ok =>
    obtain ⟨_, _, new, _, _, hc, hu, _⟩ := tx_send_ok h
    rw [(um_pair hu).1]
    exact weightInv_um _ hi (fun a => by simp only [AMap.get?_set]; split <;> simp [stakeOf]) hc w.st.claims
  | receive snd sender amt ok => exact (tx_receive_never h).elim
  | unbond snd amt =>
    obtain ⟨new, _, hc, hu, _⟩ := tx_unbond_ok h
    rw [(um_pair hu).1]
    exact weightInv_um _ hi (fun a => by simp only [AMap.get?_set]; split <;> simp [stakeOf]) hc _
  | claim snd => obtain ⟨_, _, _, hst, _⟩ := tx_claim_ok h; rw [hst]; exact hi
  | updateAdmin snd x => obtain ⟨_, _, adm, rfl⟩ := tx_updateAdmin_ok h; exact hi
  | addHook snd x => obtain ⟨_, _, _, rfl⟩ := tx_addHook_ok h; exact hi
  | removeHook snd x => obtain ⟨_, _, _, rfl⟩ := tx_removeHook_ok h; exact hi
  | donate snd amt => obtain ⟨_, _, rfl⟩ := tx_donate_ok h; exact hi

theorem weightInv_init {m : InstMsg} {st : State} (h : instantiate m = .ok st) : WeightInv st := by
  simp [instantiate] at h
  obtain ⟨adm, _, rfl⟩ := h
  refine ⟨by simp; omega, ?_⟩
  intro a
  have : ¬ (max m.minBond 1 = 0) := by omega
  simp [calcWeight, stakeOf, weightOf, SnapMap.get?, this]

theorem weightInv_run {m : InstMsg} {st : State} (h : instantiate m = .ok st) (bal : AMap Addr Nat) (acc : List Addr)
    (ops : List (Block × Op)) : WeightInv (run (World.init st bal acc) ops).st :=
  run_inv (fun w => WeightInv w.st) (fun _ _ _ _ _ hi ht => weightInv_tx hi ht) (weightInv_init h) ops

/-- The stored `min_bond` is `max(min_bond, 1)` of the instantiation message. -/
theorem min_bond_at_least_one {m : InstMsg} {st : State} (h : instantiate m = .ok st) :
    st.cfg.minBond = max m.minBond 1 := by
  simp [instantiate] at h
  obtain ⟨adm, _, rfl⟩ := h
  rfl

/-- **C10 `member_iff_min_bond`**: after any history, an address is reported as a member exactly when
its stake is at least the (stored) minimum bond. -/
theorem member_iff_min_bond {m : InstMsg} {st : State} (h : instantiate m = .ok st) (bal : AMap Addr Nat)
    (acc : List Addr) (ops : List (Block × Op)) (a : Addr) :
    (weightOf (run (World.init st bal acc) ops).st a).isSome = true ↔
      (run (World.init st bal acc) ops).st.cfg.minBond ≤ stakeOf (run (World.init st bal acc) ops).st a := by
  obtain ⟨_, h2⟩ := weightInv_run h bal acc ops
  obtain ⟨e, _⟩ := calcWeight_ok (h2 a)
  rw [e]
  split
  · simp; omega
  · simp; omega

/-- **C10 `weight_is_quotient`**: after any history, whenever an address is reported as a member its
weight is exactly `stake / tokens_per_weight` (integer quotient of the *current* stake — never stale,
never wrapped: it fits `u64`), and `tokens_per_weight` is not zero. -/
theorem weight_is_quotient {m : InstMsg} {st : State} (h : instantiate m = .ok st) (bal : AMap Addr Nat)
    (acc : List Addr) (ops : List (Block × Op)) (a : Addr) (wt : Nat)
    (hw : weightOf (run (World.init st bal acc) ops).st a = some wt) :
    wt = stakeOf (run (World.init st bal acc) ops).st a / (run (World.init st bal acc) ops).st.cfg.tokensPerWeight ∧
    wt ≤ U64_MAX ∧ (run (World.init st bal acc) ops).st.cfg.tokensPerWeight ≠ 0 := by
  obtain ⟨_, h2⟩ := weightInv_run h bal acc ops
  obtain ⟨e, hb⟩ := calcWeight_ok (h2 a)
  rw [hw] at e
  split at e
  · simp at e
  · rename_i hge
    simp at e
    obtain ⟨h3, h4⟩ := hb (by omega)
    exact ⟨e, by omega, h3⟩

/-- A stake whose quotient does not fit `u64` can never be recorded: the bond fails (D4 fix). -/
theorem no_wrap {w w' : World} {blk : Block} {op : Op} {out : List Out}
    (hi : WeightInv w.st) (h : tx w blk op = .ok (w', out)) (a : Addr)
    (hm : w'.st.cfg.minBond ≤ stakeOf w'.st a) :
    stakeOf w'.st a / w'.st.cfg.tokensPerWeight ≤ U64_MAX := by
  obtain ⟨_, h2⟩ := weightInv_tx hi h
  exact ((calcWeight_ok (h2 a)).2 hm).2

/-! ## Non-vacuity: concrete histories -/

def cfgMsg : InstMsg := ⟨.native "ustake", 10, 0, .height 5, some ⟨true, "admin"⟩⟩
def blk0 : Block := ⟨100, 1000⟩
def blk9 : Block := ⟨109, 1900⟩

def stOf (m : InstMsg) : State :=
  match instantiate m with
  | .ok st => st
  | .error _ => default

/-- alice bonds 57, unbonds 20 (claim releasing at height 105), tries to claim at once, bob sends 3
tokens to the contract, alice claims at height 109 and gets 20 back; her second claim fails. -/
def demoOps : List (Block × Op) :=
  [(blk0, .bond "alice" [("ustake", 57)]), (blk0, .unbond "alice" 20), (blk0, .claim "alice"),
   (blk0, .donate "bob" 3), (blk9, .claim "alice"), (blk9, .claim "alice")]

def demoWorld : World := run (World.init (stOf cfgMsg) [("alice", 100), ("bob", 5)] []) demoOps

example : (instantiate cfgMsg).isOk = true := by decide
example : stakeOf demoWorld.st "alice" = 37 ∧ weightOf demoWorld.st "alice" = some 3 ∧
    claimsOf demoWorld.st "alice" = [] ∧ balOf demoWorld "alice" = 63 ∧ demoWorld.held = 40 ∧
    demoWorld.extra = 3 ∧ demoWorld.st.cfg.minBond = 1 := by decide
/-- the early claim (same block as the unbond) fails -/
example : (tx (run (World.init (stOf cfgMsg) [("alice", 100)] []) (demoOps.take 2)) blk0 (.claim "alice")).isOk = false := by
  decide
/-- D4 witness on the model: stake 2^64+5 with tokens_per_weight = 1 is refused, 2^64−1 is accepted -/
example :
    let w := World.init (stOf ⟨.native "ustake", 1, 0, .height 5, none⟩) [("alice", 18446744073709551621)] []
    (tx w blk0 (.bond "alice" [("ustake", 18446744073709551621)])).isOk = false ∧
    (tx w blk0 (.bond "alice" [("ustake", 18446744073709551615)])).isOk = true := by
  decide


/-! ## A liveness quirk of `update_membership`: `total + new − old` is evaluated left to right

`TOTAL.update(|t| t + new − old)` computes `total + new` first, in `u64` with overflow checks.  While a
member's old weight is still part of the total, `total + new` counts that member twice, so the
intermediate sum can exceed `u64::MAX` although the final value `total − old + new` fits.  The
transaction then panics and is rolled back: a *partial* unbond (or a further bond) by a very large
staker can be refused.  Nothing is recorded wrongly — this is **not a violation of C10** (stakes stay
backed, weights stay exact quotients, nobody's stake changes; the staker can still exit by unbonding
down below `min_bond`, which makes `new = 0`) — it is a liveness quirk, documented here precisely. -/

/-- **`update_total_ok_of_room`** (the general positive statement): when the new weight is computable
(`calc_weight` succeeds), the member's old weight is part of the total (always true after an
instantiation: C09 `total_eq_sum_members` / `no_underflow`) and there is room for the intermediate sum,
`total + new ≤ u64::MAX`, then `update_membership` — hence the update of the total — cannot fail, and
its result is the closed form `um`. -/
theorem update_total_ok_of_room {s : State} {h : Nat} {a : Addr} {ns : Nat} {new : Option Nat}
    (hc : calcWeight s.cfg ns = .ok new) (hpart : (s.members.get? a).getD 0 ≤ s.total)
    (hroom : s.total + new.getD 0 ≤ U64_MAX) :
    updateMembership s h a ns = .ok (um s h a new) := by
  unfold updateMembership um
  simp only [hc, bind, Except.bind]
  by_cases hn : new = s.members.get? a
  · simp [hn, pure, Except.pure]
  · have h2 : (s.members.get? a).getD 0 ≤ s.total + new.getD 0 := by omega
    simp [hn, addU64, subU64, hroom, h2, pure, Except.pure]

/-- The converse: when the weight changes and the intermediate sum does not fit, `update_membership`
fails with the `u64` overflow — whatever the final value would have been. -/
theorem update_total_overflow_of_no_room {s : State} {h : Nat} {a : Addr} {ns : Nat} {new : Option Nat}
    (hc : calcWeight s.cfg ns = .ok new) (hne : new ≠ s.members.get? a)
    (hno : U64_MAX < s.total + new.getD 0) :
    updateMembership s h a ns = .error "overflow.u64" := by
  unfold updateMembership
  have : ¬ (s.total + new.getD 0 ≤ U64_MAX) := by omega
  simp [hc, bind, Except.bind, hne, addU64, this]

/-- tokens_per_weight = 1, min_bond = 1, no admin -/
def bigCfg : InstMsg := ⟨.native "ustake", 1, 0, .height 5, none⟩
/-- alice owns 2^64 − 1 stake tokens -/
def bigWorld : World := World.init (stOf bigCfg) [("alice", 18446744073709551615)] []
/-- … and has bonded them all: weight = total = 2^64 − 1 -/
def bigBonded : World := step bigWorld blk0 (.bond "alice" [("ustake", 18446744073709551615)])

/-- **`unbond_may_overflow_total`** (concrete instance on the model): with `tokens_per_weight = 1` a bond
of 2^64 − 1 is accepted (weight and total 2^64 − 1); then `unbond 4` — new weight 2^64 − 5, final total
2^64 − 5, both representable — is refused with the `u64` overflow tag because `total + new = 2^65 − 6`
is computed first; the state is unchanged by the failed transaction, and unbonding everything (new
weight 0) still works. -/
theorem unbond_may_overflow_total :
    (tx bigWorld blk0 (.bond "alice" [("ustake", 18446744073709551615)])).isOk = true ∧
    bigBonded.st.total = 18446744073709551615 ∧ weightOf bigBonded.st "alice" = some 18446744073709551615 ∧
    (tx bigBonded blk0 (.unbond "alice" 4)).tag = "overflow.u64" ∧
    stakeOf (step bigBonded blk0 (.unbond "alice" 4)).st "alice" = 18446744073709551615 ∧
    (tx bigBonded blk0 (.unbond "alice" 18446744073709551615)).isOk = true := by
  decide

/-- non-vacuity of `update_total_ok_of_room` / `update_total_overflow_of_no_room` on concrete states -/
example : updateMembership demoWorld.st 200 "alice" 17 = .ok (um demoWorld.st 200 "alice" (some 1)) :=
  update_total_ok_of_room (by rfl) (by decide) (by decide)
example : updateMembership bigBonded.st 200 "alice" 18446744073709551611 = .error "overflow.u64" :=
  update_total_overflow_of_no_room (new := some 18446744073709551611) (by rfl) (by decide) (by decide)

end CwPlus.Props.C10
